"""C15 -- The filename generator yields unique, clean names in template order.
Correspondence: plasTeX.Filenames.Filenames (real class from $VERIF_REPO) vs Model/Filenames.v, on templates x binding histories.

A case is a dict
  spec     the filename template string            charsub  None | [bad_chars, substitute]
  vars0    [[key, value], ...] initial namespace   ext      extension string
  invalid  [reserved names]                        reqs     [[[key, value], ...], ...]  bindings put into .variables before each call
Observation (both sides): [files, [[result, variables-after], ...], invalid-after]
  result = [0, name] | [1] (None: generator finished) | [-2, 1] ValueError "could not be created" | [-2, 2] ValueError from
  string.Template | [-2, 3] IndexError.

The judge compares the *results* (names / errors).  The property text is evaluated by an independent reference evaluator
(`oracle`, written from the property statement on a strict parser of the documented template grammar); violation=True only when the
case is inside the documented grammar and the implementation's results differ from that reference.  VERIF_C15_STRICT=1 also
compares parsed files, variables after every request and the final invalid list (used to validate the Model; a difference there is
reported with violation=False).  VERIF_C15_LEGACY=1 runs the Model with the three pre-repair switches (validation of the unfixed code)."""
import itertools
import os
import re

ID = 'C15'
PINS = [('plasTeX/Filenames.py', 'Filenames.parseFilenames'), ('plasTeX/Filenames.py', 'Filenames._newFilename'),
        ('plasTeX/Filenames.py', 'Filenames.addExtension'), ('plasTeX/Filenames.py', 'Filenames.__next__'),
        ('plasTeX/Filenames.py', 'Filenames.__init__')]
RULE = ('templates generated from the documented grammar (0-3 static names, optional wildcard with 1-4 alternatives, prefix/suffix '
        'around the brackets, variables $v ${v} ${ v } with and without (width), $num with widths, printed with random blanks) x '
        'request histories of length 0-12 (bindings drawn from a small pool so that values repeat, are missing, are empty, contain '
        'blanks / forbidden characters / dots / slashes, or equal numbered candidates) x forbidden-character sets x reserved names x '
        'extensions; an exhaustive small-scope stream (fixed template list x all binding sequences up to length 3 over 5 bindings x '
        'reserved sets); a collision/bail-out stream; a long-history stream (101-150 requests, reserved numbers near 100); a malformed stream of raw strings over "$ { } ( ) [ ] , . blank a 1 _". '
        'Non-trivial = at least 2 requests, a variable in the template, and a skip, an unbound alternative, an error or the wildcard '
        'phase reached.')
TRUSTED = ['modelled, not verified: Python re (the six normalising substitutions, keysre.findall, the format-stripping substitution) '
           'and string.Template.substitute are hand-written scanners in the Model, tied by the correspondence; '
           'Python "%.Nd" formatting is modelled by the standard library N.to_uint with zero padding; os.path.splitext by rfind/slice',
           '\\w, \\d and Template identifiers are modelled on ASCII; white space is the full Python str.isspace set']
ASSUMPTIONS = ['template strings are ASCII (values and reserved names may contain any code point)',
               'bindings are str -> str; widths have at most 2 digits in generated cases',
               'judged as violations only inside the documented grammar: wildcard last, 1-4 non-empty alternatives without blanks, '
               'variable names are identifiers, "num" not bound by the caller, one format per variable per name, substitute string '
               'disjoint from the forbidden set, no forbidden white space together with a word limit (order of the two unspecified), '
               'fewer than 100 passes used (the bail-out bound is implementation-defined)']
CASE_TIMEOUT = 2

LEGACY = 1 if os.environ.get('VERIF_C15_LEGACY') else 0
STRICT = bool(os.environ.get('VERIF_C15_STRICT'))


def S(s):
    return [ord(c) for c in s]


def unS(l):
    return ''.join(chr(c) for c in l)


# ---- the documented grammar: AST, printer ----------------------------------------------------------
# name: list of segs; seg = ['lit', s] | ['var', name, width|None, style, wstyle]
# template: {'static': [name...], 'wild': None | {'pre': name, 'alts': [name...], 'post': name, 'bstyle': int}}

VARS = ['id', 'title', 'ref', 'name', 'jobname', 'x', 'a1', '_v']
LITS = ['index', 'sect', 'file', 'a', 'b', '-', '_', '.', 'x.y', 'toc', 'n', '0', 'A-']
VALUES = ['intro', 'Intro', 'a b c', ' a  b ', '', ' ', 'a/b', 'x.y', 'sect1', 'sect2', 'sect0001', 'sect02', 'index', 'a:b c', 'a\tb',
          'a b', 'été', 'T', 'a', 'b', '1', '2', 'one two three four', 'file1', 'a.', '.a', 'q/r.s', '$x', 'a$b', '..']
EXTS = ['', '.html', '.html', '.x', 'html', '.']
CHARSUBS = [None, None, [': /', '-'], [' ', '_'], ['ab', 'b'], ['', '-'], ['/', ''], [': #$%^&*!~`"\'=?/{}[]()|<>;\\,.', '-'], ['.', '-'],
            ['a', 'xy']]


def print_seg(seg, nxt_wordy):
    if seg[0] == 'lit':
        return seg[1]
    _, name, width, style, wstyle = seg
    if style == 0 and (width is not None or not nxt_wordy):
        s = '$' + name
    elif style == 2:
        s = '${ ' + name + '  }'
    else:
        s = '${' + name + '}'
    if width is not None:
        s += ['(%s)', '( %s )', '(%s )'][wstyle] % width
    return s


def wordy(seg):
    return seg[0] == 'lit' and re.match(r'\w', seg[1]) is not None


def print_name(name, follow_wordy=False):
    out = []
    for i, seg in enumerate(name):
        nxt = wordy(name[i + 1]) if i + 1 < len(name) else follow_wordy
        out.append(print_seg(seg, nxt))
    return ''.join(out)


def print_template(t, rng=None):
    names = [print_name(n) for n in t['static']]
    w = t['wild']
    if w is not None:
        b = w['bstyle']
        lb, rb, cm = [('[', ']', ','), ('[ ', ' ]', ', '), ('[', ']', ' , '), ('[  ', ']', ',')][b]
        post = print_name(w['post'])
        post_wordy = bool(post) and re.match(r'\w', post) is not None
        alts = [print_name(a) for a in w['alts']]
        names.append(print_name(w['pre'], False) + lb + cm.join(alts) + rb + post)
        # a plain "$v" as the last thing of pre or of an alternative is fine: the next character is a bracket / comma
        del post_wordy
    sep = ' '
    return sep.join(names)


def rand_seg(rng, numbered_ok=True):
    r = rng.random()
    if r < 0.4:
        return ['lit', rng.choice(LITS)]
    if r < 0.6 and numbered_ok:
        return ['var', 'num', rng.choice([None, None, '1', '2', '3', '4', '04', '0']), rng.randint(0, 2), rng.randint(0, 2)]
    return ['var', rng.choice(VARS[:4] if rng.random() < 0.8 else VARS), rng.choice([None, None, None, '1', '2', '3', '0']),
            rng.randint(0, 2), rng.randint(0, 2)]


def rand_name(rng, lo=1, hi=3):
    return [rand_seg(rng) for _ in range(rng.randint(lo, hi))]


def rand_template(rng):
    t = {'static': [rand_name(rng) for _ in range(rng.choice([0, 0, 1, 1, 2, 3]))], 'wild': None}
    if rng.random() < 0.8:
        alts = [rand_name(rng, 1, 2) for _ in range(rng.choice([1, 2, 2, 3, 3, 4]))]
        if rng.random() < 0.85:
            alts[-1] = [['lit', rng.choice(['sect', 'file', 'n'])], ['var', 'num', rng.choice([None, '2', '4']), rng.randint(0, 2), 0]]
        t['wild'] = {'pre': rand_name(rng, 0, 1), 'alts': alts, 'post': rand_name(rng, 0, 1) if rng.random() < 0.5 else [],
                     'bstyle': rng.randint(0, 3)}
    else:
        # no bracket group: the last name is the wildcard; mostly give it a number so that it can go on
        t['static'].append(rand_name(rng) + ([['var', 'num', rng.choice([None, '3']), 1, 0]] if rng.random() < 0.7 else []))
    return t


def rand_bindings(rng, pool_vars, pool_vals):
    b = []
    for v in pool_vars:
        if rng.random() < 0.45:
            b.append([v, rng.choice(pool_vals)])
    return b


def candidates_of(spec):
    """plausible outputs, used to seed reserved names and colliding values"""
    lits = re.findall(r'[A-Za-z][A-Za-z0-9_.-]*', spec)
    out = ['sect1', 'sect2', 'sect01', 'sect0001', 'index', 'file1', 'n1', 'n2', 'intro', 'a', 'T', '1', '2', '01', '02']
    out += [l for l in lits if l not in VARS and l != 'num'][:4]
    return out


def rand_case(rng, spec=None):
    if spec is None:
        spec = print_template(rand_template(rng))
    ext = rng.choice(EXTS)
    cands = candidates_of(spec)
    vals = rng.sample(VALUES, rng.randint(2, 5)) + rng.sample(cands, 2)
    pool_vars = rng.sample(VARS[:4], rng.randint(1, 3)) + ([rng.choice(VARS[4:])] if rng.random() < 0.3 else [])
    if rng.random() < 0.03:
        pool_vars.append('num')
    vars0 = rand_bindings(rng, ['jobname'] + pool_vars[:1], vals) if rng.random() < 0.5 else []
    n = rng.choice([0, 1, 2, 3, 4, 5, 6, 8, 10, 12])
    reqs = [rand_bindings(rng, pool_vars, vals) if rng.random() < 0.85 else [] for _ in range(n)]
    if reqs and rng.random() < 0.5:
        reqs[0] = []
    invalid = []
    if rng.random() < 0.5:
        invalid = [c + (ext if rng.random() < 0.7 else '') for c in rng.sample(cands, rng.randint(1, 4))]
        invalid = list(dict.fromkeys(invalid))
    return dict(spec=spec, charsub=rng.choice(CHARSUBS), vars0=vars0, ext=ext, invalid=invalid, reqs=reqs)


SMALL_TEMPLATES = ['index [$id, sect$num(4)]', '[$title, $id, sect$num]', '[$title, $id-$num]', '$id', 'a b c', 'a $id [$title]',
                   '$title(2)', '$num $num(2) x$num', '[$id]', 'sect$num', '$id-$num', '[$id-$num, sect$num]', 'x[$id,$title]y',
                   '$id $title s$num(2)', '[$title(1), n$num]', 'index toc [$id]', '$id$title', '[sect$num, $id]', '', '[a, b]',
                   '$jobname-[$id, $num]', '${id}x [$title.$id, f$num]']
SMALL_BINDINGS = [[], [['id', 'a']], [['id', 'b']], [['title', 'T t u']], [['id', 'a'], ['title', 'a']]]
SMALL_INVALID = [[], ['sect1', 'a'], ['sect0001.html', 'a.html', 'index.html', 'T.html']]


def small_scope(depth):
    for spec in SMALL_TEMPLATES:
        for n in range(depth + 1):
            for seq in itertools.product(range(len(SMALL_BINDINGS)), repeat=n):
                for k, inv in enumerate(SMALL_INVALID):
                    ext = '.html' if k == 2 else ''
                    yield dict(spec=spec, charsub=None if k != 1 else [' ', '-'], vars0=[], ext=ext, invalid=inv,
                               reqs=[SMALL_BINDINGS[i] for i in seq])


def collision_case(rng):
    """few alternatives, few distinct values, reserved names on the numbered candidates: skips, several passes, bail-outs"""
    tail = rng.choice(['sect$num', 'sect$num(2)', '$id-$num', 'n$num(1)', '$num', 'sect$num', 'n$num', 'sect$num(2)', None])
    heads = rng.sample(['$id', '$title', '$title(1)', '$id.$title', '$ref', 'x$id'], rng.randint(0, 2))
    alts = heads + ([tail] if tail else [])
    if not alts:
        alts = ['$id']
    static = rng.sample(['index', '$id', 'toc', 's$num', '$title'], rng.choice([0, 0, 1, 2]))
    spec = ' '.join(static + ['[' + ', '.join(alts) + ']'])
    vals = rng.sample(['a', 'b', 'sect1', 'sect2', 'sect02', 'n1', 'a-1', 'a-2', '1', '2', 'index', 'x y', ''], 3)
    n = rng.choice([2, 3, 4, 6, 8, 12])
    reqs = [rand_bindings(rng, ['id', 'title'], vals) for _ in range(n)]
    if rng.random() < 0.6:
        reqs[0] = []
    ext = rng.choice(['', '.html'])
    invalid = []
    r = rng.random()
    if r < 0.3:
        invalid = [c + ext for c in rng.sample(['sect1', 'sect2', 'sect3', 'sect01', 'sect02', 'a', 'b', 'a-1', 'a-2', 'n1', 'n2', '1', '2', '3'], 4)]
    elif r < 0.4:
        k = rng.choice([3, 50, 98, 99, 100, 101, 102, 120])
        invalid = [p + ext for i in range(1, k + 1) for p in ('sect%d' % i, 'sect%02d' % i, 'n%d' % i, '%d' % i)]
    invalid = list(dict.fromkeys(invalid))
    return dict(spec=spec, charsub=rng.choice([None, None, [' ', '-']]), vars0=[] if rng.random() < 0.7 else [['id', rng.choice(vals)]],
                ext=ext, invalid=invalid, reqs=reqs)


MAL = '${}()[],. a1_'


def malformed_case(rng):
    if rng.random() < 0.5:
        spec = ''.join(rng.choice(MAL) for _ in range(rng.randint(0, 14)))
    else:
        # a valid template with one character inserted, deleted or replaced
        spec = print_template(rand_template(rng))
        i = rng.randint(0, len(spec))
        r = rng.random()
        if r < 0.4:
            spec = spec[:i] + rng.choice(MAL) + spec[i:]
        elif r < 0.7:
            spec = spec[:i] + spec[i + 1:]
        else:
            spec = spec[:i] + rng.choice(MAL) + spec[i + 1:]
    return rand_case(rng, spec)


def _cap_bailouts(cases, limit):
    """keep at most `limit` cases per stream whose history reaches the 100-pass bail-out (each costs the Model 101 passes and, should
    a changed implementation loop forever, one CASE_TIMEOUT) -- the others are kept as they are"""
    seen = {}
    out = []
    for name, c in cases:
        t = in_scope(c)
        if t is not None:
            _, info = oracle(c, t)
            if info['maxpasses'] >= 100:
                seen[name] = seen.get(name, 0) + 1
                if seen[name] > limit:
                    continue
        out.append((name, c))
    return out


def streams(rng, tier, boost):
    return _cap_bailouts(_streams(rng, tier, boost), 150 if tier == 'quick' else 3000)


def long_case(rng):
    """more than 100 requests against a numbered wildcard with a few reserved numbers: the give-up bound must count per request"""
    stem = rng.choice(['sect', 'n', ''])
    w = rng.choice(['', '(3)'])
    n = rng.choice([101, 103, 110, 120, 150])
    res = sorted(set(rng.randint(90, n + 5) for _ in range(rng.randint(1, 4))))
    fmt = (lambda i: '%s%03d' % (stem, i)) if w else (lambda i: '%s%d' % (stem, i))
    return dict(spec=rng.choice(['%s$num%s', '[$id, %s$num%s]', 'index [%s$num%s]']) % (stem, w), charsub=None, vars0=[], ext='',
                invalid=[fmt(i) for i in res], reqs=[[] for _ in range(n)])


def _streams(rng, tier, boost):
    out = []
    depth = 2 if tier == 'quick' else 3
    if boost > 1:
        depth = 3
    for c in small_scope(depth):
        out.append(('exhaustive', c))
    n = (14000 if tier == 'quick' else 300000) * (boost if tier == 'quick' else 1)
    for _ in range(n):
        out.append(('structured', rand_case(rng)))
    for _ in range((6000 if tier == 'quick' else 80000) * (boost if tier == 'quick' else 1)):
        out.append(('collision', collision_case(rng)))
    for _ in range((4000 if tier == 'quick' else 60000) * (boost if tier == 'quick' else 1)):
        out.append(('malformed', malformed_case(rng)))
    for _ in range(12 if tier == 'quick' else 200):
        out.append(('long-history', long_case(rng)))
    return out


def search_streams(rng, tier):
    return [('search', rand_case(rng)) for _ in range(4000)] + [('search', collision_case(rng)) for _ in range(4000)]


# ---- wire ---------------------------------------------------------------------------------------------

def model_input(case):
    cs = case['charsub']
    return [S(case['spec']), [] if cs is None else [S(cs[0]), S(cs[1])], [[S(k), S(v)] for k, v in case['vars0']], S(case['ext']),
            [S(x) for x in case['invalid']], [[[S(k), S(v)] for k, v in b] for b in case['reqs']],
            case.get('legacy', LEGACY), case.get('legacy', LEGACY), case.get('legacy', LEGACY)]


def describe(case):
    return ('Filenames(%r, charsub=%r, variables=%r, extension=%r, invalid=%r); requests (variables.update(b); f()): %r' % (
        case['spec'], tuple(case['charsub']) if case['charsub'] else None, dict(map(tuple, case['vars0'])), case['ext'],
        case['invalid'] if len(case['invalid']) < 12 else case['invalid'][:12] + ['... %d names' % len(case['invalid'])], case['reqs']))


def enc_files(files):
    out = []
    for f in files:
        if isinstance(f, str):
            out.append([0, S(f)])
        elif isinstance(f, list) and all(isinstance(x, str) for x in f):
            out.append([1, [S(x) for x in f]])
        else:
            return ['nested']
    return out


SOFT_LIMIT = 0.5     # seconds; a case normally takes 1-3 ms.  A time-out is re-checked by the judge before it counts (see _confirm_hang)


def run_impl(case, limit=SOFT_LIMIT):
    from plasTeX.Filenames import Filenames
    if limit:
        import signal
        # shorten the per-case alarm armed by the driver (same handler: the case is reported as ['hang'])
        signal.setitimer(signal.ITIMER_REAL, limit)
    cs = case['charsub']
    f = Filenames(case['spec'], tuple(cs) if cs is not None else None, dict((k, v) for k, v in case['vars0']), case['ext'],
                  dict.fromkeys(case['invalid']))
    files = enc_files(f.files)
    out = []
    for b in case['reqs']:
        f.variables.update(dict((k, v) for k, v in b))
        try:
            r = f()
            res = [1] if r is None else [0, S(r)]
        except ValueError as e:
            res = [-2, 1] if 'could not be created' in str(e) else [-2, 2]
        except IndexError:
            res = [-2, 3]
        except (TypeError, AttributeError) as e:
            res = [-2, 9]
        out.append([res, [[S(k), S(v)] for k, v in f.variables.items()]])
    return [files, out, [S(x) for x in f.invalid]]


# ---- strict parser of the documented grammar + reference evaluator (the Spec oracle) ---------------------

_IDENT = re.compile(r'[A-Za-z_][A-Za-z0-9_]*')
_LIT = re.compile(r'[A-Za-z0-9_.\-]+')
_WS = ' \t'


def strict_parse(spec):
    """-> (static names, wildcard alternatives) with name = [('lit', s) | ('var', name, width|None)], or None when the template is
    not in the documented grammar."""
    if any(ord(c) > 126 or (ord(c) < 32 and c not in _WS) for c in spec):
        return None
    s = spec.strip(_WS)
    pos = 0
    n = len(s)

    def ws():
        nonlocal pos
        while pos < n and s[pos] in _WS:
            pos += 1

    def part():
        """one literal run or variable at pos, or None"""
        nonlocal pos
        if pos < n and s[pos] == '$':
            save = pos
            pos += 1
            if pos < n and s[pos] == '{':
                pos += 1
                ws()
                m = _IDENT.match(s, pos)
                if not m:
                    pos = save
                    return None
                pos = m.end()
                ws()
                if pos >= n or s[pos] != '}':
                    pos = save
                    return None
                pos += 1
                name = m.group(0)
            else:
                m = re.compile(r'\w+', re.A).match(s, pos)
                if not m or not _IDENT.fullmatch(m.group(0)):
                    pos = save
                    return None
                pos = m.end()
                name = m.group(0)
            width = None
            if pos < n and s[pos] == '(':
                save2 = pos
                pos += 1
                ws()
                m = re.compile(r'[0-9]+').match(s, pos)
                if m:
                    pos = m.end()
                    ws()
                    if pos < n and s[pos] == ')':
                        pos += 1
                        width = m.group(0)
                    else:
                        pos = save
                        return None
                else:
                    pos = save
                    return None
                del save2
            return ('var', name, width)
        m = _LIT.match(s, pos)
        if m:
            pos = m.end()
            return ('lit', m.group(0))
        return None

    def parts():
        out = []
        while True:
            p = part()
            if p is None:
                return out
            out.append(p)

    names = []
    while pos < n:
        pre = parts()
        group = None
        post = []
        if pos < n and s[pos] == '[':
            pos += 1
            ws()
            group = []
            while True:
                a = parts()
                if not a:
                    return None
                group.append(a)
                ws()
                if pos < n and s[pos] == ',':
                    pos += 1
                    ws()
                    continue
                if pos < n and s[pos] == ']':
                    pos += 1
                    break
                return None
            post = parts()
        if pos < n and s[pos] not in _WS:
            return None
        if not pre and group is None:
            return None
        names.append((pre, group, post))
        ws()
    if not names:
        return None
    if any(g is not None for _, g, _ in names[:-1]):
        return None
    pre, group, post = names[-1]
    static = [p for p, _, _ in names[:-1]]
    if group is None:
        wild = [pre]
    else:
        if not 1 <= len(group) <= 4:
            return None
        wild = [pre + a + post for a in group]
    for name in static + wild:
        fm = {}
        for p in name:
            if p[0] == 'var':
                if fm.setdefault(p[1], p[2]) != p[2]:
                    return None       # two formats for one variable in one name: sequential in the code, unspecified in the text
                if p[2] is not None and len(p[2]) > 2:
                    return None
        # adjacent literal/var merges are excluded by construction of the parser (greedy \w+)
    return static, wild


def in_scope(case):
    """the part of the input space the property statement determines completely"""
    t = strict_parse(case['spec'])
    if t is None:
        return None
    static, wild = t
    keys = [k for k, _ in case['vars0']] + [k for b in case['reqs'] for k, _ in b]
    if 'num' in keys:
        return None
    cs = case['charsub']
    limited = any(p[0] == 'var' and p[1] != 'num' and p[2] is not None for nm in static + wild for p in nm)
    if cs is not None:
        if any(c in cs[1] for c in cs[0]):
            return None
        if limited and any(c.isspace() for c in cs[0]):
            return None           # word limit after or before replacing blanks: the text does not say
    return t


class Unbound(Exception):
    pass


def oracle(case, t):
    """reference evaluator written from the property statement.  -> (results, info)"""
    import os.path
    static, wild = t
    cs = case['charsub']
    ext = case['ext']

    def value(v, width):
        if cs is not None:
            v = ''.join(cs[1] if c in cs[0] else c for c in v)
        if width is not None:
            v = ' '.join(v.split()[:int(width)])
        return v

    def expand(name, ns, num):
        out = []
        numbered = False
        for p in name:
            if p[0] == 'var' and p[1] == 'num':
                numbered = True
        for p in name:
            if p[0] == 'lit':
                out.append(p[1])
            elif p[1] == 'num':
                out.append(str(num).rjust(int(p[2]) if p[2] else 0, '0'))
            else:
                if p[1] not in ns:
                    raise Unbound()
                out.append(value(ns[p[1]], p[2]))
        r = ''.join(out)
        if not os.path.splitext(r)[1]:
            r += ext
        return r, numbered

    issued = set(case['invalid'])
    ns = dict((k, v) for k, v in case['vars0'])
    g = None
    num = 1
    si = 0
    passes = 0
    results = []
    info = dict(skips=0, unbound=0, maxpasses=0, wild=0, errors=0)
    for b in case['reqs']:
        ns.update(dict((k, v) for k, v in b))
        if g is None:
            g = dict(ns)
        name = None
        while si < len(static) and name is None:
            item = static[si]
            si += 1
            try:
                cand, numbered = expand(item, ns, num)
            except Unbound:
                info['unbound'] += 1
                continue
            if numbered:
                num += 1
            if cand in issued:
                info['skips'] += 1
            else:
                name = cand
        if name is None:
            info['wild'] += 1
            passes = 0            # the give-up bound belongs to the request
            while True:
                passes += 1
                for alt in wild:
                    try:
                        cand, numbered = expand(alt, ns, num)
                    except Unbound:
                        info['unbound'] += 1
                        continue
                    if numbered:
                        num += 1
                    if cand in issued:
                        info['skips'] += 1
                        continue
                    name = cand
                    break
                if name is not None or passes > 100:
                    break
            info['maxpasses'] = max(info['maxpasses'], passes)
        if name is None:
            results.append('error')
            info['errors'] += 1
            break
        issued.add(name)
        results.append(name)
        ns = dict(g)
    return results, info


def results_of(obs):
    """observation -> list of 'name' strings / 'error' / 'none' / 'raise:k'"""
    if not (isinstance(obs, list) and len(obs) == 3 and isinstance(obs[1], list)):
        return None
    out = []
    for r in obs[1]:
        res = r[0]
        if res[0] == 0:
            out.append(unS(res[1]))
        elif res[0] == 1:
            out.append(None)
        elif res[0] == -2:
            out.append('error' if res[1] == 1 else 'raise:%d' % res[1])
        else:
            out.append('other:%r' % (res,))
    return out


def cut(results):
    """results up to and including the first error (afterwards the generator is finished; the property says nothing)"""
    out = []
    for r in results:
        out.append(r)
        if r is None or r == 'error' or (isinstance(r, str) and r.startswith(('raise:', 'other:'))):
            break
    return out


_HANG_CONFIRMATIONS = [0]


def _confirm_hang(case, seconds=10):
    """a per-case time-out under load is not yet a loop: re-run the first few 'hang' cases here with a generous alarm"""
    import signal

    class _T(Exception):
        pass

    def _h(signum, frame):
        raise _T()
    old = signal.signal(signal.SIGALRM, _h)
    signal.alarm(seconds)
    try:
        return run_impl(case, limit=None)
    except _T:
        return ['hang']
    except BaseException as e:  # noqa
        return ['raise', type(e).__name__, str(e)[:200]]
    finally:
        signal.alarm(0)
        signal.signal(signal.SIGALRM, old)


def judge(case, io, mo):
    if mo == [-4]:
        return None                      # a second '[' inside one name: not modelled, not in the documented grammar
    if io == mo:
        return None
    if isinstance(io, list) and io[:1] == ['hang'] and _HANG_CONFIRMATIONS[0] < 3:
        # the soft limit is short; under load a slow case is not a loop.  Re-run it here with a generous alarm; once three
        # cases have been confirmed to loop the remaining time-outs are taken at face value.
        io = _confirm_hang(case)
        if io == ['hang']:
            _HANG_CONFIRMATIONS[0] += 1
        if io == mo:
            return None
    ir = results_of(io)
    mr = results_of(mo)
    if mr is None:
        return dict(violation=False, key='C15:model-output', what='model output not understood: %r' % (mo,))
    t = in_scope(case)
    if ir is None:
        # the implementation raised something run_impl does not map, or hung
        kind = io[0] if isinstance(io, list) and io else 'unknown'
        hang = kind == 'hang'
        return dict(violation=bool(t is not None), key='C15:impl-' + str(kind) + (':' + str(io[1]) if kind == 'raise' else ''),
                    expected=mr, what='implementation %s; the Model gives %s' % (io[:3], mr) + (' (never loops: theorem M6)' if hang else ''))
    if ir == mr and not STRICT:
        return None
    if ir == mr:
        part = 'files' if io[0] != mo[0] else ('variables' if io[1] != mo[1] else 'invalid')
        return dict(violation=False, key='C15:state-' + part, what='same names, different %s' % part)
    if t is None:
        return dict(violation=False, key='C15:out-of-grammar', expected=mr,
                    what='outside the documented grammar: implementation %s, Model %s' % (ir, mr))
    exp, info = oracle(case, t)
    n = len(exp)
    icut = cut(ir)[:n]
    if info['maxpasses'] >= 100:
        return dict(violation=False, key='C15:bail-out-bound', expected=exp,
                    what='differs only where the 100-pass bail-out is involved: implementation %s, Model %s' % (ir, mr))
    if icut == exp:
        return dict(violation=False, key='C15:model-deviates', expected=exp,
                    what='implementation agrees with the reference evaluator, the Model does not: %s vs %s' % (ir, mr))
    # which clause?
    names = [r for r in icut if isinstance(r, str) and r != 'error' and not r.startswith(('raise:', 'other:'))]
    k = next((i for i in range(min(len(icut), len(exp))) if icut[i] != exp[i]), min(len(icut), len(exp)))
    got = icut[k] if k < len(icut) else '(nothing)'
    want = exp[k] if k < len(exp) else '(nothing)'
    if len(set(names)) != len(names) or any(x in case['invalid'] for x in names):
        key = 'duplicate'
    elif isinstance(got, str) and got.startswith('raise:'):
        key = 'raises-' + got[6:]
    elif got is None:
        key = 'returns-none'
    elif got == 'error':
        key = 'error-although-fresh-name-exists' + (':history-over-12-requests' if len(case['reqs']) > 12 else '')
    elif want == 'error':
        key = 'name-instead-of-error'
    else:
        key = 'wrong-name'
    return dict(violation=True, key='C15:' + key, expected=exp,
                what='request %d: implementation %r, the property demands %r (all results: implementation %s, expected %s)' % (
                    k + 1, got, want, ir, exp))


def nontrivial(case, io):
    if len(case['reqs']) < 2 or '$' not in case['spec']:
        return False
    t = in_scope(case)
    if t is None:
        return False
    _, info = oracle(case, t)
    return bool(info['skips'] or info['unbound'] or info['errors'] or info['wild'])


def tags(case, io):
    out = []
    t = in_scope(case)
    if t is None:
        out.append('scope=outside-grammar')
        rs = results_of(io) or []
        if any(isinstance(r, str) and r.startswith('raise:') for r in rs):
            out.append('impl-raises')
    else:
        out.append('scope=documented')
        _, info = oracle(case, t)
        out.append('requests=%d' % len(case['reqs']))
        if info['skips']:
            out.append('skip-taken')
        if info['unbound']:
            out.append('unbound-alternative')
        if info['errors']:
            out.append('error')
        if info['maxpasses'] >= 2:
            out.append('passes>=2')
        if info['maxpasses'] >= 100:
            out.append('bail-out')
        if info['wild']:
            out.append('wildcard-phase')
        if len(t[0]):
            out.append('static-phase')
    if isinstance(io, list) and io and io[0] == ['nested']:
        out.append('nested-brackets')
    return out


def _tidy(spec):
    for pat, rep in ((r'\$\{\s*(\w+)\s*\}', r'${\1}'), (r'\(\s*(\d+)\s*\)', r'(\1)'), (r'\s*,\s*', ','), (r'\[\s+', '['), (r'\s+\]', ']')):
        spec = re.sub(pat, rep, spec)
    return spec


def shrink(case):
    """smaller cases; the driver evaluates the first 40 of a round and restarts after the first success, a few rounds only --
    so big composite steps come first"""
    reqs = case['reqs']
    spec = case['spec']
    if case['charsub'] is not None or case['ext'] or case['invalid'] or case['vars0']:
        yield dict(case, charsub=None, ext='', invalid=[], vars0=[])
    for k in range(1, len(reqs)):
        yield dict(case, reqs=reqs[:k])
    tidy = _tidy(spec)
    if tidy != spec:
        yield dict(case, spec=tidy)
    names = tidy.split()
    if len(names) > 1:
        for nm in names:
            yield dict(case, spec=nm)
        for i in range(len(names)):
            yield dict(case, spec=' '.join(names[:i] + names[i + 1:]))
    if len(reqs) > 1:
        for i in range(len(reqs) - 1, -1, -1):
            yield dict(case, reqs=reqs[:i] + reqs[i + 1:])
    for i, b in enumerate(reqs):
        if len(b) > 1:
            for j in range(len(b)):
                yield dict(case, reqs=reqs[:i] + [b[:j] + b[j + 1:]] + reqs[i + 1:])
    m = re.search(r'\[([^\]]*)\]', spec)
    if m:
        alts = m.group(1).split(',')
        if len(alts) > 1:
            for a in alts:
                yield dict(case, spec=spec[:m.start(1)] + a + spec[m.end(1):])
            for i in range(len(alts)):
                yield dict(case, spec=spec[:m.start(1)] + ','.join(alts[:i] + alts[i + 1:]) + spec[m.end(1):])
    if case['invalid']:
        inv = case['invalid']
        if len(inv) > 8:
            yield dict(case, invalid=inv[:len(inv) // 2])
            yield dict(case, invalid=inv[len(inv) // 2:])
        else:
            for i in range(len(inv)):
                yield dict(case, invalid=inv[:i] + inv[i + 1:])
    if case['charsub'] is not None:
        yield dict(case, charsub=None)
    if case['ext']:
        yield dict(case, ext='')
    if case['vars0']:
        yield dict(case, vars0=[])
    for mm in re.finditer(r'\(\d+\)', spec):
        yield dict(case, spec=spec[:mm.start()] + spec[mm.end():])
    for mm in re.finditer(r'\$\{\w+\}(\(\d+\))?|\$\w+(\(\d+\))?|[A-Za-z0-9_.-]+', spec):
        yield dict(case, spec=spec[:mm.start()] + spec[mm.end():])
    for i, b in enumerate(reqs):
        for j, (k, v) in enumerate(b):
            if len(v) > 1:
                yield dict(case, reqs=reqs[:i] + [b[:j] + [[k, v[:1]]] + b[j + 1:]] + reqs[i + 1:])
    for i in range(len(spec)):
        yield dict(case, spec=spec[:i] + spec[i + 1:])
