"""C05 -- Arguments are delimited, typed and bound as the macro's signature declares.
Correspondence: TeX.readInteger/readDecimal/readDimen/readGlue/readToken/readGrouping/readCharacter/readArgumentAndSource,
Macro.arguments, Macro.parse (real plasTeX from $VERIF_REPO) vs Model/Numeric.v + Model/Args.v.

Every structured case is printed from a literal / call AST whose denotation under TeX's rules is known by construction
(`expect`); the judge compares the implementation with that denotation (violation) and with the Model (correspondence)."""
from fractions import Fraction
import itertools

ID = 'C05'
PINS = [('plasTeX/TeX.py', 'TeX.' + f) for f in (
    'readArgumentAndSource', 'readToken', 'readCharacter', 'readGrouping', 'readInternalType', 'cast', 'castString', 'castNumber',
    'castDecimal', 'castDimen', 'castList', 'castDictionary', 'castControlSequence', 'normalize', 'readOptionalSpaces', 'readKeyword',
    'readDecimal', 'readDimen', 'readUnitOfMeasure', 'readOptionalSigns', 'readOneOptionalSpace', 'readSequence', 'readInteger',
    'readGlue', 'readStretch', 'readShrink', 'readMuGlue', 'readMuDimen', '__iter__', 'itertokens', 'pushToken', 'pushTokens')] + [
    ('plasTeX/__init__.py', q) for q in ('Macro.arguments', 'Macro.parse', 'Argument', 'number', 'dimen', 'glue', 'ParameterCommand')]
RULE = ('numeric literals printed from TeX\'s grammar (sign runs with blanks, decimal / octal / hexadecimal / character-code / register '
        'integers; decimals with . or , and every fraction form; the 11 units in any letter case, optional `true`, fil/fill/filll, '
        'register multiples; glue with plus/minus) followed by an arbitrary next token (letter, digit of another radix, blank, \\relax, '
        'brace, register), enumerated exhaustively for short forms and generated randomly beyond; raw short token strings (exhaustive '
        'over a 16-symbol alphabet) and random malformed token lists; brace groups and [ ] ( ) < > groupings nested to random depth; '
        'generated signatures (1-6 arguments, every delimiter kind and type) x conforming calls with optionals present/absent; every '
        'args string of the code base.  Non-trivial = the literal has a sign run, a non-decimal radix, a fraction, a unit other than pt, '
        'a register or a glue component / the call has a nested group or an optional argument.')
TRUSTED = ['modelled, not verified: Python float arithmetic (exact rationals in the Model; compared under a 2^-40 relative tolerance), '
           'str.upper/str.strip/re.split on ASCII, TeX.expandTokens on argument contents (the harness flattens the digested fragment back '
           'to tokens), register values (class attributes set by the harness), context push/pop done by the look-ahead on { and }',
           'translator harness/translate/units.py (dimen.__new__ chain, unit lists, digit sets) and the args-string collector']
ASSUMPTIONS = ['code points < 128; register names have at least two letters; literals have at most 9 significant digits; em/ex are '
               'the fixed font estimates of the code (5pt, 11pt), taken from the regenerated table rather than from a font']
CASE_TIMEOUT = 10

SP = 65536
TEX_UNITS = {'pt': Fraction(1), 'pc': Fraction(12), 'in': Fraction(7227, 100), 'bp': Fraction(7227, 7200), 'cm': Fraction(7227, 254),
             'mm': Fraction(7227, 2540), 'dd': Fraction(1238, 1157), 'cc': Fraction(14856, 1157), 'sp': Fraction(1, 65536)}
UNITS = ['pt', 'pc', 'in', 'bp', 'cm', 'mm', 'dd', 'cc', 'sp', 'ex', 'em']
FIL = {'fil': 1, 'fill': 2, 'filll': 3}
_gen = {}


def gen_tables(repo, gen_dir):
    from translate import units, signatures
    d = units.generate(repo, gen_dir)
    sigs = signatures.generate(repo, gen_dir)
    _gen['units'] = d
    return dict(obligations=5, files=['Gen/Units.v', 'Gen/Signatures.v'], units=len(d['chain']), signatures=len(sigs),
                hex_digits=d['hex_digits'])


def font_units():
    """em/ex factors in pt: from the regenerated table (font estimates of the code, not TeX constants)"""
    if 'units' not in _gen:
        import core
        from translate import units
        try:
            _gen['units'] = units.extract(core.REPO)
        except Exception:     # the translator has already reported the broken shape; keep generating with the documented estimates
            return {'ex': Fraction(5), 'em': Fraction(11)}
    out = {}
    for u, a in _gen['units']['chain']:
        if u in ('em', 'ex') and a[0] == 'mul':
            out[u] = Fraction(a[1]) / SP
    return out


# ---- tokens ----------------------------------------------------------------------------------------
# ['c', cat, code] | ['cs', 'inert', name, ex] | ['cs', 'count', v, ex] | ['cs', 'dimen', [n, d], ex]
# | ['cs', 'glue', [n, d], st, sh, ex] (st/sh: [n, d] or None) | ['cs', 'grp', open, code, ex]

LETTERS = 'abcdefghijklmnopqrstuvwxyzABCDEFGHIJKLMNOPQRSTUVWXYZ'


def ch(c):
    if c == ' ':
        return ['c', 10, 32]
    if c in LETTERS:
        return ['c', 11, ord(c)]
    if c == '{':
        return ['c', 1, 123]
    if c == '}':
        return ['c', 2, 125]
    return ['c', 12, ord(c)]


def chs(s):
    return [ch(c) for c in s]


RELAX = ['cs', 'inert', 'relax', 0]


def count_reg(v):
    return ['cs', 'count', v, 0]


def dimen_reg(q):
    q = Fraction(q)
    return ['cs', 'dimen', [q.numerator, q.denominator], 0]


def glue_reg(q, st=None, sh=None):
    f = lambda x: None if x is None else [Fraction(x).numerator, Fraction(x).denominator]
    return ['cs', 'glue', f(q), f(st), f(sh), 0]


def wire_tok(t):
    if t[0] == 'c':
        return [0, t[1], t[2]]
    k = t[1]
    if k == 'inert':
        return [1, 0, [ord(c) for c in t[2]], t[3]]
    if k == 'count':
        return [1, 1, t[2], t[3]]
    if k == 'dimen':
        return [1, 2, t[2][0], t[2][1], t[3]]
    if k == 'glue':
        return [1, 3, t[2][0], t[2][1], t[3] or [], t[4] or [], t[5]]
    if k == 'grp':
        return [1, 4, t[2], t[3], t[4]]
    if k == 'macro':
        return [1, 5, [ord(c) for c in t[2]], t[4]]
    raise ValueError(t)


def unwire_tok(w):
    if w[0] == 0:
        return ['c', w[1], w[2]]
    k = w[1]
    if k == 0:
        return ['cs', 'inert', ''.join(chr(c) for c in w[2]), w[3]]
    if k == 1:
        return ['cs', 'count', w[2], w[3]]
    if k == 2:
        return ['cs', 'dimen', [w[2], w[3]], w[4]]
    if k == 3:
        return ['cs', 'glue', [w[2], w[3]], w[4] or None, w[5] or None, w[6]]
    if k == 4:
        return ['cs', 'grp', w[2], w[3], w[4]]
    if k == 5:
        return ['cs', 'macro', ''.join(chr(c) for c in w[2]), None, w[3]]
    raise ValueError(w)


def show_tok(t):
    if t[0] == 'c':
        return chr(t[2])
    if t[1] == 'inert':
        return '\\' + t[2] + (' ' if t[2][-1:].isalpha() else '')
    if t[1] == 'grp':
        return chr(t[3])
    if t[1] == 'macro':
        return '\\%s<=%r> ' % (t[2], t[3])
    v = t[2] if t[1] == 'count' else '%s/%ssp' % tuple(t[2])
    return '\\%s<%s>' % (t[1], v)


def show(toks):
    return ''.join(show_tok(t) for t in toks)


def plain_view(t):
    """token identity ignoring whether it has been expanded by a look-ahead; { } elements = the brace characters"""
    if t[0] == 'c':
        return ('c', t[1], t[2])
    if t[1] == 'grp':
        return ('c', 1 if t[2] else 2, t[3])
    if t[1] == 'glue':
        return ('cs', 'glue', tuple(t[2]), tuple(t[3]) if t[3] else None, tuple(t[4]) if t[4] else None)
    if t[1] == 'macro':
        return ('cs', 'macro', t[2])
    return ('cs', t[1], tuple(t[2]) if isinstance(t[2], list) else t[2])


# ---- implementation side --------------------------------------------------------------------------------

EXC = {'UnboundLocalError': 1, 'TypeError': 2, 'AttributeError': 2, 'ValueError': 3, 'IndexError': 4}


def worker_init():
    import texrun
    texrun.quiet()


class Env:
    """fresh document + interpreter; builds plasTeX token objects for a token list and names the registers"""

    def __init__(self):
        from plasTeX.TeX import TeX, TeXDocument
        self.doc = TeXDocument()
        self.tex = TeX(self.doc)
        self.names = {}      # register name -> token description (without ex flag)
        self.macros = {}     # user macro name -> body
        self.n = 0

    def regname(self, kind):
        a = 'abcdefghijklmnopqrstuvwxyz'
        self.n += 1
        return {'count': 'cnt', 'dimen': 'dim', 'glue': 'skp'}[kind] + a[self.n // 26 % 26] + a[self.n % 26]

    def build(self, toks):
        import plasTeX
        from plasTeX.Tokenizer import Tokenizer, EscapeSequence, Space, Other
        out = []
        closes = 0
        for t in toks:
            if t[0] == 'c':
                cat, c = t[1], chr(t[2])
                cls = Space if cat == 10 else (Tokenizer.tokenClasses[cat] or Other)
                tok = cls(c)
                if cat == 2:
                    closes += 1
                out.append(tok)
                continue
            k = t[1]
            if k == 'inert':
                name = t[2]
                ex = t[3]
                # an inert control sequence is a *defined* macro without arguments (an undefined one becomes an
                # UnrecognizedMacro, whose __eq__ answers True to any string)
                if name not in self.doc.context.keys():
                    self.doc.context.addGlobal(name, type(str(name), (plasTeX.Command,), {}))
            elif k == 'macro':
                name, ex = t[2], t[4]
                self.macros[name] = t[3]
                self.doc.context.newcommand(name, 0, t[3])      # a user macro without arguments: \newcommand{\name}{body}
            elif k == 'grp':
                name = 'bgroup' if t[2] else 'egroup'
                ex = t[4]
                closes += 0 if t[2] else 1
            else:
                name = self.regname(k)
                ex = t[-1]
                self.names[name] = t[:-1]
                ctx = self.doc.context
                if k == 'count':
                    ctx.newcount(name, t[2])
                elif k == 'dimen':
                    ctx.newdimen(name, float(Fraction(*t[2])))
                else:
                    ctx.newskip(name, 0)
                    g = plasTeX.glue(float(Fraction(*t[2])),
                                     None if t[3] is None else plasTeX.dimen(float(Fraction(*t[3]))),
                                     None if t[4] is None else plasTeX.dimen(float(Fraction(*t[4]))))
                    ctx[name].value = g
            if ex:
                out.append(self.doc.createElement(name))
            else:
                out.append(EscapeSequence(name))
        for _ in range(closes + 1):
            self.doc.context.push()
        return out

    def canon_tok(self, t):
        from plasTeX.Tokenizer import Token
        if getattr(t, 'nodeType', None) == 1:      # element
            name = str(t.nodeName)
            if name == 'bgroup':
                return ['cs', 'grp', 1, 123, 1]
            if name == 'egroup':
                return ['cs', 'grp', 0, 125, 1]
            if name in self.names:
                return self.names[name] + [1]
            if name in self.macros:
                return ['cs', 'macro', name, self.macros[name], 1]
            return ['cs', 'inert', name, 1]
        if t.catcode == 0:
            name = str(t)
            if name in self.names:
                return self.names[name] + [0]
            if name in self.macros:
                return ['cs', 'macro', name, self.macros[name], 0]
            return ['cs', 'inert', name, 0]
        s = str(t)
        if len(s) != 1:
            return ['text', s]
        return ['c', int(t.catcode), ord(s)]

    def rest(self):
        return [self.canon_tok(t) for t in self.tex.itertokens()]


def set_level(lvl):
    from plasTeX import ParameterCommand
    ParameterCommand._enablelevel = lvl
    ParameterCommand.enabled = lvl >= 0


def get_level():
    from plasTeX import ParameterCommand
    return ParameterCommand._enablelevel


def fl(x):
    return ['f', float(x).hex()]


def canon_num(v):
    import plasTeX
    if isinstance(v, plasTeX.glue):
        return ['g', fl(v), None if v.stretch is None else fl(v.stretch), None if v.shrink is None else fl(v.shrink)]
    if isinstance(v, float):
        return fl(v)
    if isinstance(v, bool):
        return ['bool', int(v)]
    if isinstance(v, int):
        return int(v)
    return ['other', type(v).__name__]


def flatten(env, v):
    """digested fragment / node list -> flat list of canonical items (characters lose their category)"""
    out = []

    def go(n):
        if getattr(n, 'nodeType', None) == 1:
            if n.nodeName == 'bgroup':
                out.append(['c', 123])
                for c in n.childNodes:
                    go(c)
                if hasattr(n, 'endit'):        # set by bgroup.digest when it met its closing brace
                    out.append(['c', 125])
            elif n.nodeName == 'egroup':
                out.append(['c', 125])
            else:
                out.append(['cs', n.nodeName])
                for c in n.childNodes:
                    go(c)
        elif getattr(n, 'nodeType', None) == 11:
            for c in n.childNodes:
                go(c)
        elif isinstance(n, str):
            if getattr(n, 'catcode', None) == 0:
                out.append(['cs', str(n)])
            else:
                for c in str(n):
                    out.append(['c', ord(c)])
        elif isinstance(n, (list, tuple)):
            for c in n:
                go(c)
        else:
            out.append(['other', type(n).__name__])
    go(v)
    return out


def canon_val(env, v, ty=None):
    import plasTeX
    if v is None:
        return [0]
    if v is True:
        return [1]
    if isinstance(v, (plasTeX.glue,)):
        return [7, canon_num(v)]
    if isinstance(v, float):
        return [6, fl(v)]
    if isinstance(v, bool):
        return ['bool', int(v)]
    if isinstance(v, int):
        return [5, int(v)]
    if isinstance(v, dict):
        return [9, [[canon_val(env, k), canon_val(env, x)] for k, x in v.items()]]
    if getattr(v, 'nodeType', None) in (1, 11):
        return [2, flatten(env, v)]
    if isinstance(v, str):
        if getattr(v, 'catcode', None) is not None and getattr(v, 'nodeType', None) == 3 and type(v).__name__ != 'Text':
            return [3, env.canon_tok(v)]
        return [4, [ord(c) for c in str(v)]]
    if isinstance(v, list):
        if ty == 'list':
            return [8, [canon_val(env, x) for x in v]]
        return [2, flatten(env, v)]
    return ['other', type(v).__name__]


def arg_options(a):
    o = {}
    if a.get('spec') is not None:
        o['spec'] = a['spec']
    if a.get('type') is not None:
        o['type'] = a['type']
        o['delim'] = a.get('delim')
    if a.get('subtype') is not None:
        o['subtype'] = a['subtype']
    if 'expanded' in a:
        o['expanded'] = bool(a['expanded'])
    return o


def sanitize(o):
    """plain picklable data: Token / Text instances (str subclasses tied to a document) become exact str"""
    if isinstance(o, str):
        return ''.join(o)
    if isinstance(o, (list, tuple)):
        return [sanitize(x) for x in o]
    return o


def run_impl(case):
    return sanitize(run_impl0(case))


def run_impl0(case):
    import plasTeX
    env = Env()
    tex = env.tex
    kind = case['kind']
    toks = env.build(case.get('toks', []))
    set_level(case.get('lvl', 0))
    try:
        if kind == 'sig':
            cls = type('sigprobe', (plasTeX.Command,), {'args': case['sig']})
            try:
                args = cls().arguments
            except Exception as e:  # noqa
                return [-2, EXC.get(type(e).__name__, 0)]
            return [0, [[a.name, a.options.get('spec'), a.options.get('type'), a.options.get('delim'), a.options.get('subtype'),
                         int(bool(a.options.get('expanded', False)))] for a in args]]
        if case.get('src') is not None:
            # source-text mode: the real tokenizer must give exactly the case's tokens (C01 x C05 bridge), then the reader runs
            # on the characters
            from plasTeX.TeX import TeX as _TeX
            probe = _TeX(env.doc)
            probe.input(case['src'])
            got = [env.canon_tok(t) for t in probe.itertokens()]
            if got != case['toks']:
                return ['tokenize-mismatch', got]
            tex.input(case['src'])
        else:
            tex.input(toks)
        op = case.get('op')
        try:
            if kind == 'num':
                units = [plasTeX.dimen.units, plasTeX.mudimen.units, plasTeX.dimen.units + ['filll', 'fill', 'fil'],
                         plasTeX.mudimen.units + ['filll', 'fill', 'fil']][case.get('units', 0)]
                if op == 'int':
                    v = tex.readInteger(optspace=bool(case.get('optspace', 1)))
                elif op == 'dec':
                    v = float(tex.readDecimal())
                elif op == 'dimen':
                    v = tex.readDimen(units=units)
                elif op == 'unit':
                    v = tex.readUnitOfMeasure(units=units)
                elif op == 'glue':
                    v = tex.readGlue() if case.get('units', 0) == 0 else tex.readMuGlue()
                val = canon_num(v)
            elif kind == 'delim':
                if op == 'tok':
                    v, _ = tex.readToken(False)
                elif op == 'grp':
                    v, _ = tex.readGrouping(chr(case['o']) + chr(case['c']), False)
                else:
                    v, _ = tex.readCharacter(chr(case['c']))
                    return [[] if v is None else [env.canon_tok(v)], env.rest()]
                return [[] if v is None else [[env.canon_tok(t) for t in v]], env.rest()]
            elif kind == 'arg':
                a = case['arg']
                v, _ = tex.readArgumentAndSource(parentNode=None, name=a['name'], **arg_options(a))
                val = canon_val(env, v, a.get('type'))
            elif kind == 'parse':
                cls = type('sigprobe', (plasTeX.Command,), {'args': case['sig']})
                env.doc.context['sigprobe'] = cls
                obj = env.doc.createElement('sigprobe')
                types = {}
                for a in obj.arguments:
                    types[a.name] = a.options.get('type')
                obj.parse(tex)
                val = [[k, canon_val(env, x, types.get(k))] for k, x in obj.attributes.items()]
            else:
                return ['bad-kind']
        except (UnboundLocalError, TypeError, ValueError, IndexError, AttributeError) as e:
            return [-2, EXC[type(e).__name__], get_level()]
        return [0, val, env.rest(), get_level()]
    finally:
        set_level(0)


# ---- model side ----------------------------------------------------------------------------------------

def S(s):
    return [ord(c) for c in s]


def ostr(x):
    return [] if x is None else [S(x)]


def wire_arg(a):
    return [S(a['name']), ostr(a.get('spec')), ostr(a.get('type')), [] if a.get('delim') is None else [ord(a['delim'])],
            ostr(a.get('subtype')), int(bool(a.get('expanded', False)))]


def model_input(case):
    kind = case['kind']
    toks = [wire_tok(t) for t in case.get('toks', [])]
    lvl = case.get('lvl', 0)
    op = case.get('op')
    if kind == 'num':
        if op == 'int':
            return [0, lvl, toks, int(case.get('optspace', 1))]
        if op == 'dec':
            return [1, lvl, toks]
        return [{'dimen': 2, 'glue': 3, 'unit': 4}[op], lvl, toks, case.get('units', 0)]
    if kind == 'delim':
        if op == 'tok':
            return [10, toks]
        if op == 'grp':
            return [11, toks, case['o'], case['c']]
        return [12, toks, case['c']]
    if kind == 'arg':
        return [13, lvl, toks, wire_arg(case['arg'])]
    if kind == 'sig':
        return [14, S(case['sig'])]
    if kind == 'parse':
        return [15, lvl, toks, S(case['sig'])]
    raise ValueError(kind)


# ---- comparison ----------------------------------------------------------------------------------------

def ffloat(x):
    return Fraction(float.fromhex(x[1]))


def decode_dim(q):
    """fil encoding: (order, amount)"""
    a = abs(q)
    for k, off in ((3, 6 * 10 ** 9), (2, 4 * 10 ** 9), (1, 2 * 10 ** 9)):
        if a >= off:
            return k, (a - off) * (1 if q >= 0 else -1)
    return 0, q


def close(f, q):
    """float (as Fraction) vs exact rational"""
    of, af = decode_dim(f)
    oq, aq = decode_dim(q)
    if of != oq:
        return False
    if of:
        return abs(af - aq) <= Fraction(1, 2 ** 18) * max(1, abs(aq))
    if aq == 0:
        return abs(af) <= Fraction(1, 2 ** 60)
    return abs(af - aq) <= abs(aq) / 2 ** 40


def num_close(iv, mv):
    """iv: implementation value (canon_num), mv: exact value: int | Fraction | ('g', q, st, sh)"""
    if isinstance(mv, int) and not isinstance(mv, bool):
        return iv == mv
    if isinstance(mv, Fraction):
        return isinstance(iv, list) and iv[:1] == ['f'] and close(ffloat(iv), mv)
    if isinstance(mv, tuple) and mv[0] == 'g':
        if not (isinstance(iv, list) and iv[:1] == ['g']):
            return False
        for x, y in zip(iv[1:], mv[1:]):
            if (x is None) != (y is None):
                return False
            if x is not None and not close(ffloat(x), y):
                return False
        return True
    return False


def model_num(op, w):
    if op == 'int':
        return w
    if op in ('dec', 'dimen', 'unit'):
        return Fraction(w[0], w[1])
    return ('g',) + tuple(None if x == [] else Fraction(x[0], x[1]) for x in w)


def items_of_model_toks(wl):
    out = []
    for w in wl:
        t = unwire_tok(w)
        if t[0] == 'c':
            out.append(['c', t[2]])
        elif t[1] == 'grp':
            out.append(['c', t[3]])
        elif t[1] == 'inert':
            out.append(['cs', t[2]])
        else:
            out.append(['cs', '#reg'])
    return out


def val_close(iv, mv):
    """iv from canon_val, mv the Model's out_aval"""
    if not isinstance(iv, list) or not iv or not isinstance(mv, list) or not mv:
        return False
    k = mv[0]
    if k == 'alt':
        return any(val_close(iv, x) for x in mv[1:])
    if k in (0, 1):
        return iv == mv
    if k == 2:
        if iv[0] == 2:
            a = [x if x[0] == 'c' or x[1] in ('relax',) or not x[1].startswith(('cnt', 'dim', 'skp')) else ['cs', '#reg'] for x in iv[1]]
            return a == items_of_model_toks(mv[1])
        if iv[0] == 3:       # a single token where the Model has a one-token list
            m = items_of_model_toks(mv[1])
            return len(m) == 1 and plain_item(iv[1]) == m[0]
        if iv[0] == 4:       # empty string vs empty fragment does not arise; keep strict
            return False
        return False
    if k == 3:
        if iv[0] == 3:
            return plain_view(iv[1]) == plain_view(unwire_tok(mv[1]))
        if iv[0] == 2:
            return iv[1] == items_of_model_toks([mv[1]])
        return False
    if k == 4:
        return iv == mv
    if k == 5:
        return iv == mv
    if k == 6:
        if iv[0] == 5:       # readDecimal hands back the int of an octal / hexadecimal / character constant
            return Fraction(iv[1]) == Fraction(mv[1][0], mv[1][1])
        return iv[0] == 6 and close(ffloat(iv[1]), Fraction(mv[1][0], mv[1][1]))
    if k == 7:
        return iv[0] == 7 and num_close(iv[1], model_num('glue', mv[1]))
    if k == 8:
        return iv[0] == 8 and len(iv[1]) == len(mv[1]) and all(val_close(a, b) for a, b in zip(iv[1], mv[1]))
    if k == 9:
        return (iv[0] == 9 and len(iv[1]) == len(mv[1]) and
                all(val_close(a[0], b[0]) and val_close(a[1], b[1]) for a, b in zip(iv[1], mv[1])))
    return False


def plain_item(t):
    if t[0] == 'c':
        return ['c', t[2]]
    if t[1] == 'grp':
        return ['c', t[3]]
    if t[1] == 'inert':
        return ['cs', t[2]]
    return ['cs', '#reg']


def rest_equal(irest, mrest_wire):
    return [plain_tuple(t) for t in irest] == [plain_tuple(unwire_tok(w)) for w in mrest_wire]


def plain_tuple(t):
    if t[0] == 'text':
        return ('text', t[1])
    if t[0] == 'c':
        return ('c', t[1], t[2], 0)
    return plain_view(t) + (t[-1],)


def agree(case, io, mo):
    """implementation observation == Model observation (values under the float tolerance)"""
    kind = case['kind']
    if not isinstance(io, list) or not isinstance(mo, list):
        return False
    if kind == 'sig':
        return io == unS_sig(mo)
    if kind == 'delim':
        if len(io) != 2 or len(mo) != 2:
            return False
        if case['op'] == 'chr':
            a = [plain_tuple(t) for t in io[0]] == [plain_tuple(unwire_tok(w)) for w in mo[0]]
        else:
            a = (len(io[0]) == len(mo[0]) and
                 all([plain_tuple(t) for t in x] == [plain_tuple(unwire_tok(w)) for w in y] for x, y in zip(io[0], mo[0])))
        return a and rest_equal(io[1], mo[1])
    if io[:1] == [-2] or mo[:1] == [-2]:
        return io == mo
    if io[:1] != [0] or mo[:1] != [0] or len(io) != 4 or len(mo) != 4:
        return False
    if io[3] != mo[3] or not rest_equal(io[2], mo[2]):
        return False
    if kind == 'num':
        return num_close(io[1], model_num(case['op'], mo[1]))
    if kind == 'arg':
        return val_close(io[1], mo[1])
    if kind == 'parse':
        md = {}
        for n, v in mo[1]:
            md[''.join(chr(c) for c in n)] = v
        idd = dict((k, v) for k, v in io[1])
        return set(md) == set(idd) and all(val_close(idd[k], md[k]) for k in md)
    return False


def unS_sig(mo):
    if mo[:1] == [-2]:
        return mo
    us = lambda o: None if o == [] else ''.join(chr(c) for c in o[0])
    return [0, [[''.join(chr(c) for c in a[0]), us(a[1]), us(a[2]), None if a[3] == [] else chr(a[3][0]), us(a[4]), a[5]] for a in mo[1]]]


def expect_ok(case, io):
    """None if the implementation's observation is what TeX's rules prescribe for this (conforming) case, else a string"""
    e = case['expect']
    kind = case['kind']
    if kind == 'sig':
        return None if io == e else 'compiled signature differs from the declared one'
    if kind == 'delim':
        if not isinstance(io, list) or len(io) != 2:
            return 'the implementation raises / gives no value: %s' % (io,)
        want = None if e['toks'] is None else [plain_view(t) for t in e['toks']]
        if case['op'] == 'chr':
            got = None if io[0] == [] else [plain_view(t) for t in io[0]]
        else:
            got = None if io[0] == [] else [plain_view(t) for t in io[0][0]]
        if got != want:
            return 'delimited %r, expected %r' % (None if got is None else show_safe(io[0] if case['op'] == 'chr' else io[0][0]),
                                                  None if want is None else show(e['toks']))
        if [plain_view(t) for t in io[1]] != [plain_view(t) for t in e['rest']]:
            return 'what follows is %r, expected %r' % (show_safe(io[1]), show(e['rest']))
        return None
    if not isinstance(io, list) or io[:1] != [0]:
        return 'the implementation raises / gives no value: %s' % (io,)
    if kind in ('num', 'arg', 'parse'):
        if io[3] != case.get('lvl', 0):
            return 'ParameterCommand._enablelevel is %s after the call (was %s)' % (io[3], case.get('lvl', 0))
        want = [plain_view(t) for t in e['rest']]
        got = [plain_view(t) for t in io[2]] if all(t[0] != 'text' for t in io[2]) else None
        alts = [want]
        if e.get('space_optional') and want[:1] == [('c', 10, 32)]:
            alts.append(want[1:])
        if e.get('spaces_optional'):
            w = list(want)
            while w[:1] == [('c', 10, 32)]:
                w = w[1:]
                alts.append(w)
        if got not in alts:
            return 'what follows the invocation is %r, expected %r' % (show_safe(io[2]), show(e['rest']))
    if kind == 'num':
        v = e['value']
        ev = v if isinstance(v, int) else (Fraction(*v) if v[0] != 'g' else ('g',) + tuple(None if x is None else Fraction(*x) for x in v[1:]))
        if not num_close(io[1], ev):
            return 'value %s, TeX reads %s' % (show_num(io[1]), show_exact(ev))
        return None
    if kind == 'arg':
        return None if val_close(io[1], e['value']) else 'argument value %r, expected %r' % (io[1], e['value'])
    if kind == 'parse':
        idd = dict((k, v) for k, v in io[1])
        for k, v in e['binds'].items():
            if k not in idd or not val_close(idd[k], v):
                return 'argument %s bound to %r, expected %r' % (k, idd.get(k), v)
        if set(idd) != set(e['binds']):
            return 'bound names %s, declared %s' % (sorted(idd), sorted(e['binds']))
        return None
    return None


def show_safe(toks):
    try:
        return show(toks)
    except Exception:
        return repr(toks)


def show_num(v):
    if isinstance(v, list) and v[:1] == ['f']:
        return '%.10gsp' % float.fromhex(v[1])
    if isinstance(v, list) and v[:1] == ['g']:
        return ' / '.join('-' if x is None else '%.10gsp' % float.fromhex(x[1]) for x in v[1:])
    return repr(v)


def show_exact(v):
    if isinstance(v, Fraction):
        return '%.10gsp' % float(v)
    if isinstance(v, tuple):
        return ' / '.join('-' if x is None else '%.10gsp' % float(x) for x in v[1:])
    return repr(v)


def judge(case, io, mo):
    if io == ['hang'] or (isinstance(io, list) and io[:1] == ['raise']):
        bad = 'implementation %s' % (io[:3],)
    else:
        bad = None
    key = case.get('key') or ('C05:%s:%s' % (case['kind'], case.get('op', '')))
    if 'expect' in case:
        why = bad or expect_ok(case, io)
        if why:
            return dict(violation=True, key=key, expected=case['expect'], what='%s: %s' % (describe(case), why))
    if mo == [-4]:          # outside the Model (math shift, active characters, side-effecting casts): nothing to compare
        return None
    if bad is None and agree(case, io, mo):
        return None
    return dict(violation=False, key=key + ':model', expected=mo,
                what='%s: implementation %s, Model %s' % (describe(case), io, mo))


def describe(case):
    k = case['kind']
    if k == 'sig':
        return 'args = %r' % case['sig']
    if case.get('src') is not None:
        return 'read%s on source text %r' % (case.get('op', '').capitalize(), case['src'])
    head = {'num': 'read%s' % case.get('op', '').capitalize(), 'delim': 'read-%s' % case.get('op'), 'arg': 'readArgumentAndSource%r' % (
        {x: y for x, y in case.get('arg', {}).items() if y is not None},), 'parse': 'args=%r call' % case.get('sig')}[k]
    return '%s on tokens %r' % (head, show(case.get('toks', [])))


def nontrivial(case, io):
    return bool(case.get('nt'))


def tags(case, io):
    t = [case['kind'] + ':' + str(case.get('op', ''))] + list(case.get('tags', []))
    if isinstance(io, list) and io[:1] == [-2]:
        t.append('impl-raises')
    return t


# ---- literal grammar (the Spec side of the generators) -------------------------------------------------------------

def mixcase(rng, s):
    r = rng.random()
    if r < 0.6:
        return s
    if r < 0.8:
        return s.upper()
    return ''.join(c.upper() if rng.random() < 0.5 else c for c in s)


def sign_run(rng, maxlen=4):
    """-> (tokens, sign)"""
    toks, sign = [], 1
    toks += chs(' ' * rng.choice([0, 0, 0, 1, 2]))
    for _ in range(rng.choice([0, 0, 1, 1, 2, 3, maxlen])):
        c = rng.choice('+-')
        if c == '-':
            sign = -sign
        toks += chs(c + ' ' * rng.choice([0, 0, 1, 2]))
    return toks, sign


def int_body(rng, kinds=('dec', 'dec', 'oct', 'hex', 'chr', 'reg')):
    """-> (tokens, value, kind)"""
    k = rng.choice(kinds)
    if k == 'dec':
        s = rng.choice(['0', '7', '12', '007', '255', '65536', str(rng.randint(0, 10 ** rng.randint(1, 9)))])
        return chs(s), int(s), k
    if k == 'oct':
        s = rng.choice(['0', '7', '17', '777', '0012', ''.join(rng.choice('01234567') for _ in range(rng.randint(1, 8)))])
        return chs("'" + s), int(s, 8), k
    if k == 'hex':
        s = rng.choice(['0', 'A', '1F', 'FF', '7FFF', 'ABCDEF', '10', ''.join(rng.choice('0123456789ABCDEF') for _ in range(rng.randint(1, 7)))])
        return chs('"' + s), int(s, 16), k
    if k == 'chr':
        c = rng.choice('aZ0 ~%{}\\$&#^_.,-+*`\'"')
        if rng.random() < 0.3 and c != ' ':
            return chs('`') + [['cs', 'inert', c, 0]], ord(c), k          # `\a, `\%, `\{
        cat = {' ': 10, '{': 1, '}': 2, '$': 3, '&': 4, '#': 6, '^': 7, '_': 8, '~': 13}.get(c, 11 if c.isalpha() else 12)
        return chs('`') + [['c', cat, ord(c)]], ord(c), k
    r = rng.random()
    if r < 0.6:
        v = rng.choice([0, 1, 5, -3, 42, 1000, rng.randint(-10 ** 6, 10 ** 6)])
        return [count_reg(v)], v, 'reg'
    v = rng.choice([0, 65536, 131072, -65536, 98304, 3 * 65536 + 32768])
    return [dimen_reg(v)], v, 'reg'


def follow_tokens(rng, exclude=''):
    """an arbitrary next token (plus a little tail); never one of the characters in `exclude` first"""
    for _ in range(50):
        r = rng.random()
        if r < 0.12:
            f = []
        elif r < 0.45:
            f = chs(rng.choice('xyzptlfilmuQ,.;:!?=()[]<>/*abcdefABCDEF0123456789'))
        elif r < 0.55:
            f = chs(' ') + chs(rng.choice('xp1-'))
        elif r < 0.70:
            f = [list(RELAX)]
        elif r < 0.80:
            f = chs(rng.choice('{}'))
        elif r < 0.90:
            f = [rng.choice([count_reg(3), dimen_reg(65536 * 2)])]
        else:
            f = chs(rng.choice(['pt', 'plus', 'minus', 'true', 'fil', 'l', 'em']))
        if rng.random() < 0.5:
            f = f + chs(rng.choice(['x', ' y', '12', 'pt']))
        if f and f[0][0] == 'c' and chr(f[0][2]) in exclude:
            continue
        return f
    return []


DIGITS = {'dec': '0123456789', 'oct': '01234567', 'hex': '0123456789ABCDEF', 'chr': '', 'reg': ''}


def int_case(rng, signs=None, body=None, follow=None, space=None):
    st, sign = signs if signs is not None else sign_run(rng)
    bt, val, k = body if body is not None else int_body(rng)
    sp = space if space is not None else (rng.random() < 0.3)
    fo = follow if follow is not None else follow_tokens(rng, exclude=DIGITS[k] if not sp else '')
    toks = st + bt + (chs(' ') if sp else []) + fo
    rest = fo
    space_optional = False
    key = None
    if k in ('dec', 'oct', 'hex'):
        if not sp and fo[:1] == [['c', 10, 32]]:
            rest = fo[1:]
        nxt = fo[1:2] if (not sp and fo[:1] == [['c', 10, 32]]) else fo[:1]
        if k == 'dec' and nxt and nxt[0][0] == 'cs' and nxt[0][1] in ('count', 'dimen', 'glue'):
            key = 'C05:int:register-after-decimal'
    elif k == 'chr':
        if sp:
            rest = chs(' ') + fo
        space_optional = True
        if bt[-1][0] == 'c' and bt[-1][1] in (3, 4, 7, 8, 13):
            pass
    else:
        if sp:
            rest = chs(' ') + fo
    if k == 'hex' and not sp and fo[:1] and fo[0][0] == 'c' and chr(fo[0][2]) in 'abcdef':
        key = 'C05:int:hex-lowercase'
    c = dict(kind='num', op='int', toks=toks, expect=dict(value=sign * val, rest=rest, space_optional=space_optional),
             nt=bool(st) or k != 'dec', tags=['int:' + k, 'signs=%d' % min(len([t for t in st if t[2] != 32]), 4)])
    if key:
        c['key'] = key
    return c


def dec_body(rng):
    """-> (tokens, Fraction, form)"""
    form = rng.choice(['int', 'int', 'frac', 'frac', 'frac', 'trail', 'lead', 'point', 'oct', 'hex', 'chr'])
    sep = rng.choice('..,')
    if form in ('oct', 'hex', 'chr'):
        t, v, _ = int_body(rng, kinds=(form,))
        if form == 'chr' and (t[-1][0] != 'c' or t[-1][1] not in (11, 12)):
            t, v = chs('`a'), 97
        return t, Fraction(v), form
    ip = rng.choice(['0', '1', '2', '10', '12', '100', '72', str(rng.randint(0, 9999))])
    fp = rng.choice(['0', '5', '25', '27', '125', '001', '50', str(rng.randint(0, 99999))])
    if form == 'int':
        return chs(ip), Fraction(int(ip)), form
    if form == 'frac':
        return chs(ip + sep + fp), Fraction(int(ip)) + Fraction(int(fp), 10 ** len(fp)), form
    if form == 'trail':
        return chs(ip + sep), Fraction(int(ip)), form
    if form == 'lead':
        return chs(sep + fp), Fraction(int(fp), 10 ** len(fp)), form
    return chs(sep), Fraction(0), form


def unit_factor(u):
    if u in TEX_UNITS:
        return TEX_UNITS[u] * SP
    return font_units()[u] * SP


def dimen_literal(rng, fil=False, allow_reg=True):
    """-> (tokens, value in sp with fil encoding as Fraction, tags, last: 'unit'|'reg'|'fil')"""
    st, sign = sign_run(rng, 3)
    r = rng.random()
    if allow_reg and r < 0.12:
        q = rng.choice([65536, 131072, -32768, 655360, 98304])
        return st + [dimen_reg(q)], Fraction(sign * q), ['dimen:reg'], 'reg'
    bt, dv, form = dec_body(rng)
    gap = chs(' ' * rng.choice([0, 0, 0, 1, 2]))
    if form in ('oct', 'hex') and not gap and rng.random() < 0.5:
        gap = chs(' ')
    if allow_reg and r < 0.25 and form not in ('oct', 'hex', 'chr'):
        q = rng.choice([65536, 131072, -32768, 655360])
        return st + bt + gap + [dimen_reg(q)], sign * dv * q, ['dimen:multiple', 'dec:' + form], 'reg'
    hexlower = []

    def hexgap(gap, ut):
        # an upper-case A-F right after a hexadecimal constant would be one more digit (in TeX too): keep them apart
        if form == 'hex' and not gap and chr(ut[0][2]) in 'ABCDEF':
            return chs(' ')
        if form == 'hex' and not gap and chr(ut[0][2]) in 'abcdef':
            hexlower.append('hex-then-lowercase')
        return gap
    if fil and rng.random() < 0.5:
        u = rng.choice(['fil', 'fill', 'filll'])
        amount = sign * dv
        val = amount + (-1 if amount < 0 else 1) * FIL[u] * 2 * 10 ** 9
        ut = chs(mixcase(rng, u))
        g = hexgap(gap, ut)
        return st + bt + g + ut + chs(' ' * rng.choice([0, 0, 1])), val, ['unit:' + u, 'dec:' + form] + hexlower, 'fil'
    u = rng.choice(UNITS)
    true = u in TEX_UNITS and rng.random() < 0.15
    ut = (chs(mixcase(rng, 'true') + ' ' * rng.choice([0, 1])) if true else []) + chs(mixcase(rng, u))
    tail = chs(' ' * rng.choice([0, 0, 1]))
    g = hexgap(gap, ut)
    return st + bt + g + ut + tail, sign * dv * unit_factor(u), ['unit:' + u, 'dec:' + form] + (['true'] if true else []) + hexlower, 'unit'


def ends_with_space(toks):
    return toks[-1:] == [['c', 10, 32]]


def dimen_case(rng):
    toks, val, tg, last = dimen_literal(rng)
    # a literal that ends with its optional blank may be followed by anything; otherwise the next token must not be a blank
    # that the reader would take (taken: expected), which we simply account for
    fo = follow_tokens(rng, exclude='lL' if last == 'fil' else '')
    rest = fo
    if last in ('unit', 'fil') and not ends_with_space(toks) and fo[:1] == [['c', 10, 32]]:
        rest = fo[1:]
    if last == 'reg' and False:
        pass
    c = dict(kind='num', op='dimen', units=0, toks=toks + fo,
             expect=dict(value=[val.numerator, val.denominator], rest=rest), nt=True, tags=tg)
    if 'hex-then-lowercase' in tg:
        c['key'] = 'C05:int:hex-lowercase'
    return c


def glue_literal(rng, allow_reg=True):
    """-> (tokens, [value, stretch, shrink] as Fractions/None, tags, key, last)"""
    r = rng.random()
    if allow_reg and r < 0.08:
        st, sign = sign_run(rng, 2)
        g = glue_reg(65536 * 2, 65536, 32768) if rng.random() < 0.7 else glue_reg(65536)
        comps = [Fraction(sign * g[2][0], g[2][1]), None if g[3] is None else Fraction(sign * g[3][0], g[3][1]),
                 None if g[4] is None else Fraction(sign * g[4][0], g[4][1])]
        return st + [g], comps, ['glue:reg'], ('C05:glue:register-components' if g[3] is not None else None), 'greg'
    toks, val, tg, last = dimen_literal(rng, allow_reg=(allow_reg and r < 0.3))
    comps = [val, None, None]
    key = 'C05:int:hex-lowercase' if 'hex-then-lowercase' in tg else None
    for i, kw in ((1, 'plus'), (2, 'minus')):
        if rng.random() < 0.55:
            if not ends_with_space(toks) and rng.random() < 0.7:
                toks = toks + chs(' ')
            t2, v2, tg2, last2 = dimen_literal(rng, fil=True, allow_reg=False)
            toks = toks + chs(mixcase(rng, kw)) + chs(' ' * rng.choice([0, 1])) + t2
            comps[i] = v2
            tg = tg + [kw] + tg2
            if v2 is not None and abs(v2) >= 2 * 10 ** 9 and abs(abs(v2) % (2 * 10 ** 9)) != 1:
                key = key or 'C05:glue:fil-multiple'
            if 'hex-then-lowercase' in tg2:
                key = key or 'C05:int:hex-lowercase'
            if last == 'reg':
                key = 'C05:glue:register-components'
            last = last2 if last != 'reg' else last
    return toks, comps, tg + ['glue'], key, last


def glue_case(rng):
    toks, comps, tg, key, last = glue_literal(rng)
    fo = follow_tokens(rng, exclude='lLpPmM')
    if fo and fo[0][0] == 'c' and fo[0][1] == 10 and len(fo) > 1 and fo[1][0] == 'c' and chr(fo[1][2]) in 'pPmMlL':
        fo = fo[:1]
    rest = fo
    opt = False
    if last == 'greg' or (tg[:1] == ['dimen:reg'] and comps[1] is None and comps[2] is None):
        # a register alone: the reader returns at once; TeX would still skip blanks while looking for `plus`
        opt = True
    elif comps[2] is None or last == 'reg':
        # the search for `plus` / `minus` skips every blank in front of it (as TeX's scan_keyword does)
        while rest[:1] == [['c', 10, 32]]:
            rest = rest[1:]
    elif not ends_with_space(toks) and fo[:1] == [['c', 10, 32]] and toks[-1][0] == 'c':
        rest = fo[1:]
    c = dict(kind='num', op='glue', units=0, toks=toks + fo,
             expect=dict(value=['g'] + [None if x is None else [x.numerator, x.denominator] for x in comps], rest=rest, spaces_optional=opt),
             nt=True, tags=tg)
    if key:
        c['key'] = key
    return c


def enum_int_cases():
    """exhaustive short integer literals: every sign run of length <= 2 (with/without blanks) x bodies x blank x next token"""
    signs = [([], 1)]
    for n in (1, 2):
        for combo in itertools.product('+-', repeat=n):
            for blanks in ((0,) * n, (1,) * n):
                toks, s = [], 1
                for c, b in zip(combo, blanks):
                    toks += chs(c + ' ' * b)
                    s = -s if c == '-' else s
                signs.append((toks, s))
    signs.append((chs(' - '), -1))
    bodies = [(chs('0'), 0, 'dec'), (chs('7'), 7, 'dec'), (chs('10'), 10, 'dec'), (chs('099'), 99, 'dec'),
              (chs("'0"), 0, 'oct'), (chs("'17"), 15, 'oct'), (chs("'777"), 511, 'oct'),
              (chs('"A'), 10, 'hex'), (chs('"1F'), 31, 'hex'), (chs('"0'), 0, 'hex'), (chs('"9'), 9, 'hex'),
              (chs('`a'), 97, 'chr'), (chs('`') + [['cs', 'inert', 'a', 0]], 97, 'chr'), (chs('`') + [['c', 12, 48]], 48, 'chr'),
              ([count_reg(5)], 5, 'reg'), ([count_reg(-3)], -3, 'reg'), ([dimen_reg(131072)], 131072, 'reg')]
    follows = [[], chs('x'), chs(' '), chs(' x'), chs('9'), chs('8'), chs('a'), chs('f'), chs('F'), chs('G'), [list(RELAX)], chs('{'),
               chs('}'), chs('pt'), chs('.5'), chs('-'), [count_reg(3)],
               # every other kind of token directly after the digits: they end the number unexpanded
               [['c', 3, 36]], [['c', 4, 38]], [['c', 7, 94]], [['c', 8, 95]], [['c', 6, 35]], [['cs', 'inert', 'relax', 1]],
               [['cs', 'inert', 'protect', 0]], chs(' {'), chs(' }'), chs(' ') + [list(RELAX)], [dimen_reg(65536)],
               [['cs', 'count', 3, 1]]]
    for sg in signs:
        for b in bodies:
            for sp in (False, True):
                for fo in follows:
                    if not sp and fo and fo[0][0] == 'c' and chr(fo[0][2]) in DIGITS[b[2]]:
                        continue
                    yield int_case(None, signs=(list(sg[0]), sg[1]), body=(list(b[0]), b[1], b[2]), follow=[list(t) for t in fo], space=sp)


def enum_dimen_cases():
    """exhaustive short dimensions: sign x decimal form x blank x (true) x unit x next token"""
    decs = [('1', Fraction(1)), ('1.5', Fraction(3, 2)), ('1,5', Fraction(3, 2)), ('2.', Fraction(2)), ('.5', Fraction(1, 2)),
            ('.', Fraction(0)), ("'17", Fraction(15)), ('"A ', Fraction(10)), ('`a', Fraction(97)), ('0.25', Fraction(1, 4))]
    for sg, s in (('', 1), ('-', -1), ('+- ', -1)):
        for d, dv in decs:
            for gap in ('', ' '):
                for u in UNITS:
                    for true in ('', 'true', 'TRUE '):
                        if true and u not in TEX_UNITS:
                            continue
                        for tail, fo in (('', []), (' ', []), ('', chs('x')), ('', [list(RELAX)]), ('', chs(' plus')), ('', chs('}'))):
                            if d.startswith('"') and gap == '' and not d.endswith(' ') and (true + u)[0] in 'bcdeBCDE':
                                continue
                            toks = chs(sg + d + gap + true + u + tail) + fo
                            rest = fo[1:] if (not tail and fo[:1] == [['c', 10, 32]]) else fo
                            val = s * dv * unit_factor(u)
                            yield dict(kind='num', op='dimen', units=0, toks=toks, nt=True, tags=['unit:' + u, 'enum'],
                                       expect=dict(value=[val.numerator, val.denominator], rest=rest))
    # fil orders with multiples (readStretch/readShrink units)
    for sg, s in (('', 1), ('-', -1)):
        for d, dv in (('1', 1), ('2', 2), ('0.5', Fraction(1, 2)), ('3', 3), ('0', 0), ('10', 10)):
            for u in FIL:
                for uu in (u, u.upper()):
                    amount = s * Fraction(dv)
                    val = amount + (-1 if amount < 0 else 1) * FIL[u] * 2 * 10 ** 9
                    yield dict(kind='num', op='dimen', units=2, toks=chs(sg + d + uu) + chs('x'), nt=True, tags=['unit:' + u, 'enum'],
                               key='C05:glue:fil-multiple' if dv != 1 else None,
                               expect=dict(value=[val.numerator, val.denominator], rest=chs('x')))


def macro_follow_cases():
    """digits directly followed by a user macro: TeX expands it while it scans the number (the Model does not model macro
    expansion: these cases are judged against the TeX denotation only)"""
    EM = ['cs', 'macro', 'emptymac', '', 0]
    TM = ['cs', 'macro', 'sevenmac', '7x', 0]
    bodies = [('12', 10, '', 'dec'), ("'17", 8, "'", 'oct'), ('"1F', 16, '"', 'hex')]
    for sg, s in (('', 1), ('- ', -1)):
        for txt, base, pre, kind in bodies:
            digs = txt[len(pre):]
            val = lambda extra='': s * int(digs + extra, base)
            variants = [
                (chs(txt) + [list(EM)] + chs('x'), val(), chs('x'), 'empty-then-x'),
                (chs(txt) + [list(EM)] + chs('}'), val(), chs('}'), 'empty-then-brace'),
                (chs(txt) + [list(EM)] + chs('7'), val('7'), [], 'empty-then-digit'),
                (chs(txt) + [list(EM), list(EM)] + [list(RELAX)], val(), [list(RELAX)], 'empty-empty-relax'),
                (chs(txt + ' ') + [list(EM)] + chs('x'), val(), [list(EM)] + chs('x'), 'blank-then-macro'),
                (chs(txt) + [list(TM)], val('7'), chs('x'), 'macro-yields-digit'),
            ]
            for toks, v, rest, tag in variants:
                yield dict(kind='num', op='int', toks=chs(sg) + toks, nt=True, tags=['macro-follow', tag, 'int:' + kind],
                           expect=dict(value=v, rest=rest))


RAW_ALPHA = [ch('-'), ch('+'), ch(' '), ch('1'), ch('8'), ch('A'), ch('f'), ch("'"), ch('"'), ch('`'), ch('.'), ch('p'), ch('t'),
             RELAX, count_reg(5), ch('}')]


def rand_raw(rng, n):
    alpha = RAW_ALPHA + [dimen_reg(98304), ch('{'), ch(','), ch('x'), ch('l'), ch('u'), ch('s'), ch('m'), ch('i'), ch('n'), ch('r'), ch('e'),
                         ch('T'), ['cs', 'inert', 'p', 0], ['cs', 'inert', 'zzz', 0], glue_reg(65536, 32768, None), ch('c'), ch('F')]
    return [list(rng.choice(alpha)) for _ in range(n)]


# ---- groups, signatures, calls -----------------------------------------------------------------------------------

TEXT = 'abcxyzABC0123456789.;:!?/'


def balanced_braces(rng, depth):
    """random brace-balanced token list"""
    out = []
    for _ in range(rng.randint(0, 4)):
        r = rng.random()
        if depth > 0 and r < 0.3:
            out += chs('{') + balanced_braces(rng, depth - 1) + chs('}')
        elif r < 0.85:
            out += chs(rng.choice(TEXT))
        elif r < 0.93:
            out += chs(' ')
        else:
            out += chs(rng.choice('[]()<>,='))
    return out


def balanced_delims(rng, o, c, depth, braces=True):
    """content of an o...c grouping: delimiter-balanced; brace groups inside contain no delimiter (NF-args)"""
    out = []
    for _ in range(rng.randint(0, 4)):
        r = rng.random()
        if depth > 0 and r < 0.25:
            out += chs(o) + balanced_delims(rng, o, c, depth - 1, braces) + chs(c)
        elif braces and depth > 0 and r < 0.45:
            inner = [t for t in balanced_braces(rng, depth - 1) if chr(t[2]) not in (o, c)]
            out += chs('{') + inner + chs('}')
        elif r < 0.9:
            out += chs(rng.choice(TEXT))
        else:
            out += chs(' ')
    return out


def esc(c):
    """the control symbol \\c (an escape token whose name is the character c)"""
    return ['cs', 'inert', c, 0]


def delim_cases(rng, n):
    out = []
    for _ in range(n):
        r = rng.random()
        fo = follow_tokens(rng)
        if rng.random() < 0.12:
            # absent grouping directly followed by the control symbol named like its opening delimiter: \[ \( \<
            o, c = rng.choice(['[]', '()', '<>'])
            fo2 = chs(' ' * rng.choice([0, 0, 1])) + [esc(o)] + text_tokens(rng, 0, 2) + rng.choice([[], [esc(c)]]) + fo
            out.append(('groups', dict(kind='delim', op='grp', o=ord(o), c=ord(c), toks=fo2, nt=True, tags=['absent-then-escape:' + o],
                                       expect=dict(toks=None, rest=fo2))))
            # present grouping whose body contains \o and \c: they neither nest nor close
            body = text_tokens(rng, 0, 2) + [esc(rng.choice([o, c]))] + text_tokens(rng, 0, 2) + rng.choice([[], [esc(c)], [esc(o)]])
            out.append(('groups', dict(kind='delim', op='grp', o=ord(o), c=ord(c), toks=chs(o) + body + chs(c) + fo, nt=True,
                                       tags=['escape-in-body:' + o], expect=dict(toks=body, rest=fo))))
            continue
        if r < 0.35:
            body = balanced_braces(rng, rng.choice([1, 2, 3, 4]))
            toks = chs('{') + body + chs('}') + fo
            out.append(('groups', dict(kind='delim', op='tok', toks=toks, nt=any(t[1] == 1 for t in body), tags=['brace-group'],
                                       expect=dict(toks=body, rest=fo))))
        elif r < 0.75:
            o, c = rng.choice(['[]', '()', '<>'])
            body = balanced_delims(rng, o, c, rng.choice([1, 2, 3]))
            present = rng.random() < 0.8
            toks = (chs(o) + body + chs(c) if present else []) + fo
            if not present and fo[:1] == [ch(o)]:
                fo = chs('x') + fo
                toks = fo
            out.append(('groups', dict(kind='delim', op='grp', o=ord(o), c=ord(c), toks=toks, nt=present and len(body) > 2,
                                       tags=['grouping:' + o + c, 'present' if present else 'absent'],
                                       expect=dict(toks=body if present else None, rest=fo))))
        elif r < 0.85:
            c = rng.choice('*=+')
            present = rng.random() < 0.5
            toks = (chs(c) if present else []) + fo
            if not present and fo[:1] == [ch(c)]:
                toks = fo = chs('x') + fo
            out.append(('groups', dict(kind='delim', op='chr', c=ord(c), toks=toks, nt=present, tags=['character'],
                                       expect=dict(toks=chs(c) if present else None, rest=fo))))
        else:
            t = rng.choice([chs('x'), [list(RELAX)], chs('1'), chs('[')])
            out.append(('groups', dict(kind='delim', op='tok', toks=t + fo, nt=False, tags=['single-token'],
                                       expect=dict(toks=t, rest=fo))))
    return out


NAMES = ['a', 'b', 'opt', 'name', 'arg1', 'x_y', 'Title', 'n2', 'toc', 'key']
TYPES = [None, None, 'str', 'int', 'float', 'dimen', 'list', 'dict', 'nox', 'cs', 'Tok', 'Number', 'Dimen', 'Glue', 'chr', 'number', 'length']


def rand_sig(rng, nargs=None):
    """-> list of argument descriptions (the AST) ; printed by print_sig"""
    n = nargs or rng.randint(1, 6)
    args = []
    used = set()
    if rng.random() < 0.35:
        args.append(dict(name='*modifier*', spec=rng.choice('*+-') if rng.random() < 0.2 else '*', expanded=0, mod=True))
    while len([a for a in args if not a.get('mod')]) < n:
        if rng.random() < 0.08 and args and not args[-1].get('mod') and not any(x['name'] == '*equals*' for x in args):
            args.append(dict(name='*equals*', spec='=', expanded=0, mod=True))
            continue
        name = rng.choice(NAMES)
        if name in used:
            continue
        used.add(name)
        ty = rng.choice(TYPES)
        r = rng.random()
        spec = None if r < 0.55 else rng.choice(['[]', '[]', '()', '<>', '{}'])
        if ty in ('Tok', 'Number', 'Dimen', 'Glue', 'cs') and spec not in (None,):
            spec = None
        a = dict(name=name, spec=spec, type=ty, delim=None, subtype=None, expanded=0 if ty in ('cs', 'nox') else 1)
        if ty in ('list', 'dict') and rng.random() < 0.4:
            a['delim'] = rng.choice(';|,')
        if ty == 'list' and rng.random() < 0.4:
            a['subtype'] = rng.choice(['str', 'int'])
        if ty is None:
            del a['delim']
        args.append(a)
    return args


def print_sig(args, rng=None):
    out = []
    sp = (lambda: rng.choice(['', ' ', '  '])) if rng else (lambda: ' ')
    for a in args:
        if a.get('mod'):
            out.append(a['spec'])
            continue
        s = a['name']
        if a.get('type'):
            s += ':' + a['type']
            if a.get('delim'):
                s += '(' + a['delim'] + ')'
            if a.get('subtype'):
                s += ':' + a['subtype']
        if a.get('spec'):
            s = a['spec'][0] + sp() + s + sp() + a['spec'][1]
        out.append(s)
    return (' ' if not rng else rng.choice([' ', '  '])).join(out)


def sig_expect(args):
    return [0, [[a['name'], a.get('spec'), a.get('type'), a.get('delim') if a.get('type') else None, a.get('subtype'),
                 int(bool(a.get('expanded')))] for a in args]]


def text_tokens(rng, lo=1, hi=4, alphabet='abcxyz012'):
    return chs(''.join(rng.choice(alphabet) for _ in range(rng.randint(lo, hi))))


def mk_value(rng, a, in_group_delims=None):
    """content tokens for one argument of type a['type'] and the value (Model's out_aval form) it denotes.
       in_group_delims: (o, c) when the argument is an optional grouping (content must not contain an unbalanced c)"""
    ty = a.get('type')
    forbid = set(in_group_delims or ())

    def wtoks(toks):
        return [wire_tok(t) for t in toks]
    if ty in (None, 'nox'):
        body = balanced_braces(rng, 2) if not in_group_delims else balanced_delims(rng, in_group_delims[0], in_group_delims[1], 2)
        body = [t for t in body if chr(t[2]) not in ',=' or True]
        return body, [2, wtoks(body)]
    if ty in ('str', 'chr'):
        word = text_tokens(rng, 1, 5)
        pad = rng.random() < 0.3
        body = (chs(' ') if pad else []) + word + (chs(' ') + text_tokens(rng, 1, 2) if rng.random() < 0.3 else [])
        s = ''.join(chr(t[2]) for t in body).strip()
        return body, [4, S(s)]
    if ty in ('int', 'number'):
        c = int_case(rng, body=int_body(rng, kinds=('dec', 'dec', 'oct', 'hex')), follow=[], space=False)
        return c['toks'], [5, c['expect']['value']]
    if ty == 'float':
        st, sign = sign_run(rng, 2)
        bt, dv, form = dec_body(rng)
        v = sign * dv
        return st + bt, [6, [v.numerator, v.denominator]]
    if ty in ('dimen', 'length'):
        toks, val, tg, last = dimen_literal(rng, allow_reg=False)
        return toks, [6, [val.numerator, val.denominator]]
    if ty == 'list':
        d = a.get('delim') or ','
        items, vals = [], []
        for _ in range(rng.randint(1, 4)):
            if a.get('subtype') == 'int':
                n = rng.randint(0, 999)
                items.append(chs(str(n)))
                vals.append([5, n])
            else:
                r = rng.random()
                if r < 0.25 and not in_group_delims:
                    inner = text_tokens(rng) + chs(d) + text_tokens(rng)
                    it = text_tokens(rng, 0, 2) + chs('{') + inner + chs('}')
                    items.append(it)
                    # untyped items stay token lists; an item cast to str is its source text (7145f1b)
                    vals.append([4, S(''.join(chr(t[2]) for t in it))] if a.get('subtype') == 'str' else [2, wtoks(it)])
                else:
                    w = text_tokens(rng)
                    it = (chs(' ') if rng.random() < 0.3 else []) + w
                    items.append(it)
                    vals.append([4, S(''.join(chr(t[2]) for t in w))])
        body = []
        for i, it in enumerate(items):
            body += (chs(d) if i else []) + it
        return body, [8, vals]
    if ty == 'dict':
        d = a.get('delim') or ','
        body, pairs, seen = [], [], set()
        for i in range(rng.randint(1, 3)):
            k = ''.join(chr(t[2]) for t in text_tokens(rng, 1, 3, 'abcdk'))
            if k in seen:
                continue
            seen.add(k)
            r0 = rng.random()
            if r0 < 0.2:
                kv, val = chs(k), [1]                                   # a bare key: True
            elif r0 < 0.4:
                # `key=` with an empty value is the empty string, not True; blanks around = do not matter
                kv, val = chs(k) + chs(rng.choice(['=', ' =', '= ', ' = '])), [4, []]
            elif r0 < 0.5 and not in_group_delims:
                kv, val = chs(k) + chs('={}'), [2, wtoks(chs('{}'))]       # an empty brace group as value
            elif rng.random() < 0.3 and not in_group_delims:
                inner = text_tokens(rng) + chs(d) + text_tokens(rng)
                v = chs('{') + inner + chs('}')
                kv, val = chs(k) + chs('=') + v, [2, wtoks(v)]
            else:
                w = text_tokens(rng)
                kv, val = chs(k) + chs(rng.choice(['=', '=', ' = ', '= '])) + w, [4, S(''.join(chr(t[2]) for t in w))]
            body += (chs(d) if body else []) + kv
            pairs.append([[4, S(k)], val])
        return body, [9, pairs]
    raise ValueError(ty)


def mk_call(rng, args):
    """a conforming invocation for the signature AST `args` -> (tokens, binds (name -> expected out_aval), nontrivial)"""
    toks, binds, nt = [], {}, False
    for i, a in enumerate(args):
        lead = chs(' ') if (rng.random() < 0.15 and toks) else []
        if a.get('mod'):
            c = a['spec']
            present = rng.random() < 0.5
            if present:
                toks += lead + chs(c)
                binds[a['name']] = [3, wire_tok(ch(c))]
            else:
                binds[a['name']] = [0]
                nt = True
                toks += [['mark-absent', c]]
            continue
        ty, spec = a.get('type'), a.get('spec')
        if ty == 'Tok':
            t = rng.choice([chs('x'), [list(RELAX)], chs('1')])
            toks += lead + t
            binds[a['name']] = [3, wire_tok(t[0])]
            continue
        if ty == 'cs':
            t = [list(RELAX)] if rng.random() < 0.5 else [['cs', 'inert', 'zzz', 0]]
            toks += lead + (chs('{') + t + chs('}') if rng.random() < 0.5 else t)
            binds[a['name']] = [3, wire_tok(t[0])]
            continue
        if ty in ('Number', 'Dimen', 'Glue'):
            if ty == 'Number':
                c = int_case(rng, body=int_body(rng, kinds=('dec', 'oct', 'hex')), follow=[], space=False)
                lit, val = c['toks'], [5, c['expect']['value']]
                # normally ended by a blank; sometimes (marker) directly by what follows, which is the known finding when that
                # is a brace: the digit scanner still expands the token that ends the digits
                toks += lead + lit + [['after-number', rng.random() < 0.12]]
                binds[a['name']] = val
                continue
            elif ty == 'Dimen':
                lit, v, _, _ = dimen_literal(rng, allow_reg=False)
                val = [6, [v.numerator, v.denominator]]
            else:
                lit, comps, _, _, _ = glue_literal(rng, allow_reg=False)
                val = [7, [[] if x is None else [x.numerator, x.denominator] for x in comps]]
            toks += lead + lit + ([] if ends_with_space(lit) else chs(' '))
            binds[a['name']] = val
            continue
        if spec is None:
            body, val = mk_value(rng, a)
            if ty in (None, 'nox') and len(body) == 1 and body[0][1] in (11, 12) and rng.random() < 0.3:
                toks += lead + body        # a single token without braces
            else:
                toks += lead + chs('{') + body + chs('}')
            if any(t[1] == 1 for t in body):
                nt = True
            binds[a['name']] = val
        else:
            o, c = spec[0], spec[1]
            optional = spec != '{}'
            if optional and rng.random() < 0.4:
                binds[a['name']] = [0]
                nt = True
                # an absent optional must not be followed by its own opening delimiter: guaranteed by the next argument's shape
                toks += [['mark-absent', o]]
            else:
                body, val = mk_value(rng, a, in_group_delims=(o, c))
                body = [t for t in body if t[0] != 'c' or chr(t[2]) != c or True]
                toks += lead + chs(o) + body + chs(c)
                binds[a['name']] = val
                nt = nt or optional
    return toks, binds, nt


def finalize_call(toks, follow):
    """resolve the markers: an absent optional must not be followed by its own opening delimiter (else the case is discarded:
    returns None); a Number argument is ended by a blank, or -- marker flag -- directly by a following brace group, which is the
    known look-ahead finding (flag returned)"""
    out = []
    seq = toks + follow
    flag = False
    for i, t in enumerate(seq):
        if t[0] in ('mark-absent', 'after-number'):
            j = i + 1
            while j < len(seq) and (seq[j][0] in ('mark-absent', 'after-number') or seq[j] == ['c', 10, 32]):
                j += 1
            if t[0] == 'mark-absent' and j < len(seq) and seq[j][0] == 'c' and chr(seq[j][2]) == t[1]:
                return None, False
            if t[0] == 'after-number':
                nxt = seq[i + 1] if i + 1 < len(seq) else None
                if t[1] and nxt is not None and nxt[0] == 'c' and nxt[1] in (1, 2):
                    flag = True            # 12{abc}: no blank, the brace is expanded by the digit scanner
                else:
                    out.append(['c', 10, 32])
            continue
        out.append(t)
    return out, flag


def parse_case(rng):
    for _ in range(20):
        args = rand_sig(rng)
        sig = print_sig(args, rng)
        toks, binds, nt = mk_call(rng, args)
        follow = rng.choice([[], chs('x'), chs('z y'), [list(RELAX)], chs('}'), chs('[q]'), chs('{w}'), chs('*')])
        # what follows must not be taken for a missing modifier / optional of the last arguments
        seq, lookahead = finalize_call(toks, follow)
        if seq is None:
            continue
        last = args[-1]
        if follow and follow[0][0] == 'c':
            f0 = chr(follow[0][2])
            trailing = []
            for a in reversed(args):
                if a.get('mod') or (a.get('spec') and a['spec'] != '{}'):
                    trailing.append(a)
                else:
                    break
            if any(binds.get(a['name']) == [0] and (a['spec'][0] == f0) for a in trailing):
                continue
        ebinds = binds
        key = None        # (a brace right after a Number argument binds correctly since 076499b; such calls stay in the stream)
        return dict(kind='parse', sig=sig, toks=seq, key=key, nt=nt or len(args) >= 3, tags=['args=%d' % len([a for a in args if not a.get('mod')])] +
                    sorted({'type:' + str(a.get('type')) for a in args if not a.get('mod')}) +
                    sorted({'spec:' + str(a.get('spec')) for a in args if not a.get('mod')}),
                    expect=dict(binds=ebinds, rest=follow))
    return None


def escape_call_case(rng):
    """absent optional argument followed by the control symbol named like its opener, at the end of the call or between
    arguments (the next argument is then of type cs / Tok, which takes the token unexpanded)"""
    o, c = rng.choice(['[]', '()', '<>'])
    first = dict(name='arg', spec=None, type=rng.choice([None, 'str']), delim=None, subtype=None, expanded=1)
    opt = dict(name='opt', spec=o + c, type=None, subtype=None, expanded=1)
    w = text_tokens(rng, 1, 3)
    val = [2, [wire_tok(t) for t in w]] if first['type'] is None else [4, S(''.join(chr(t[2]) for t in w))]
    if first['type'] is None:
        del first['delim']
    toks = chs('{') + w + chs('}')
    binds = {'arg': val, 'opt': [0]}
    sp = chs(' ' * rng.choice([0, 0, 1]))
    if rng.random() < 0.5:
        args = [first, opt]
        follow = sp + [esc(o)] + text_tokens(rng, 0, 3) + [esc(c)] + chs(' tail')
        # blanks in front of what follows are skipped while looking for the optional argument
        rest = follow[len(sp):]
        tag = 'end-of-call'
    else:
        ty = rng.choice(['cs', 'Tok'])
        nxt = dict(name='key', spec=None, type=ty, delim=None, subtype=None, expanded=0 if ty == 'cs' else 1)
        args = [first, opt, nxt]
        toks = toks + sp + [esc(o)]
        binds['key'] = [3, wire_tok(esc(o))]
        follow = rng.choice([[], chs('x'), [esc(c)], chs(' tail')])
        rest = follow
        tag = 'between-arguments'
    return dict(kind='parse', sig=print_sig(args, rng), toks=toks + (follow if tag == 'end-of-call' else follow), nt=True,
                tags=['absent-optional-then-escape', tag, 'spec:' + o + c], expect=dict(binds=binds, rest=rest))


DICT_ENTRY_KINDS = [('bare', lambda k: (chs(k), [1])),
                    ('empty', lambda k: (chs(k + '='), [4, []])),
                    ('empty-blanks', lambda k: (chs(k + ' = '), [4, []])),
                    ('valued', lambda k: (chs(k + '=v1'), [4, S('v1')])),
                    ('empty-group', lambda k: (chs(k + '={}'), [2, [wire_tok(t) for t in chs('{}')]]))]


def dict_shape_cases():
    """every sequence of 1-3 dictionary entries over: bare key, key= (empty value), key = (with blanks), key=value, key={} --
    in {..} and in [..], default and ; delimiter: a bare key is True, `key=` the empty string"""
    for n in (1, 2, 3):
        for kinds in itertools.product(range(len(DICT_ENTRY_KINDS)), repeat=n):
            for spec, d in ((None, ','), ('[]', ','), (None, ';')):
                body, pairs = [], []
                for i, ki in enumerate(kinds):
                    kv, val = DICT_ENTRY_KINDS[ki][1]('k' + 'abc'[i])
                    body += (chs(d) if body else []) + kv
                    pairs.append([[4, S('k' + 'abc'[i])], val])
                a = dict(name='v', spec=spec, type='dict', delim=None if d == ',' else d, subtype=None, expanded=1)
                o, c = (spec[0], spec[1]) if spec else ('{', '}')
                yield dict(kind='arg', arg=a, toks=chs(o) + body + chs(c) + chs('x'), nt=True,
                           tags=['dict-shape'] + sorted({'dict:' + DICT_ENTRY_KINDS[ki][0] for ki in kinds}),
                           expect=dict(value=[9, pairs], rest=chs('x')))


def repo_signatures():
    import core
    from translate import signatures
    return signatures.extract(core.REPO)


def streams(rng, tier, boost):
    out = []
    quick = tier == 'quick'
    # 1. exhaustive short literals (Spec-driven)
    for c in enum_int_cases():
        out.append(('int-exhaustive', c))
    for c in macro_follow_cases():
        out.append(('int-exhaustive', c))
    for i, c in enumerate(enum_dimen_cases()):
        if quick and c['tags'][-1] == 'enum' and c.get('units', 0) == 0 and i % 3 and boost == 1:
            continue
        out.append(('dimen-exhaustive', c))
    # 2. exhaustive raw token strings (Model-driven): every string of length <= L over the 16-symbol alphabet
    L = 3 if quick else 4
    if boost > 1 and quick:
        L = 4
    for n in range(L + 1):
        for tup in itertools.product(range(len(RAW_ALPHA)), repeat=n):
            toks = [list(RAW_ALPHA[i]) for i in tup]
            out.append(('raw-int', dict(kind='num', op='int', toks=toks, nt=n >= 2)))
            if n <= (2 if (quick and boost == 1) else 3):
                out.append(('raw-dimen', dict(kind='num', op='dimen', units=0, toks=toks, nt=n >= 2)))
    # 3. random structured literals
    n = (1600 if quick else 25000) * boost
    for _ in range(n):
        out.append(('int-random', int_case(rng)))
        out.append(('dimen-random', dimen_case(rng)))
        out.append(('glue-random', glue_case(rng)))
    # 4. malformed token lists through every reader
    for _ in range((1000 if quick else 15000) * boost):
        toks = rand_raw(rng, rng.randint(0, 9))
        op = rng.choice(['int', 'dec', 'dimen', 'glue', 'unit', 'dimen'])
        out.append(('malformed', dict(kind='num', op=op, units=rng.choice([0, 0, 1, 2, 3]) if op in ('dimen', 'unit') else rng.choice([0, 0, 1]),
                                      toks=toks, lvl=rng.choice([0, 0, 0, -1, -2]), optspace=rng.choice([1, 1, 0]), nt=len(toks) >= 3)))
    # 5. groups
    out += delim_cases(rng, (1000 if quick else 12000) * boost)
    for _ in range((600 if quick else 5000) * boost):
        toks = rand_raw(rng, rng.randint(0, 8)) + chs(rng.choice(['', ']', '}', ')', ']]', '}}']))
        rng.shuffle(toks)
        r = rng.random()
        if r < 0.4:
            out.append(('groups-malformed', dict(kind='delim', op='tok', toks=toks, nt=len(toks) > 2)))
        elif r < 0.85:
            o, c = rng.choice(['[]', '()', '<>', '{}'])
            out.append(('groups-malformed', dict(kind='delim', op='grp', o=ord(o), c=ord(c), toks=chs(o) * rng.choice([0, 1, 1, 2]) + toks, nt=True)))
        else:
            out.append(('groups-malformed', dict(kind='delim', op='chr', c=ord(rng.choice('*=[')), toks=toks, nt=False)))
    # 5b. extended stream (outside NF-args): a closing delimiter protected by braces; a string argument containing a group
    for _ in range((60 if quick else 400) * boost):
        o, c = rng.choice(['[]', '[]', '()', '<>'])
        pre, post = text_tokens(rng, 0, 2), text_tokens(rng, 0, 2)
        inner = text_tokens(rng, 0, 2) + chs(c) + text_tokens(rng, 0, 1)
        body = pre + chs('{') + inner + chs('}') + post
        fo = rng.choice([[], chs('x'), chs('{nm}')])
        out.append(('extended', dict(kind='delim', op='grp', o=ord(o), c=ord(c), toks=chs(o) + body + chs(c) + fo, nt=True,
                                     key='C05:group:brace-protected-closer', tags=['brace-protected-closer'],
                                     expect=dict(toks=body, rest=fo))))
        w1, w2, w3 = text_tokens(rng, 0, 2), text_tokens(rng, 1, 2), text_tokens(rng, 0, 2)
        body = w1 + chs('{') + w2 + chs('}') + w3
        flat = ''.join(chr(t[2]) for t in w1 + w2 + w3)
        full = ''.join(chr(t[2]) for t in body)
        a = dict(name='v', spec=None, type='str', delim=None, subtype=None, expanded=1)
        # a string argument with a group inside is bound to the text written (7145f1b); nested groups, blanks around
        if rng.random() < 0.5:
            body = w1 + chs('{') + w2 + chs('{') + text_tokens(rng, 0, 2) + chs('}}') + w3
        if rng.random() < 0.3:
            body = chs(' ') + body + chs(' ')
        full = ''.join(chr(t[2]) for t in body)
        out.append(('strings', dict(kind='arg', arg=a, toks=chs('{') + body + chs('}') + fo, nt=True,
                                    tags=['str-with-group'], expect=dict(value=['alt', [4, S(full)], [4, S(full.strip())]], rest=fo))))
        # ... and with a control word inside: \name and the blank that ends it (as \detokenize prints it)
        body = w1 + [list(RELAX)] + w3
        txt = ''.join(chr(t[2]) for t in w1) + '\\relax ' + ''.join(chr(t[2]) for t in w3)
        out.append(('strings', dict(kind='arg', arg=a, toks=chs('{') + body + chs('}') + fo, nt=True,
                                    tags=['str-with-control-word'], expect=dict(value=['alt', [4, S(txt)], [4, S(txt.strip())]], rest=fo))))
        # residue (known finding): after a control SYMBOL the source text also gets a blank that was not written
        sym = rng.choice('&%#_$')
        body = w1 + [['cs', 'inert', sym, 0]] + w2
        txt = ''.join(chr(t[2]) for t in w1) + '\\' + sym + ''.join(chr(t[2]) for t in w2)
        out.append(('extended', dict(kind='arg', arg=a, toks=chs('{') + body + chs('}') + fo, nt=True, key='C05:cast:str-symbol-blank',
                                     tags=['str-with-control-symbol'], expect=dict(value=[4, S(txt)], rest=fo))))
    # 6. signatures: every args string of the code base, generated signatures
    for s in repo_signatures():
        out.append(('signatures-repo', dict(kind='sig', sig=s, nt=len(s) > 6, tags=['repo'])))
    for _ in range((400 if quick else 4000) * boost):
        args = rand_sig(rng)
        out.append(('signatures', dict(kind='sig', sig=print_sig(args, rng), nt=len(args) >= 2, expect=sig_expect(args), tags=['generated'])))
    for _ in range((150 if quick else 1500) * boost):
        s = ''.join(rng.choice(['a', 'b:str', 'c:list(;):int', '[', ']', '(', ')', '<', '>', '{', '}', '*', '=', ' ', ':', '1', '_x', '+', 'n:cs', '(,)',
                                'o:dict(|)', ':str', 'k:', '-']) for _ in range(rng.randint(0, 7)))
        out.append(('signatures-malformed', dict(kind='sig', sig=s, nt=len(s) > 3, tags=['malformed'])))
    # 7. signature x conforming call
    for _ in range((1800 if quick else 25000) * boost):
        c = parse_case(rng)
        if c:
            out.append(('calls', c))
    for _ in range((200 if quick else 1500) * boost):
        out.append(('calls', escape_call_case(rng)))
    # 7b. single typed arguments read through the cast path ({..} or [..]), followed by text that must survive: the literal ends
    #     right at the closing delimiter (no blank), incl. integer-looking float literals
    for _ in range((300 if quick else 3000) * boost):
        ty = rng.choice(['float', 'float', 'int', 'dimen', 'number', 'length', 'str', 'list', 'dict'])
        spec = rng.choice([None, None, '[]', '()'])
        a = dict(name='v', spec=spec, type=ty, delim=None, subtype=None, expanded=1)
        if ty == 'float' and rng.random() < 0.5:
            st, sign = sign_run(rng, 2)
            n = rng.choice([0, 2, 4, 7, 12, 100])
            body, val = st + chs(str(n)), [6, [sign * n, 1]]
        else:
            body, val = mk_value(rng, a, in_group_delims=tuple(spec) if spec else None)
        o, c = (spec[0], spec[1]) if spec else ('{', '}')
        fo = rng.choice([chs('rest'), chs(' rest'), chs('x'), [list(RELAX)] + chs('y'), chs('{z}'), []])
        out.append(('typed-casts', dict(kind='arg', arg=a, toks=chs(o) + body + chs(c) + fo, nt=True,
                                        tags=['cast:' + ty, 'spec:' + str(spec)], expect=dict(value=val, rest=fo))))
    # 7c. source-text mode: the same literals as character strings (blank runs of random length, leading blanks) through the real
    #     tokenizer; the Model gets the tokens the lexical rules prescribe (Properties: C05_source_int_value / _dimen_value)
    made = 0
    for _ in range((3000 if quick else 30000) * boost):
        if made >= (300 if quick else 3000) * boost:
            break
        c = rng.choice([int_case, dimen_case, glue_case])(rng)
        toks = c['toks']
        if not toks or toks[0] == ['c', 10, 32] or any(t[0] != 'c' or t[1] not in (1, 2, 10, 11, 12) for t in toks):
            continue
        if any(toks[i] == ['c', 10, 32] and toks[i + 1] == ['c', 10, 32] for i in range(len(toks) - 1)):
            continue
        if any(chr(t[2]) in '%\\#&$^_~' for t in toks):
            continue
        src = ' ' * rng.choice([0, 0, 1, 3]) + ''.join(' ' * rng.choice([1, 1, 2, 3]) if t[1] == 10 else chr(t[2]) for t in toks)
        if src.endswith(' ') and toks[-1] != ['c', 10, 32]:
            continue
        c = dict(c, src=src, tags=list(c.get('tags', [])) + ['source-text'])
        out.append(('source', c))
        made += 1
    for c in dict_shape_cases():
        out.append(('dict-shapes', c))
    # 8. enable level: typed arguments from several start levels, incl. type any / Tok / XTok / Args at end of input
    for _ in range((400 if quick else 3000) * boost):
        ty = rng.choice(['any', 'any', 'Tok', 'XTok', 'Args', 'Number', 'Dimen', 'Glue', 'MuDimen', 'MuGlue', 'str', None, 'cs', 'int', 'list'])
        toks = rng.choice([[], chs('abc def'), chs('a.txt x'), chs('{ab}c'), chs('12pt x'), chs('x'), [list(RELAX)] + chs('a b'), chs('3mu '),
                           chs('-1.5em plus 2fil q'), rand_raw(rng, rng.randint(0, 6))])
        if ty in ('any', 'str', None, 'list'):
            # the fragment built for these is run through the document's typographic character substitutions (quotes, dashes)
            toks = [t for t in toks if not (t[0] == 'c' and chr(t[2]) in '\'"`-')]
        a = dict(name='v', spec=None, type=ty, delim=None, subtype=None, expanded=0 if ty in ('cs',) else 1)
        c = dict(kind='arg', arg=a, toks=toks, lvl=rng.choice([0, 0, 0, -1]), nt=bool(toks), tags=['level:' + str(ty)])
        if ty == 'any':
            body = [t for t in toks if t[0] == 'c' and t[1] in (11, 12)]
            # conforming use of type any: a run of letters/others ended by a blank or the end of input
            if toks and all(t[0] == 'c' and t[1] in (10, 11, 12) for t in toks) and toks[0][1] != 10:
                k = next((i for i, t in enumerate(toks) if t[1] == 10), len(toks))
                c['expect'] = dict(value=[2, [wire_tok(t) for t in toks[:k]]], rest=toks[k + 1:])
                c['key'] = 'C05:enable:any'
        out.append(('enable-level', c))
    return out


def search_streams(rng, tier):
    out = []
    for _ in range(1500):
        out.append(('search', int_case(rng)))
        out.append(('search', dimen_case(rng)))
        out.append(('search', glue_case(rng)))
    return out


def shrink(case):
    toks = case.get('toks')
    if case['kind'] in ('sig', 'parse') or not toks or 'expect' in case:
        # structured cases carry their denotation: shrink only by dropping trailing follow tokens that are in both
        if 'expect' in case and case['kind'] == 'num':
            r = case['expect']['rest']
            if r and toks[-1:] == r[-1:]:
                e = dict(case['expect'], rest=r[:-1])
                yield dict(case, toks=toks[:-1], expect=e)
        return
    for i in range(len(toks)):
        yield dict(case, toks=toks[:i] + toks[i + 1:])
