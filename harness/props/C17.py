"""C17 -- A document's result does not depend on what was processed before it.

Correspondence: sequences A1..Ak;B (k <= 4) of generated documents are processed in ONE interpreter (a child forked from a
worker that has imported plasTeX but never processed a document; a fresh TeXDocument per document) and B is processed alone
in another pristine child (thorough tier: additionally in a freshly exec'ed interpreter).  Observed:
  * canonicalised toXML() of B (generated ids renamed in order of appearance) after the sequence and alone;
  * a snapshot of every interpreter-wide cell before the first and after every document: the cells of Gen/GlobalCells.v
    (regenerated from the source, walked by getattr on the real classes) plus a sweep over every class attribute and module
    variable of every loaded plasTeX module, so that a cell the static scan cannot see (a class pushed as a token, a setattr with
    a computed name) is still caught;
  * the raw values of the trackers right after each document, compared with the Model's transcription of List.invoke,
    MathShift.invoke, BoxCommand.parse, ParameterCommand.enable/disable/invoke and ifthenelse.invoke.
The judge: a cell that, as the next document sees it, differs from its initial value, or a B that differs -> the property is
violated; keyed by cell (`C17:cell:parindent.value`), so that only cells listed in known_findings.json are KNOWN-FINDINGs and
any new leaking cell is a VIOLATION with the sequence as replay.
"""
import hashlib
import json
import os
import re
import sys

ID = 'C17'
PINS = [('plasTeX/__init__.py', 'ParameterCommand'), ('plasTeX/__init__.py', 'DimenCommand'), ('plasTeX/__init__.py', 'NewIf'),
        ('plasTeX/__init__.py', 'TeXDocument.__init__'), ('plasTeX/__init__.py', 'Macro.arguments'),
        ('plasTeX/Context.py', 'Context.__init__'), ('plasTeX/Context.py', 'Context.importMacros'),
        ('plasTeX/Context.py', 'Context.resetParserState'), ('plasTeX/Context.py', 'Context.loadPythonPackage'),
        ('plasTeX/Base/LaTeX/Lists.py', 'List.invoke'), ('plasTeX/Base/TeX/Primitives.py', 'MathShift.invoke'),
        ('plasTeX/Base/TeX/Primitives.py', 'BoxCommand.parse'), ('plasTeX/Packages/article.py', 'ProcessOptions'),
        ('plasTeX/Packages/ifthen.py', 'ifthenelse.invoke'), ('plasTeX/Base/LaTeX/Arrays.py', 'ColumnType.new'),
        ('plasTeX/Base/LaTeX/Arrays.py', 'Array.compileColspec'), ('plasTeX/TeX.py', 'TeX.readArgumentAndSource')]
RULE = ('sequences A1..Ak;B, k <= 4, of generated documents (classes article/book/report/beamer; packages ifthen, hyperref, verse, '
        'natbib[sectionbib], a generated package defining a column type; register assignments by \\name=v and \\setlength; reads of '
        'registers; lists, $..$, $$..$$, \\mbox with text inside formulas, nested; sections, index, tabular, \\ifthenelse, \\openout, '
        '\\newif, \\newcount), closed or ending inside lists / formulas / boxes; B compared with B alone. Streams: one hand-written case '
        'per cell class, exhaustive pairs (A;B) over a pool of small documents, random sequences, B = one of the As (processing twice), '
        'malformed documents, documents constructed up front (all TeXDocument/TeX objects exist before the first is processed), rendered runs with labels on sections / equations / items / figures. Non-trivial = at least one A writes a cell (register, class patch, open tracker) that B reads.')
TRUSTED = ['partial by nature: the truth lives in Python class objects; the Model carries the bookkeeping only, which cells exist and '
           'which are re-created per document comes from the ast translator harness/translate/global_cells.py (fail-closed, trusted)',
           'the map from a generated document to the events it causes (which feature writes / reads which cell) is harness glue, '
           'validated on every case by comparing the raw tracker and register values after each document',
           'a child forked from a worker that imported plasTeX and never processed a document counts as a fresh interpreter '
           '(cross-checked against a freshly exec\'ed interpreter in the thorough tier)',
           'C05 (C05_enable_balanced_*): every returning path of readArgumentAndSource re-enables parameters -- used here as '
           'the transcription "disable ... enable" of one argument']
ASSUMPTIONS = ['documents are processed with logging disabled; only the stream `rendered` renders (HTML5, tree + HTML files + .paux compared); process environment (sys.path, os.environ, '
               'logging handlers) and the renderer-phase cells (Node.renderer, mixin/unmix) are listed in Gen/GlobalCells.v but '
               'not part of the comparison; generated identifiers are renamed in order of appearance',
               'memo attributes (@arguments, @locals) are compared through B only (they are caches of the class definition)']
CASE_TIMEOUT = 60

VERIF = os.path.dirname(os.path.dirname(os.path.dirname(os.path.abspath(__file__))))
REPO = os.environ.get('VERIF_REPO', '/repo')


# ---------------------------------------------------------------------------------------------------------------------
# cells

def cells_path(repo=None):
    repo = repo or REPO
    return os.path.join(VERIF, 'build', 'C17', 'cells-%s.json' % re.sub(r'\W', '_', os.path.abspath(repo)))


_KNOWN = None


def known_keys():
    global _KNOWN
    if _KNOWN is not None:
        return _KNOWN
    keys = set()
    for p in (os.path.join(VERIF, 'known_findings.json'), os.path.join(VERIF, 'notes', 'C17', 'known.json')):
        if os.path.exists(p):
            j = json.load(open(p))
            for e in (j['findings'] if isinstance(j, dict) else j):
                if e.get('property') == 'C17' and e.get('status') == 'known':
                    keys.update(e.get('keys', []))
    _KNOWN = keys
    return keys


def gen_tables(repo, gen_dir):
    from translate import global_cells
    known = [k[len('C17:cell:'):] for k in known_keys() if k.startswith('C17:cell:')]
    d = global_cells.generate(repo, gen_dir, known)
    by_iso = {}
    for c in d['cells']:
        by_iso[c['iso']] = by_iso.get(c['iso'], 0) + 1
    unaccounted = [c['short'] for c in d['cells'] if c['iso'] == 'none' and not c['known']]
    # obligations re-proved against the table: C17_gen_table_accounted (two conjuncts) and C17_gen_isolated are Theorems of
    # Properties/C17.v and counted there; nothing extra
    return dict(obligations=0, cells=len(d['cells']), by_isolation=by_iso, unaccounted=unaccounted,
                perdoc_families=d['perdoc_families'], resets=sorted(d['resets']), skipped=d['skipped'])


_CELLS = None


def load_cells():
    global _CELLS
    if _CELLS is None:
        p = cells_path()
        if not os.path.exists(p):
            from translate import global_cells
            import core
            global_cells.generate(REPO, os.path.join(core.THEORIES, 'Gen'),
                                  [k[len('C17:cell:'):] for k in known_keys() if k.startswith('C17:cell:')])
        _CELLS = json.load(open(p))
    return _CELLS


def row_of(short):
    """Gen row id of the cell with this short name, or None when the tree has no such cell"""
    for c in load_cells()['cells']:
        if c.get('short') == short:
            return c['id']
    return None


# registers used by the generator: name -> (member, kind, default in sp or as int, unit)
REGS = {
    'tolerance': (1, 'count', 200), 'pretolerance': (2, 'count', 100), 'hbadness': (3, 'count', 1000), 'linepenalty': (4, 'count', 1000),
    'parindent': (5, 'dimen', 20 * 65536), 'tabcolsep': (6, 'dimen', 0), 'topsep': (7, 'dimen', 0), 'hsize': (8, 'dimen', None),
    'parskip': (9, 'glue', 0), 'baselineskip': (10, 'glue', 12 * 65536),
}
REG_ROW = {'count': 'ParameterCommand.value', 'dimen': 'DimenCommand.value', 'glue': 'GlueCommand.value'}
ARTICLE_PATCH = [('theindex.counter', 1), ('theindex.level', 1), ('printindex.counter', 1), ('printindex.level', 1),
                 ('bibliography.counter', 1), ('bibliography.level', 1)]
TRACKERS = ['ParameterCommand._enablelevel', 'ParameterCommand.enabled', 'List.depth', 'MathShift.inEnv', 'BeginMath.disableMath',
            'EndMath.disableMath']


MISSING_ROW = -7      # a cell the regenerated table does not list: no row, hence never reset (gen_R is false for unknown rows)


def reg_cell(name):
    member, kind, _ = REGS[name]
    # \name=v on a count parameter goes through ParameterCommand.invoke (row ParameterCommand.value); dimen / glue parameters
    # inherit invoke but have their own setlength rows; one row per family is enough for the reset flag, they are always
    # per-document together (Context.importMacros wraps ParameterCommand subclasses, which all of them are)
    r = row_of(REG_ROW[kind])
    if r is None:
        r = row_of('ParameterCommand.value')
    if r is None:
        r = MISSING_ROW
    return [r, member]


def cell(short):
    r = row_of(short)
    return None if r is None else [r, 0]


# ---------------------------------------------------------------------------------------------------------------------
# documents
# doc  = dict(cls=..., pkgs=[...], body=[atom...], end=bool)          end: \end{document} present
# atom = dict(a='text'|'param'|'setlen'|'readcount'|'readdim'|'list'|'math'|'macro'|'ifthen'|'section'|'index'|'tabular'|'openout'|
#             'newif'|'newcount'|'ref'|'verse'|'raw', ...)

PKG_DIRNAME = 'pkgs'
COLTYPE_PKG = '''from plasTeX.Base.LaTeX.Arrays import ColumnType

def ProcessOptions(options, document):
    ColumnType.new('Z', {'text-align': 'center'})
'''


COLTYPE_PKG_R = '''from plasTeX.Base.LaTeX.Arrays import ColumnType

def ProcessOptions(options, document):
    ColumnType.new('Z', {'text-align': 'right'})
'''
COLTYPE_PKG_Y = '''from plasTeX.Base.LaTeX.Arrays import ColumnType

def ProcessOptions(options, document):
    ColumnType.new('Y', {'text-align': 'right'})
'''
COLTYPE_TMPL = '''from plasTeX.Base.LaTeX.Arrays import ColumnType

def ProcessOptions(options, document):
    ColumnType.new(%r, %r)
'''
# further programs: the same letters with DIFFERENT KEY SETS (a later definition with fewer keys must not keep the earlier keys)
COLTYPE_MORE = {'vfcoltypeyb': ('Y', {'text-align': 'right', 'font-weight': 'bold'}, 3),
                'vfcoltypeyc': ('Y', {'text-align': 'center'}, 4),
                'vfcoltypezb': ('Z', {'text-align': 'center', 'font-weight': 'bold', 'color': 'red'}, 3),
                'vfcoltypezw': ('Z', {'width': '3em'}, 4)}
# package -> (letter, value written into the letter's cell)
COLTYPE_PKGS = {'vfcoltype': ('Z', 1), 'vfcoltyper': ('Z', 2), 'vfcoltypey': ('Y', 2)}
COLTYPE_PKGS.update({k: (v[0], v[2]) for k, v in COLTYPE_MORE.items()})
ENVS = {
    'eqnarray': '\\begin{eqnarray}a&=&b\\label{q%(n)da}\\\\c&=&d\\label{q%(n)db}\\\\e&=&f\\end{eqnarray} see \\ref{q%(n)da} and \\ref{q%(n)db} ',
    'eqnarray*': '\\begin{eqnarray*}a&=&b\\\\c&=&d\\end{eqnarray*} ',
    'tabular*': '\\begin{tabular*}{10pt}{lc}a&b\\\\c&d\\end{tabular*} ',
    'array': '$\\begin{array}{lc}a&b\\\\c&d\\end{array}$ ',
    'equation': '\\begin{equation}x=y\\label{q%(n)dc}\\end{equation} see \\ref{q%(n)dc} ',
    'displaymath': '\\begin{displaymath}x=y\\end{displaymath} ',
    'figure': '\\begin{figure}body\\caption{Cap}\\label{q%(n)dd}\\end{figure} see \\ref{q%(n)dd} ',
    'figure*': '\\begin{figure*}body\\caption{Cap}\\end{figure*} ',
    'table': '\\begin{table}\\begin{tabular}{l}a\\\\b\\end{tabular}\\caption{Cap}\\end{table} ',
    'table*': '\\begin{table*}body\\caption{Cap}\\end{table*} ',
    'description': '\\begin{description}\\item[term] text\\end{description} ',
    'center': '\\begin{center}mid\\\\dle\\end{center} ',
    'quote': '\\begin{quote}said\\end{quote} ',
}


def tex_atoms(atoms, inmath=False):
    return ''.join(tex_atom(a, inmath) for a in atoms)


def tex_atom(a, inmath=False):
    k = a['a']
    if k == 'text':
        return a['w'] + ' '
    if k == 'param':
        kind = REGS[a['reg']][1]
        # \relax: a register that follows a number would be multiplied into it (C05's known finding int:register-after-decimal)
        return '\\%s=%d%s\\relax ' % (a['reg'], a['v'], '' if kind == 'count' else 'pt')
    if k == 'envparam':
        # a style parameter assigned and / or read INSIDE an environment (where the environment's local macros are in scope)
        w = ('\\%s=%dpt\\relax ' % (a['reg'], a['v'])) if a.get('write') else ''
        r = ('\\ifdim\\%s>1pt 1\\else 0\\fi ' % a['reg']) if a.get('read') else ''
        return {'eqnarray': '\\begin{eqnarray}%sa&=&b %s\\\\c&=&d\\end{eqnarray} ',
                'eqnarray*': '\\begin{eqnarray*}%sa&=&b %s\\\\c&=&d\\end{eqnarray*} ',
                'tabular': '\\begin{tabular}{lc}%sa&b %s\\\\c&d\\end{tabular} ',
                'center': '\\begin{center}%smid %s\\end{center} ',
                'quote': '\\begin{quote}%ssaid %s\\end{quote} '}[a['e']] % (w, r)
    if k == 'numberwithin':
        return '\\numberwithin{%s}{%s}' % (a['t'], a['c'])
    if k == 'appendix':
        return '\\appendix '
    if k == 'who':
        return '\\who '
    if k == 'paramreg':
        # a glue register given by another register, optionally signed: \parskip=-\baselineskip
        return '\\%s=%s\\%s\\relax ' % (a['reg'], a.get('sign', ''), a['src'])
    if k == 'labelled':
        n = a['n']
        return {'section': '\\section{The %s section}\\label{s%d} text see \\ref{s%d} ' % (a.get('w', 'first'), n, n),
                'equation': '\\begin{equation}x=y\\label{e%d}\\end{equation} see \\ref{e%d} ' % (n, n),
                'item': '\\begin{enumerate}\\item\\label{i%d} one \\item two\\end{enumerate} see \\ref{i%d} ' % (n, n),
                'figure': '\\begin{figure}body\\caption{Cap %s}\\label{f%d}\\end{figure} see \\ref{f%d} ' % (a.get('w', 'x'), n, n)}[a['what']]
    if k == 'setlen':
        return '\\setlength{\\%s}{%dpt}' % (a['reg'], a['v'])
    if k == 'readcount':
        return '\\setcounter{obs}{\\%s}[\\arabic{obs}] ' % a['reg']
    if k == 'readdim':
        d = REGS[a['reg']][2]
        return '\\ifdim\\%s=%dpt D\\else d\\fi ' % (a['reg'], d // 65536)
    if k == 'list':
        s = '\\begin{%s}\\item ' % a['kind'] + tex_atoms(a['body'])
        return s + ('\\end{%s} ' % a['kind'] if a['closed'] else '')
    if k == 'math':
        d = '$$' if a['disp'] else '$'
        return d + tex_matoms(a['body']) + (d + ' ' if a['closed'] else '')
    if k == 'macro':
        return ['\\relax ', '\\hspace{3pt}', '\\rule{1pt}{2pt}'][a['n']]
    if k == 'ifthen':
        return '\\ifthenelse{1<2}{T}{F} '
    if k == 'section':
        return '\\section{%s}' % a['t']
    if k == 'index':
        return '\\index{%s}' % a['w']
    if k == 'printindex':
        return '\\printindex '
    if k == 'tabular':
        return '\\begin{tabular}{%s}a&b\\\\c&d\\end{tabular} ' % a['spec']
    if k == 'openout':
        return '\\openout\\foo=bar.txt '
    if k == 'newif':
        return '\\newif\\iffoo \\footrue \\iffoo Y\\else N\\fi '
    if k == 'newcount':
        return '\\newcount\\zz \\zz=%d \\setcounter{obs}{\\zz}[\\arabic{obs}] ' % a['v']
    if k == 'ref':
        return '\\label{l%d} see \\ref%s{l%d} ' % (a['n'], '*' if a.get('star') else '', a['n'])
    if k == 'verse':
        return '\\begin{verse}%s line \\end{verse} ' % ('[3pt]' if a.get('opt') else '')
    if k == 'bold':
        return '\\textbf%s{%s} ' % ('<2>' if a.get('overlay') else '', a['w'])
    if k == 'env':
        return ENVS[a['e']] % dict(n=a['n'])
    if k == 'citealias':
        return '\\defcitealias{%s}{Paper I} ' % a['k']
    if k == 'raw':
        return a['s']
    raise ValueError(a)


def tex_matoms(ms):
    out = []
    for m in ms:
        if m['m'] == 'sym':
            out.append(m.get('w', 'x') + ' ')
        elif m['m'] == 'box':
            out.append('\\mbox{' + tex_atoms(m['body']) + ('}' if m['closed'] else ''))
        else:
            raise ValueError(m)
    return ''.join(out)


def source(doc):
    opts = doc.get('clsopt')
    s = '\\documentclass%s{%s}' % ('[%s]' % opts if opts else '', doc['cls'])
    for p in doc.get('pkgs', []):
        if isinstance(p, (list, tuple)):
            s += '\\usepackage[%s]{%s}' % (p[1], p[0])
        else:
            s += '\\usepackage{%s}' % p
    if doc.get('input'):
        s += '\\input{%s}' % doc['input']
    s += '\\begin{document}\\newcounter{obs}'
    s += tex_atoms(doc['body'])
    if doc.get('end', True):
        s += '\\end{document}'
    return s


# ---- the events a document causes (Model tokens) ----------------------------------------------------------------------

def T_cell(c):
    return c


def tok_atoms(atoms, out, reads, cur=None, inbox=False):
    """cur: the values the document's registers have at this point (a register given by another register takes the value the
    source has now); inbox: inside the argument of a box, where parameters are disabled and assignments are not executed"""
    if cur is None:
        cur = {r: REGS[r][2] for r in REGS}
    for a in atoms:
        k = a['a']
        if k == 'text':
            out.append(0)
        elif k == 'param':
            out.append([9, reg_cell(a['reg']), val_code(a['reg'], a['v'])])
            if not inbox:
                cur[a['reg']] = val_code(a['reg'], a['v'])
        elif k == 'envparam':
            out.append([8, 2])
        elif k == 'who':
            out.append(0)
        elif k == 'appendix':
            out.append([8, 1])
            cur['@appendix'] = True
        elif k == 'numberwithin':
            out.append([8, 2])
            # after \appendix the name the<counter> is bound to the module-level class appendix.the<counter> (shared)
            tgt = {'article': 'section'}.get(cur.get('@cls'), 'chapter')
            nm = 'appendix.the%s.format' % tgt
            if cur.get('@appendix') and a['t'] == tgt and cell(nm) is not None:
                out.append([11, cell(nm), 1])
        elif k == 'paramreg':
            v = (cur.get(a['src']) or 0) * (-1 if a.get('sign') == '-' else 1)
            out.append([9, reg_cell(a['reg']), v])
            if not inbox:
                cur[a['reg']] = v
        elif k == 'labelled':
            if a['what'] == 'item':
                out += [4, 6, [8, 1], 6, 5, [8, 1]]
            else:
                out += [[8, 3], [8, 1], [8, 1]]
                if a['what'] == 'section':
                    appendix_read(cur, out, reads)
        elif k == 'setlen':
            # \setlength only parses its two arguments in plasTeX (its invoke is commented out in Base/LaTeX/Lengths.py):
            # DimenCommand.setlength is reached through the Python API only, so no cell is written here
            out.append([8, 2])
        elif k in ('readcount', 'readdim'):
            out.append([8, 2])
            out.append([12, reg_cell(a['reg'])])
            reads.append(('strict', a['reg']))
        elif k == 'list':
            out += [4, 6]
            reads.append(('weak', 'List.depth'))
            tok_atoms(a['body'], out, reads, cur, inbox)
            if a['closed']:
                out.append(5)
        elif k == 'math':
            out += [1, 1] if a['disp'] else [1]
            for m in a['body']:
                if m['m'] == 'sym':
                    out.append(0)
                else:
                    out.append(2)
                    tok_atoms(m['body'], out, reads, cur, True)
                    if m['closed']:
                        out.append(3)
            if a['closed']:
                out += [1, 1] if a['disp'] else [1]
            c = cell('MathShift.inEnv')
            out.append([12, c])
            reads.append(('weak', 'MathShift.inEnv'))
        elif k == 'macro':
            out.append([8, a['n']])
        elif k == 'ifthen':
            out.append(7)
        elif k == 'section':
            out.append([8, 3])
            appendix_read(cur, out, reads)
        elif k == 'index':
            out.append([8, 1])
        elif k == 'printindex':
            for nm in ('printindex.counter', 'printindex.level'):
                c = cell(nm)
                if c is not None:
                    out.append([12, c])
                    reads.append(('weak', nm))
        elif k == 'tabular':
            # one cell per column letter of the registry (member = code point); built-in letters are never redefined here
            for ch in a['spec']:
                if ch in 'ZY' and row_of('ColumnType.columnTypes') is not None:
                    out.append([12, [row_of('ColumnType.columnTypes'), ord(ch)]])
                    reads.append(('weak', 'ColumnType.columnTypes'))
        elif k == 'env':
            out.append([8, 1] if a['e'] != 'description' else 0)
            if a['e'] == 'description':
                out += [4, 6, 5]
        elif k == 'openout':
            out.append([8, 3])
        elif k == 'newif':
            out.append(0)
        elif k == 'newcount':
            out.append([8, 4])
        elif k == 'ref':
            out.append([8, 2])
            c = cell('ref.args')
            if c is not None:
                out.append([12, c])
                reads.append(('weak', 'ref.args'))
        elif k == 'verse':
            c = cell('verse.args')
            if c is not None:
                out.append([12, c])
                reads.append(('weak', 'verse.args'))
        elif k == 'bold':
            out += [2, 0, 3] if False else [[8, 1]]
            c = cell('textbf.args')
            if c is not None:
                out.append([12, c])
                reads.append(('weak', 'textbf.args'))
        elif k == 'citealias':
            out.append([8, 2])
            out.append([11, cell('defcitealias.aliases'), 1])
        elif k == 'raw':
            out.append(0)
        else:
            raise ValueError(a)


def appendix_read(cur, out, reads):
    """a section after \\appendix is numbered by the shared class appendix.thesection (article): its result depends on that cell"""
    if cur.get('@appendix') and cur.get('@cls') == 'article' and cell('appendix.thesection.format') is not None:
        out.append([12, cell('appendix.thesection.format')])
        reads.append(('weak', 'appendix.thesection.format'))


def val_code(reg, v):
    kind = REGS[reg][1]
    return v if kind == 'count' else v * 65536


def beamer_cells():
    return [c['short'] for c in load_cells()['cells'] if c['iso'] == 'none' and all('beamer.py' in s for s in c['sites'])]


def doc_tokens(doc):
    """-> (tokens, reads)   reads: list of ('strict'|'weak', name) in the order of the TRead tokens"""
    out, reads = [], []
    # document class and packages: class-level patches
    cls = doc['cls']
    if cls == 'article':
        for nm, v in ARTICLE_PATCH:
            out.append([11, cell(nm), v])
    if cls == 'beamer':
        for nm in beamer_cells():
            out.append([11, cell(nm), 1])
        for nm in ('ref.args', 'pageref.args'):     # beamer imports hyperref
            if cell(nm) is not None:
                out.append([11, cell(nm), 1])
    for p in doc.get('pkgs', []):
        name = p[0] if isinstance(p, (list, tuple)) else p
        if name == 'hyperref':
            for nm in ('ref.args', 'pageref.args'):
                if cell(nm) is not None:
                    out.append([11, cell(nm), 1])
        elif name == 'verse':
            if cell('verse.args') is not None and 'verse.py' in json.dumps([c['sites'] for c in load_cells()['cells'] if c.get('short') == 'verse.args']):
                out.append([11, cell('verse.args'), 1])
        elif name == 'natbib' and isinstance(p, (list, tuple)) and 'sectionbib' in p[1]:
            out.append([11, cell('bibliography.level'), 1])
        elif name in COLTYPE_PKGS:
            letter, v = COLTYPE_PKGS[name]
            out.append([11, [row_of('ColumnType.columnTypes'), ord(letter)], v])
    out.append([8, 1])      # \newcounter{obs}
    cur = {r: REGS[r][2] for r in REGS}
    cur['@cls'] = doc['cls']
    tok_atoms(doc['body'], out, reads, cur)
    return out, reads


def used_cells(case):
    """cells whose raw values are compared with the Model after every document"""
    names = list(TRACKERS)
    regs = set()

    def walk(atoms):
        for a in atoms:
            if a['a'] in ('param', 'setlen', 'readcount', 'readdim', 'paramreg'):
                regs.add(a['reg'])
            if a['a'] == 'list':
                walk(a['body'])
            if a['a'] == 'math':
                for m in a['body']:
                    if m['m'] == 'box':
                        walk(m['body'])
    for d in case['docs'] + [case['B']]:
        walk(d['body'])
    return names, sorted(regs)


def model_input(case):
    names, regs = used_cells(case)
    K = [cell(n) for n in TRACKERS]
    if any(k is None for k in K):
        return [-1]
    inits = [[cell('ParameterCommand._enablelevel'), 0], [cell('ParameterCommand.enabled'), 1], [cell('List.depth'), 0],
             [cell('MathShift.inEnv'), []], [cell('BeginMath.disableMath'), 0], [cell('EndMath.disableMath'), 0]]
    for r in regs:
        d = REGS[r][2]
        inits.append([reg_cell(r), d if d is not None else 0])
    seen = {json.dumps(i[0]) for i in inits}
    docs = []
    for d in case['docs'] + [case['B']]:
        toks, _ = doc_tokens(d)
        for t in toks:
            if isinstance(t, list) and t[0] in (11, 12) and json.dumps(t[1]) not in seen:
                seen.add(json.dumps(t[1]))
                inits.append([t[1], 0])
        docs.append(toks)
    return [K, inits, docs[:-1], docs[-1]]


# ---------------------------------------------------------------------------------------------------------------------
# generation

WORDS = ['alpha', 'beta', 'gamma', 'delta', 'omega']


def rand_atoms(rng, depth, feats, n=None):
    out = []
    for _ in range(n if n is not None else rng.randint(1, 4)):
        out.append(rand_atom(rng, depth, feats))
    return out


def rand_atom(rng, depth, feats, open_ok=False):
    f = rng.choice(feats)
    if f == 'text':
        return dict(a='text', w=rng.choice(WORDS))
    if f == 'param':
        reg = rng.choice(['tolerance', 'pretolerance', 'hbadness', 'parindent', 'tabcolsep'])
        return dict(a='param', reg=reg, v=rng.choice([3, 5, 7, 500]))
    if f == 'setlen':
        reg = rng.choice(['parindent', 'parskip', 'topsep'])
        return dict(a='setlen', reg=reg, v=rng.choice([3, 5, 9]))
    if f == 'read':
        reg = rng.choice(['tolerance', 'pretolerance', 'hbadness', 'parindent', 'tabcolsep', 'topsep', 'parskip'])
        return dict(a='readcount' if REGS[reg][1] == 'count' else 'readdim', reg=reg)
    if f == 'list' and depth > 0:
        return dict(a='list', kind=rng.choice(['itemize', 'enumerate']), body=rand_atoms(rng, depth - 1, feats, rng.randint(1, 2)), closed=True)
    if f == 'math' and depth > 0:
        body = [dict(m='sym', w=rng.choice('xyz'))]
        if rng.random() < 0.4:
            inner = [x for x in feats if x not in ('section', 'tabular', 'verse', 'printindex', 'env', 'labelled', 'envparam', 'numberwithin')]
            body.append(dict(m='box', body=rand_atoms(rng, depth - 1, inner, rng.randint(1, 2)), closed=True))
            if rng.random() < 0.5:
                body.append(dict(m='sym', w='w'))
        return dict(a='math', disp=rng.random() < 0.3, body=body, closed=True)
    if f == 'macro':
        return dict(a='macro', n=rng.randint(0, 2))
    if f == 'ifthen':
        return dict(a='ifthen')
    if f == 'section':
        return dict(a='section', t=rng.choice(WORDS))
    if f == 'index':
        return dict(a='index', w=rng.choice(WORDS))
    if f == 'tabular':
        return dict(a='tabular', spec=rng.choice(['lc', 'rl', 'Zl', 'cZ', '|l|Z|', 'lY']))
    if f == 'envparam':
        return dict(a='envparam', e=rng.choice(['eqnarray', 'eqnarray*', 'tabular', 'center', 'quote']),
                    reg=rng.choice(['jot', 'jot', 'arraycolsep', 'arrayrulewidth', 'doublerulesep', 'mathindent', 'itemsep', 'fboxrule']),
                    v=rng.choice([5, 12]), write=rng.random() < 0.6, read=rng.random() < 0.7)
    if f == 'numberwithin':
        return dict(a='numberwithin', t=rng.choice(['section', 'equation', 'figure', 'section']), c=rng.choice(['part', 'section', 'part']))
    if f == 'paramreg':
        reg, src = rng.choice([('parskip', 'baselineskip'), ('baselineskip', 'parskip'), ('parskip', 'baselineskip')])
        return dict(a='paramreg', reg=reg, src=src, sign=rng.choice(['', '-']))
    if f == 'labelled':
        return dict(a='labelled', what=rng.choice(['section', 'equation', 'item', 'figure']), n=rng.randint(0, 10 ** 6), w=rng.choice(WORDS))
    if f == 'env':
        return dict(a='env', e=rng.choice(sorted(ENVS)), n=rng.randint(0, 10 ** 6))
    if f == 'openout':
        return dict(a='openout')
    if f == 'newif':
        return dict(a='newif')
    if f == 'newcount':
        return dict(a='newcount', v=rng.randint(1, 9))
    if f == 'ref':
        return dict(a='ref', n=rng.randint(0, 10 ** 6), star=False)
    if f == 'verse':
        return dict(a='verse', opt=False)
    return dict(a='text', w=rng.choice(WORDS))


def open_tail(rng, depth=2):
    """material that leaves lists / formulas / boxes open at the end of the input"""
    r = rng.random()
    if r < 0.35:
        inner = [dict(a='text', w='open')] + (open_tail(rng, depth - 1) if depth > 0 and rng.random() < 0.5 else [])
        return [dict(a='list', kind=rng.choice(['itemize', 'enumerate']), body=inner, closed=False)]
    if r < 0.6:
        return [dict(a='math', disp=rng.random() < 0.4, body=[dict(m='sym')], closed=False)]
    if r < 0.8:
        inner = [dict(a='text', w='inbox')] + (open_tail(rng, depth - 1) if depth > 0 and rng.random() < 0.5 else [])
        return [dict(a='math', disp=False, body=[dict(m='sym'), dict(m='box', body=inner, closed=False)], closed=False)]
    return [dict(a='list', kind='itemize', body=[dict(a='text', w='o'), dict(a='math', disp=False, body=[dict(m='sym')], closed=False)], closed=False)]


BASE_FEATS = ['envparam', 'envparam', 'paramreg', 'labelled', 'env', 'env', 'env', 'text', 'text', 'param', 'setlen', 'read', 'read', 'list', 'list', 'math', 'math', 'macro', 'section', 'index', 'tabular',
              'openout', 'newif', 'newcount', 'ref']


def rand_doc(rng, allow_open=True, role='A', allow_file=True):
    cls = rng.choice(['article', 'book', 'book', 'report', 'report'])
    pkgs = []
    feats = list(BASE_FEATS)
    if rng.random() < 0.3:
        pkgs.append('ifthen')
        feats += ['ifthen', 'ifthen']
    if rng.random() < 0.2:
        pkgs.append('hyperref')
    if rng.random() < 0.12:
        pkgs.append('verse')
        feats.append('verse')
    if rng.random() < 0.08:
        pkgs.append(['natbib', 'sectionbib'])
    if rng.random() < 0.2:
        pkgs.append(rng.choice(['vfcoltype', 'vfcoltyper', 'vfcoltypey', 'vfcoltypeyb', 'vfcoltypeyc', 'vfcoltypezb', 'vfcoltypezw']))
    if rng.random() < 0.15:
        pkgs.append('amsmath')
        feats += ['numberwithin', 'numberwithin', 'section', 'section']
    body = rand_atoms(rng, 2, feats, rng.randint(2, 6))
    body = [a for a in body if not (a['a'] == 'numberwithin' and a['t'] == a['c'])]
    if any(a['a'] == 'numberwithin' for a in body) and rng.random() < 0.25:
        body.insert(0, dict(a='appendix'))
    if any(a['a'] == 'numberwithin' for a in body):
        body.append(dict(a='section', t=rng.choice(WORDS)))
    if any(a['a'] == 'index' for a in body) and rng.random() < 0.8:
        body.append(dict(a='printindex'))
    end = True
    if allow_open and rng.random() < 0.3:
        body += open_tail(rng)
        end = False
    doc = dict(cls=cls, pkgs=pkgs, body=body, end=end)
    if allow_file and rng.random() < 0.15:
        # processed from a file in a directory of its own; \input{defs} finds defs.tex next to the file or in the working directory
        doc.update(file=rng.choice(['da', 'db', 'dc']), input='defs', owndefs=rng.random() < 0.5)
        doc['body'].append(dict(a='who'))
    return doc


def D(cls, body, pkgs=(), end=True, **kw):
    d = dict(cls=cls, pkgs=list(pkgs), body=body, end=end)
    d.update(kw)
    return d


def txt(w='word'):
    return dict(a='text', w=w)


def hand_cases():
    """one sequence per cell class named in the property (and per defect seen at design time)"""
    rd = lambda r: dict(a='readcount' if REGS[r][1] == 'count' else 'readdim', reg=r)   # noqa
    lst = lambda body, closed=True, kind='itemize': dict(a='list', kind=kind, body=body, closed=closed)   # noqa
    mth = lambda body, closed=True, disp=False: dict(a='math', disp=disp, body=body, closed=closed)   # noqa
    sym = dict(m='sym')
    B_regs = D('report', [rd('tolerance'), rd('parindent'), rd('parskip'), rd('tabcolsep'), rd('hbadness')])
    B_lists = D('report', [lst([txt('a'), lst([txt('b'), dict(a='ref', n=1)], kind='enumerate')], kind='enumerate'), mth([sym]), txt('tail')])
    B_index = D('book', [dict(a='raw', s='\\chapter{One}'), dict(a='section', t='S'), dict(a='index', w='apple'), txt('x'), dict(a='printindex')])
    out = []
    out.append(('register-param', [D('report', [dict(a='param', reg='tolerance', v=500), dict(a='param', reg='parindent', v=5)])], B_regs))
    out.append(('register-setlength', [D('book', [dict(a='setlen', reg='parskip', v=3), dict(a='setlen', reg='parindent', v=9)])], B_regs))
    out.append(('class-patch-article-then-book', [D('article', [txt('a'), dict(a='index', w='k'), dict(a='printindex')])], B_index))
    out.append(('open-list', [D('report', [lst([txt('a'), lst([txt('b')], closed=False)], closed=False)], end=False)], B_lists))
    out.append(('open-math', [D('report', [txt('a'), mth([sym], closed=False)], end=False)], B_lists))
    out.append(('open-display', [D('report', [txt('a'), mth([sym], closed=False, disp=True)], end=False)], B_lists))
    out.append(('open-box-in-math', [D('report', [mth([sym, dict(m='box', body=[txt('t'), mth([sym], closed=False)], closed=False)], closed=False)], end=False)], B_lists))
    out.append(('openout-any', [D('report', [dict(a='openout'), txt('x')])], D('report', [dict(a='param', reg='tolerance', v=7), rd('tolerance')])))
    out.append(('ifthen', [D('report', [dict(a='ifthen'), mth([sym])], pkgs=['ifthen'])], D('report', [dict(a='raw', s='\\(x\\) '), txt('y')])))
    out.append(('hyperref-then-plain', [D('report', [dict(a='ref', n=1, star=True)], pkgs=['hyperref'])], D('report', [dict(a='ref', n=2, star=True)])))
    out.append(('plain-then-hyperref', [D('report', [dict(a='ref', n=1)])], D('report', [dict(a='ref', n=2, star=True)], pkgs=['hyperref'])))
    out.append(('verse-then-plain', [D('report', [dict(a='verse', opt=True)], pkgs=['verse'])], D('report', [dict(a='verse', opt=True)])))
    out.append(('tabular-class-token', [D('report', [dict(a='tabular', spec='lc')])], D('report', [dict(a='tabular', spec='rl'), txt('t')])))
    out.append(('coltype-registry', [D('report', [dict(a='tabular', spec='Zl')], pkgs=['vfcoltype'])], D('report', [dict(a='tabular', spec='Zl')])))
    out.append(('natbib-sectionbib', [D('book', [txt('a')], pkgs=[['natbib', 'sectionbib']])], D('book', [txt('b')])))
    env = lambda e, n: dict(a='env', e=e, n=n)   # noqa
    out.append(('base-class-then-subclass-locals', [D('report', [env('eqnarray*', 1)])], D('report', [env('eqnarray', 2), txt('t')])))
    out.append(('subclass-then-base-class-locals', [D('report', [env('eqnarray', 1)])], D('report', [env('eqnarray*', 2), env('eqnarray', 3)])))
    out.append(('starred-environments', [D('report', [env('tabular*', 1), env('figure*', 2), env('table*', 3), env('array', 4), env('displaymath', 5)])],
                D('report', [dict(a='tabular', spec='lc'), env('figure', 6), env('table', 7), env('equation', 8), env('array', 9)])))
    out.append(('coltype-redefined-by-B', [D('report', [dict(a='tabular', spec='lZ')], pkgs=['vfcoltype'])],
                D('report', [dict(a='tabular', spec='|l|Z|')], pkgs=['vfcoltyper'])))
    out.append(('coltype-redefined-with-fewer-keys', [D('report', [dict(a='tabular', spec='lY')], pkgs=['vfcoltypeyb'])],
                D('report', [dict(a='tabular', spec='lY')], pkgs=['vfcoltypeyc'])))
    out.append(('coltype-redefined-with-other-keys', [D('report', [dict(a='tabular', spec='Zl')], pkgs=['vfcoltypezb'])],
                D('report', [dict(a='tabular', spec='|l|Z|')], pkgs=['vfcoltypezw'])))
    out.append(('coltype-other-letter-in-B', [D('report', [dict(a='tabular', spec='lZ')], pkgs=['vfcoltype'])],
                D('report', [dict(a='tabular', spec='lY')], pkgs=['vfcoltypey'])))
    preg = lambda r, sr, sg='': dict(a='paramreg', reg=r, src=sr, sign=sg)   # noqa
    lab = lambda what, n, w='first': dict(a='labelled', what=what, n=n, w=w)   # noqa
    out.append(('glue-from-register', [D('report', [preg('parskip', 'baselineskip'), txt('a'), preg('parskip', 'baselineskip', '-')])],
                D('report', [dict(a='param', reg='tolerance', v=7), rd('tolerance'), rd('parskip')])))
    out.append(('glue-from-register-2', [D('book', [preg('baselineskip', 'parskip'), lst([txt('a')])])], B_regs))
    out.append(('upfront-glue-from-register', [D('report', [preg('parskip', 'baselineskip', '-'), txt('a')])],
                D('report', [dict(a='param', reg='tolerance', v=7), rd('tolerance')]), dict(schedule='upfront')))
    out.append(('upfront-closed', [D('report', [lst([txt('a')]), mth([sym]), dict(a='param', reg='hbadness', v=3)])], B_lists, dict(schedule='upfront')))
    out.append(('upfront-open-list', [D('report', [lst([txt('a')], closed=False)], end=False)], B_lists, dict(schedule='upfront')))
    out.append(('upfront-open-math', [D('report', [mth([sym], closed=False)], end=False)], B_lists, dict(schedule='upfront')))
    out.append(('rendered-labels-1', [D('report', [lab('section', 1, 'first'), lab('figure', 2, 'one')])],
                D('report', [lab('equation', 3), lab('item', 4)]), dict(render=True)))
    out.append(('rendered-labels-2', [D('article', [lab('figure', 1, 'one'), lab('section', 2, 'second')]), D('book', [lab('item', 5)])],
                D('book', [lab('item', 3), lab('equation', 4), lab('section', 6, 'own')]), dict(render=True)))
    ep = lambda e, reg, v=None, read=False: dict(a='envparam', e=e, reg=reg, v=v or 0, write=v is not None, read=read)   # noqa
    out.append(('register-inside-environment', [D('report', [ep('eqnarray', 'jot', 12), ep('tabular', 'arrayrulewidth', 5), ep('eqnarray*', 'arraycolsep', 12)])],
                D('report', [ep('eqnarray', 'jot', None, True), ep('tabular', 'arrayrulewidth', None, True), ep('eqnarray*', 'arraycolsep', None, True)])))
    nw = lambda t, c: dict(a='numberwithin', t=t, c=c)   # noqa
    secs = [dict(a='section', t='one'), dict(a='labelled', what='section', n=9, w='two')]
    out.append(('numberwithin-then-article', [D('article', [nw('section', 'part')] + secs, pkgs=['amsmath'])], D('article', secs)))
    out.append(('numberwithin-then-book', [D('book', [nw('section', 'part'), nw('equation', 'section')] + secs, pkgs=['amsmath'])],
                D('book', [dict(a='raw', s='\\chapter{C}')] + secs + [dict(a='env', e='equation', n=3)])))
    out.append(('appendix-numberwithin', [D('article', [dict(a='appendix'), nw('section', 'part')] + secs, pkgs=['amsmath'])],
                D('article', [dict(a='appendix')] + secs)))
    out.append(('input-own-defs-then-shared', [D('report', [dict(a='who'), txt('a')], file='da', input='defs', owndefs=True)],
                D('report', [dict(a='who'), txt('b')], file='db', input='defs', owndefs=False)))
    out.append(('input-shared-then-string', [D('report', [dict(a='who')], file='da', input='defs', owndefs=False)],
                D('report', [dict(a='who')], input='defs')))
    out.append(('natbib-citealias', [D('report', [dict(a='citealias', k='k'), txt('x')], pkgs=['natbib'])],
                D('report', [dict(a='raw', s='\\citetalias{k} '), txt('y')], pkgs=['natbib'])))
    out.append(('newif-newcount', [D('report', [dict(a='newif'), dict(a='newcount', v=4)])], D('report', [dict(a='newif'), dict(a='newcount', v=6)])))
    out.append(('twice', [B_lists], B_lists))
    out.append(('twice-regs', [D('report', [dict(a='param', reg='tolerance', v=3), rd('tolerance')])],
                D('report', [dict(a='param', reg='tolerance', v=3), rd('tolerance')])))
    out.append(('four-then-b', [D('report', [dict(a='param', reg='hbadness', v=7)]), D('book', [lst([txt('a')], closed=False)], end=False),
                                D('report', [mth([sym], closed=False)], end=False), D('report', [dict(a='setlen', reg='topsep', v=5)])],
                D('book', [rd('hbadness'), rd('topsep'), lst([txt('x')]), mth([sym])])))
    return out


def beamer_cases():
    B = D('article', [dict(a='bold', w='x', overlay=True), dict(a='section', t='S')])
    return [('beamer-then-article', [D('beamer', [dict(a='raw', s='\\begin{frame}\\frametitle{T} a \\end{frame}')])], B),
            ('article-then-beamer', [D('article', [dict(a='bold', w='x')])],
             D('beamer', [dict(a='raw', s='\\begin{frame}'), dict(a='bold', w='x', overlay=True), dict(a='raw', s='\\end{frame}')]))]


def small_pool():
    rd = lambda r: dict(a='readcount' if REGS[r][1] == 'count' else 'readdim', reg=r)   # noqa
    sym = dict(m='sym')
    pool = [
        D('article', [txt('a')]),
        D('book', [txt('a'), dict(a='section', t='s')]),
        D('report', [dict(a='param', reg='tolerance', v=500), rd('tolerance')]),
        D('book', [dict(a='setlen', reg='parindent', v=5), rd('parindent')]),
        D('article', [rd('tolerance'), rd('parindent')]),
        D('report', [dict(a='list', kind='enumerate', body=[txt('i'), dict(a='ref', n=1)], closed=True)]),
        D('report', [dict(a='list', kind='itemize', body=[txt('i')], closed=False)], end=False),
        D('report', [dict(a='math', disp=False, body=[sym], closed=True), dict(a='math', disp=True, body=[sym], closed=True)]),
        D('report', [dict(a='math', disp=False, body=[sym], closed=False)], end=False),
        D('book', [dict(a='math', disp=True, body=[sym, dict(m='box', body=[txt('t')], closed=False)], closed=False)], end=False),
        D('report', [dict(a='ifthen'), dict(a='raw', s='\\(x\\) ')], pkgs=['ifthen']),
        D('book', [dict(a='index', w='k'), dict(a='printindex')]),
        D('report', [dict(a='tabular', spec='lc')]),
        D('report', [dict(a='ref', n=1)], pkgs=['hyperref']),
        D('report', [dict(a='openout'), dict(a='param', reg='hbadness', v=3), rd('hbadness')]),
        D('report', [dict(a='env', e='eqnarray*', n=1), dict(a='env', e='tabular*', n=2)]),
        D('report', [dict(a='env', e='eqnarray', n=3), dict(a='env', e='figure', n=4)]),
        D('report', [dict(a='tabular', spec='|l|Z|')], pkgs=['vfcoltyper']),
        D('report', [dict(a='tabular', spec='lZ')], pkgs=['vfcoltype']),
        D('report', [dict(a='tabular', spec='lY')], pkgs=['vfcoltypeyb']),
        D('report', [dict(a='tabular', spec='lY')], pkgs=['vfcoltypeyc']),
    ]
    return pool


def streams(rng, tier, boost):
    out = []
    for h in hand_cases():
        name, As, B = h[:3]
        out.append(('hand', dict(dict(kind='seq', name=name, docs=As, B=B), **(h[3] if len(h) > 3 else {}))))
    for name, As, B in beamer_cases():
        out.append(('beamer', dict(kind='seq', name=name, docs=As, B=B)))
    pool = small_pool()
    pairs = [(i, j) for i in range(len(pool)) for j in range(len(pool))]
    if tier == 'quick' and boost == 1:
        rng.shuffle(pairs)
        pairs = pairs[:120]
    for i, j in pairs:
        out.append(('exhaustive-pairs', dict(kind='seq', name='pair-%d-%d' % (i, j), docs=[pool[i]], B=pool[j])))
    n = (260 if tier == 'quick' else 4000) * boost
    for i in range(n):
        k = rng.choice([1, 1, 2, 2, 3, 4])
        As = [rand_doc(rng) for _ in range(k)]
        B = rand_doc(rng, allow_open=rng.random() < 0.3, role='B')
        out.append(('random', dict(kind='seq', name='rnd', docs=As, B=B)))
    for i in range((80 if tier == 'quick' else 800) * boost):
        k = rng.choice([1, 2, 3])
        As = [rand_doc(rng) for _ in range(k)]
        B = rng.choice(As)
        out.append(('twice', dict(kind='seq', name='twice', docs=As, B=B)))
    for i in range((50 if tier == 'quick' else 500) * boost):
        junk = rng.choice(['\\end{itemize} ', '} ', '\\begin{center} ', '\\fi ', '{ ', '$ $ $ ', '\\item x ', '\\mbox{ ', '\\right) '])
        A = rand_doc(rng)
        A['body'].insert(rng.randint(0, len(A['body'])), dict(a='raw', s=junk))
        out.append(('malformed', dict(kind='seq', name='malformed', docs=[A], B=rand_doc(rng, allow_open=False), malformed=True)))
    # documents constructed up front (TeXDocument and TeX objects of all documents exist before the first is processed)
    for i in range((30 if tier == 'quick' else 400) * boost):
        k = rng.choice([1, 1, 2, 3])
        out.append(('upfront', dict(kind='seq', name='upfront', schedule='upfront', docs=[rand_doc(rng, allow_open=rng.random() < 0.5) for _ in range(k)],
                                    B=rand_doc(rng, allow_open=False))))
    # rendered runs: HTML5 files and the cross-reference data (.paux) written for B
    lab_feats = ['labelled', 'labelled', 'labelled', 'text', 'env', 'param', 'read', 'list', 'math', 'index', 'tabular']
    for i in range((16 if tier == 'quick' else 240) * boost):
        def rdoc():
            return dict(cls=rng.choice(['article', 'book', 'report', 'report']), pkgs=[], body=rand_atoms(rng, 1, lab_feats, rng.randint(2, 5)), end=True)
        out.append(('rendered', dict(kind='seq', name='rendered', render=True, docs=[rdoc() for _ in range(rng.choice([1, 1, 2]))], B=rdoc())))
    if tier == 'thorough':
        for name, As, B in [h[:3] for h in hand_cases()[:8]]:
            out.append(('exec-crosscheck', dict(kind='seq', name=name, docs=As, B=B, exec_alone=True)))
        for i in range(40):
            out.append(('exec-crosscheck', dict(kind='seq', name='rnd', docs=[rand_doc(rng, allow_file=False)],
                                                B=rand_doc(rng, allow_open=False, allow_file=False), exec_alone=True)))
    return out


def search_streams(rng, tier):
    return [('search', dict(kind='seq', name='search', docs=[rand_doc(rng) for _ in range(rng.choice([1, 2, 3]))], B=rand_doc(rng, allow_open=False)))
            for _ in range(150)]


def describe(case):
    d = dict(name=case.get('name'), sequence=[source(d) for d in case['docs']], B=source(case['B']))
    if case.get('schedule'):
        d['schedule'] = 'all TeXDocument/TeX objects are constructed before the first document is processed'
    if case.get('render'):
        d['render'] = 'every document is rendered with HTML5 in its own directory; B is compared by tree, HTML files and .paux'
    return d


# ---------------------------------------------------------------------------------------------------------------------
# implementation side (runs in children forked from the pristine worker)

def worker_init():
    import texrun
    texrun.quiet()
    load_cells()


def _rep(v, depth=0):
    import types
    if isinstance(v, bool) or v is None:
        return repr(v)
    if isinstance(v, (int, float)):
        if type(v).__name__ in ('dimen', 'glue', 'mudimen', 'muglue', 'count', 'number'):
            try:
                return '%s:%s' % (type(v).__name__, v.source)
            except Exception:
                return '%s:%r' % (type(v).__name__, float(v))
        return repr(v)
    if isinstance(v, str):
        return repr(v)
    if isinstance(v, (list, tuple)):
        return '[' + ','.join(_rep(x, depth + 1) for x in v) + ']' if depth < 3 else '[..%d]' % len(v)
    if isinstance(v, dict):
        if depth >= 3:
            return '{..%d}' % len(v)
        return '{' + ','.join('%s:%s' % (_rep(k, depth + 1), _rep(x, depth + 1)) for k, x in sorted(v.items(), key=lambda kv: repr(kv[0]))) + '}'
    if isinstance(v, (set, frozenset)):
        return 'set(' + ','.join(sorted(_rep(x, depth + 1) for x in v)) + ')'
    if isinstance(v, type):
        return '<class %s.%s>' % (v.__module__, v.__qualname__)
    if isinstance(v, (types.FunctionType, types.MethodType, types.BuiltinFunctionType, classmethod, staticmethod, property)):
        return '<callable>'
    if isinstance(v, types.ModuleType):
        return '<module %s>' % v.__name__
    nn = getattr(v, 'nodeName', None)
    if isinstance(nn, str):
        return '<node %s>' % nn
    if type(v).__name__ == 'Argument' and depth < 4:
        return 'Arg(%s,%s)' % (getattr(v, 'name', '?'), _rep(getattr(v, 'options', None), depth + 1))
    return '<%s>' % type(v).__name__


SWEEP_SKIP_MODULES = ('plasTeX.Logging',)


def sweep():
    """every own attribute of every class of every loaded plasTeX module, every module-level non-callable; the environment variable
    TeX.kpsewhich writes"""
    import types
    snap = {'plasTeX.TeX:os.environ[TEXINPUTS]': repr(os.environ.get('TEXINPUTS'))}
    for mname, mod in sorted(sys.modules.items()):
        if mod is None or not (mname == 'plasTeX' or mname.startswith('plasTeX.')) or mname in SWEEP_SKIP_MODULES:
            continue
        if mname.startswith('plasTeX.Renderers.PageTemplate.simpletal'):
            continue

        def defaults(f, name):
            f = getattr(f, '__func__', f)
            if isinstance(f, types.FunctionType):
                dv = list(f.__defaults__ or ()) + list((f.__kwdefaults__ or {}).values())
                mut = [x for x in dv if isinstance(x, (list, dict, set))]
                if mut:
                    snap[name + '.<defaults>'] = _rep(mut)

        def klass(c, q):
            for ak, av in list(vars(c).items()):
                defaults(av, '%s:%s.%s' % (mname, q, ak))
                if ak.startswith('__') and ak.endswith('__'):
                    continue
                if isinstance(av, type) and av.__qualname__.startswith(c.__qualname__ + '.'):
                    klass(av, q + '.' + ak)
                    continue
                snap['%s:%s.%s' % (mname, q, ak)] = _rep(av)
        for k, v in list(vars(mod).items()):
            if k.startswith('__'):
                continue
            if isinstance(v, types.FunctionType) and v.__module__ == mname:
                defaults(v, '%s:%s' % (mname, k))
            if isinstance(v, type):
                if v.__module__ == mname and v.__qualname__ == k:
                    klass(v, k)
            elif not isinstance(v, (types.ModuleType, types.FunctionType, types.BuiltinFunctionType)):
                snap['%s:%s' % (mname, k)] = _rep(v)
    return snap


def short_of(full):
    from translate import global_cells
    return global_cells.short_name(full)


def tracker_raw():
    """raw values of the modelled trackers, in the Model's encoding"""
    import plasTeX
    from plasTeX.Base.LaTeX.Lists import List
    from plasTeX.Base.LaTeX.Math import BeginMath, EndMath
    from plasTeX.Base.TeX.Primitives import MathShift
    env = []
    for x in reversed(MathShift.inEnv):
        env.append(0 if x is None else (1 if getattr(x, 'nodeName', '') == 'math' else 2))
    return {'ParameterCommand._enablelevel': plasTeX.ParameterCommand._enablelevel,
            'ParameterCommand.enabled': 1 if plasTeX.ParameterCommand.enabled else 0,
            'List.depth': List.depth, 'MathShift.inEnv': env,
            'BeginMath.disableMath': 1 if BeginMath.disableMath else 0, 'EndMath.disableMath': 1 if EndMath.disableMath else 0}


def reg_raw(doc, regs):
    """values of the registers as the document that was just processed sees them (what its assignments wrote)"""
    out = {}
    for r in regs:
        member, kind, d = REGS[r]
        cls = doc.context.contexts[0].get(r)
        v = cls.value
        out[r] = int(v) if kind == 'count' else int(round(float(v)))
    return out


def canon_xml(x):
    ids = {}

    def sub(m):
        return ids.setdefault(m.group(0), 'id%d' % (len(ids) + 1))
    return re.sub(r'\ba\d{10}\b', sub, x)


def file_layout(doc, src):
    """<work>/defs.tex (shared), <work>/<dir>/main.tex and, for a document with its own definitions, <work>/<dir>/defs.tex.
    <work> depends on the worker only, so that the sequence and B alone see the same absolute names"""
    work = os.path.join(VERIF, 'build', 'C17', 'files', str(os.getppid()))
    os.makedirs(work, exist_ok=True)
    with open(os.path.join(work, 'defs.tex'), 'w') as f:
        f.write('\\newcommand{\\who}{shared}\n')
    if doc.get('file'):
        dd = os.path.join(work, doc['file'])
        os.makedirs(dd, exist_ok=True)
        with open(os.path.join(dd, 'main.tex'), 'w') as f:
            f.write(src)
        own = os.path.join(dd, 'defs.tex')
        if doc.get('owndefs'):
            with open(own, 'w') as f:
                f.write('\\newcommand{\\who}{own-%s}\n' % doc['file'])
        elif os.path.exists(own):
            os.remove(own)
    return work


def build_objects(doc, pkgdir):
    from plasTeX.TeX import TeX, TeXDocument
    d = TeXDocument()
    d.config['general']['packages-dirs'] = [pkgdir]
    d.userdata['working-dir'] = pkgdir
    return d, TeX(d)


_RENDER_N = [0]


def process_one(doc, pkgdir, prebuilt=None, render=False):
    """-> (status, observation of the result or message, TeXDocument)"""
    if render:
        return process_rendered(doc, pkgdir)
    src = source(doc)
    cwd = os.getcwd()
    work = None
    if doc.get('input') or doc.get('file'):
        work = file_layout(doc, src)
    if doc.get('file'):
        from plasTeX.TeX import TeX
        d = (prebuilt or build_objects(doc, pkgdir))[0]
        os.chdir(work)
        tex = TeX(d, file=os.path.join(doc['file'], 'main.tex'))
    else:
        d, tex = prebuilt or build_objects(doc, pkgdir)
        if work:
            os.chdir(work)
        tex.input(src)
    try:
        try:
            tex.parse()
        finally:
            os.chdir(cwd)
    except Exception as e:    # the document is not processed to completion
        return 'raise', '%s: %s' % (type(e).__name__, str(e)[:120]), d
    try:
        return 'ok', canon_xml(d.toXML()), d
    except Exception as e:
        return 'xmlraise', '%s: %s' % (type(e).__name__, str(e)[:120]), d


def process_rendered(doc, pkgdir):
    """parse and render with HTML5 in a directory of its own; the result = tree + HTML files + the .paux the run writes"""
    import pickle
    import shutil
    from plasTeX import TeXDocument
    from plasTeX.TeX import TeX
    from plasTeX.Config import defaultConfig
    from plasTeX.Renderers.HTML5 import Renderer
    from plasTeX.Renderers.HTML5.Config import addConfig
    _RENDER_N[0] += 1
    out = os.path.join(VERIF, 'build', 'C17', 'render', '%d-%d' % (os.getpid(), _RENDER_N[0]))
    shutil.rmtree(out, ignore_errors=True)
    os.makedirs(out)
    cwd = os.getcwd()
    config = defaultConfig()
    addConfig(config)
    config['images']['imager'] = 'none'
    config['images']['vector-imager'] = 'none'
    config['files']['log'] = False
    config['general']['copy-theme-extras'] = False
    config['general']['packages-dirs'] = [pkgdir]
    d = TeXDocument(config=config)
    d.userdata['jobname'] = 'job'
    d.userdata['working-dir'] = out
    tex = TeX(d)
    tex.input(source(doc))
    os.chdir(out)
    try:
        try:
            tex.parse()
            xml = canon_xml(d.toXML())
            Renderer().render(d)
        except Exception as e:
            return 'raise', '%s: %s' % (type(e).__name__, str(e)[:120]), d
        os.chdir(out)
        lines = [xml, '--- cross-reference data written by the run (job.paux)']
        if os.path.exists('job.paux'):
            with open('job.paux', 'rb') as fh:
                data = pickle.load(fh)
            lines.append(canon_xml(json.dumps(data, sort_keys=True, default=repr, indent=0)))
        else:
            lines.append('<no .paux>')
        lines.append('--- files')
        for f in sorted(os.listdir('.')):
            if f.endswith('.html'):
                body = canon_xml(open(f, encoding='utf8', errors='replace').read())
                lines.append('%s %s' % (canon_xml(f), hashlib.sha256(body.encode()).hexdigest()[:16]))
        return 'ok', '\n'.join(lines), d
    finally:
        os.chdir(cwd)
        shutil.rmtree(out, ignore_errors=True)


def fresh_view():
    """the cells as a new document sees them: create a TeXDocument (which is what resets per-document state), then look"""
    from plasTeX.TeX import TeXDocument
    TeXDocument()
    return sweep()


def case_modules(case):
    """the package / class modules the documents of the case load"""
    mods = []
    for d in case['docs'] + [case['B']]:
        for n in [d['cls']] + [p[0] if isinstance(p, (list, tuple)) else p for p in d.get('pkgs', [])]:
            if n not in mods:
                mods.append(n)
    return mods


def child_baseline(mods, pkgdir):
    """import-time values of the cells of the given package modules (and of what they import), in a pristine interpreter:
    the modules are imported one by one, each one's new cells are recorded right after its import"""
    import importlib
    s0 = fresh_view()
    known_mods = {k.split(':')[0] for k in s0}
    base = {}
    sys.path.insert(0, pkgdir)
    for m in mods:
        try:
            importlib.import_module('plasTeX.Packages.' + m)
        except ImportError:
            try:
                importlib.import_module(m)
            except ImportError:
                continue
        s1 = sweep()
        for k, v in s1.items():
            mod = k.split(':')[0]
            if mod not in known_mods:
                base[k] = v
        known_mods |= {k.split(':')[0] for k in s1}
    return base


_BASELINES = {}


def baseline_for(case, pkgdir):
    mods = case_modules(case)
    out = {}
    for m in mods:
        if m not in _BASELINES:
            _BASELINES[m] = in_child(child_baseline, [m], pkgdir)
        b = _BASELINES[m]
        if isinstance(b, dict) and 'harness_error' not in b:
            for k, v in b.items():
                out.setdefault(k, v)
    return out


def child_sequence(case, pkgdir, baseline=None):
    names, regs = used_cells(case)
    out = dict(raw=[], status=[], leaks=[], unlisted=[])
    upfront = case.get('schedule') == 'upfront'
    render = bool(case.get('render'))
    s_init = fresh_view()
    for k, v in (baseline or {}).items():
        s_init.setdefault(k, v)
    mods_init = {k.split(':')[0] for k in s_init}
    from plasTeX.TeX import TeXDocument
    probe = TeXDocument()
    out['raw0'] = dict(tracker_raw(), **reg_raw(probe, regs))
    docs = case['docs'] + [case['B']]
    built = [build_objects(d, pkgdir) for d in docs] if upfront else [None] * len(docs)

    def view():
        # normal schedule: the interpreter as the next document sees it (its TeXDocument is created first);
        # documents constructed up front: nothing is created between two documents
        return sweep() if upfront else fresh_view()
    bxml = None
    for i, d in enumerate(docs):
        st, x, td = process_one(d, pkgdir, prebuilt=built[i], render=render)
        out['status'].append(st if st == 'ok' else '%s %s' % (st, x))
        out['raw'].append(dict(tracker_raw(), **reg_raw(td, regs)))
        if i == len(docs) - 1:
            bxml = x if st == 'ok' else None
        if i == len(docs) - 2:
            out['leaks'], out['unlisted'] = diff_cells(s_init, view(), mods_init, skip_trackers=upfront)
    # after B as well (processing B is processing a document)
    last = view()
    out['leaks_after_B'], out['unlisted_after_B'] = diff_cells(s_init, last, mods_init, skip_trackers=upfront)
    out['bxml'] = bxml
    out['memo'] = memo_view(last)
    return out


IGNORED_ATTRS = ('@arguments', '@locals')


def diff_cells(s0, s1, mods_init, skip_trackers=False):
    listed = {}
    for c in load_cells()['cells']:
        listed[c['name']] = c
    fam_attrs = {}
    for c in load_cells()['cells']:
        if c['family'] and ':' in c['name']:
            fam_attrs.setdefault(c['name'].rsplit('.', 1)[1], []).append(c)
    leaks, unlisted = [], []
    mods_now = {k.split(':')[0] for k in s1}
    for k in sorted(set(s0) | set(s1)):
        if s0.get(k) == s1.get(k):
            continue
        mod = k.split(':')[0]
        attr = k.rsplit('.', 1)[1] if '.' in k.split(':', 1)[1] else k.split(':', 1)[1]
        if attr in IGNORED_ATTRS:
            continue
        if mod not in mods_init:
            continue        # a module imported by a document for which we have no import-time baseline: nothing to compare with
        if mod not in mods_now:
            continue        # known from the baseline, not imported (yet) in this interpreter
        c = listed.get(k)
        if c is None and attr in fam_attrs:
            c = fam_attrs[attr][0]
        if c is None and attr == '_mixed_':
            # the bookkeeping dictionary of Renderers.mixin / unmix (row mixin-base.*): renderer phase.  unmix(base, mix) takes the
            # mixed-in attributes away again but leaves their entries in base._mixed_ (observation, no effect on a later run)
            c = next((x for x in load_cells()['cells'] if x['name'].startswith('mixin-base')), None)
        short = short_of(k)
        if c is not None and c['iso'] in ('env', 'render'):
            continue
        if skip_trackers and short in TRACKERS:
            continue        # judged through the raw values (no new document is created between two documents of this schedule)
        item = '%s (%s -> %s)' % (short, (s0.get(k) or 'absent')[:40], (s1.get(k) or 'absent')[:40])
        if c is None:
            unlisted.append(item)
        leaks.append(item)
    return leaks, unlisted


def memo_view(snap=None):
    """the per-class caches (@locals, @arguments) as OWNED by each class (vars(cls), never inherited): key -> digest"""
    out = {}
    for k, v in (snap if snap is not None else sweep()).items():
        attr = k.rsplit('.', 1)[1] if '.' in k.split(':', 1)[1] else ''
        if attr in IGNORED_ATTRS:
            out[k] = hashlib.sha256(v.encode()).hexdigest()[:12]
    return out


def child_alone(case, pkgdir):
    st, x, td = process_one(case['B'], pkgdir, render=bool(case.get('render')))
    return dict(status=st if st == 'ok' else '%s %s' % (st, x), bxml=x if st == 'ok' else None, memo=memo_view())


def in_child(fn, *args):
    """run fn(*args) in a forked child of this (pristine) process and return its JSON-able result"""
    import signal
    r, w = os.pipe()
    pid = os.fork()
    if pid == 0:
        try:
            os.close(r)
            signal.alarm(0)
            signal.signal(signal.SIGALRM, signal.SIG_DFL)
            signal.alarm(CASE_TIMEOUT - 5)
            try:
                res = fn(*args)
            except BaseException as e:   # noqa
                import traceback
                res = dict(harness_error='%s: %s' % (type(e).__name__, e), tb=traceback.format_exc()[-800:])
            with os.fdopen(w, 'w') as f:
                json.dump(res, f)
        finally:
            os._exit(0)
    os.close(w)
    try:
        with os.fdopen(r) as f:
            data = f.read()
    finally:
        try:
            os.waitpid(pid, 0)
        except ChildProcessError:
            pass
    if not data:
        return dict(harness_error='child died (timeout or crash)')
    return json.loads(data)


def ensure_pkgdir():
    d = os.path.join(VERIF, 'build', 'C17', PKG_DIRNAME)
    os.makedirs(d, exist_ok=True)
    more = [(k, COLTYPE_TMPL % (v[0], v[1])) for k, v in sorted(COLTYPE_MORE.items())]
    for name, text in [('vfcoltype', COLTYPE_PKG), ('vfcoltyper', COLTYPE_PKG_R), ('vfcoltypey', COLTYPE_PKG_Y)] + more:
        p = os.path.join(d, name + '.py')
        if not os.path.exists(p) or open(p).read() != text:
            tmp = p + '.%d' % os.getpid()
            open(tmp, 'w').write(text)
            os.replace(tmp, p)
    return d


def exec_alone(case, pkgdir):
    import subprocess
    code = ('import sys, json; sys.path.insert(0, %r); sys.path.insert(0, %r)\n'
            'import texrun; texrun.quiet()\n'
            'from props import C17\n'
            'print(json.dumps(C17.child_alone(json.loads(sys.stdin.read()), %r)))\n') % (
                os.path.join(VERIF, 'harness'), REPO, pkgdir)
    env = dict(os.environ, PYTHONPATH=REPO, PYTHONHASHSEED='0', VERIF_REPO=REPO)
    p = subprocess.run(['/venv/bin/python', '-c', code], input=json.dumps(case), stdout=subprocess.PIPE, stderr=subprocess.PIPE,
                       text=True, timeout=CASE_TIMEOUT - 5, env=env, cwd=pkgdir)
    lines = [ln for ln in p.stdout.splitlines() if ln.startswith('{')]
    if not lines:
        return dict(harness_error='exec alone failed: ' + (p.stderr or p.stdout)[-300:])
    return json.loads(lines[-1])


def run_impl(case):
    pkgdir = ensure_pkgdir()
    cwd = os.getcwd()
    os.chdir(pkgdir)
    try:
        seq = in_child(child_sequence, case, pkgdir, baseline_for(case, pkgdir))
        alone = in_child(child_alone, case, pkgdir)
        res = dict(seq=seq, alone=alone)
        if case.get('exec_alone'):
            res['alone_exec'] = exec_alone(case, pkgdir)
    finally:
        os.chdir(cwd)
    # the caches B alone leaves on the classes it used must be owned, with the same content, by the same classes after the sequence
    ma, ms = alone.pop('memo', None), seq.pop('memo', None)
    if isinstance(ma, dict) and isinstance(ms, dict):
        res['memo_diff'] = sorted(short_of(k) + (' (not owned by the class)' if k not in ms else ' (different content)')
                                  for k in ma if ms.get(k) != ma[k])[:8]
    if isinstance(res.get('alone_exec'), dict):
        res['alone_exec'].pop('memo', None)
    # keep the observation small: hashes of the trees, the first difference in clear
    a, b = seq.get('bxml'), alone.get('bxml')
    res['bdiff'] = (a != b)
    if a != b and a is not None and b is not None:
        la, lb = a.split('\n'), b.split('\n')
        for i in range(max(len(la), len(lb))):
            x = la[i] if i < len(la) else '<end>'
            y = lb[i] if i < len(lb) else '<end>'
            if x != y:
                res['first_difference'] = dict(line=i, after=x[:160], alone=y[:160])
                break
    for d in (seq, alone, res.get('alone_exec') or {}):
        if d.get('bxml') is not None:
            d['bxml_sha'] = hashlib.sha256(d['bxml'].encode()).hexdigest()[:16]
            d['bxml_len'] = len(d['bxml'])
            del d['bxml']
    return res


# ---------------------------------------------------------------------------------------------------------------------
# judge

def cell_key(item):
    return 'C17:cell:' + item.split(' (')[0]


def model_raw(case, mo):
    """the Model's dump per document -> list of {name: value} for the trackers and the registers used"""
    names, regs = used_cells(case)
    want = {json.dumps(cell(n)): n for n in TRACKERS}
    for r in regs:
        want[json.dumps(reg_cell(r))] = r
    out = []
    for dump in mo[1]:
        d = {}
        for c, v in dump:
            n = want.get(json.dumps(c))
            if n is not None:
                d[n] = v
        out.append(d)
    return out


def nontrivial(case, io):
    toksB, readsB = doc_tokens(case['B'])
    rb = {json.dumps(t[1]) for t in toksB if isinstance(t, list) and t[0] == 12}
    for d in case['docs']:
        toks, _ = doc_tokens(d)
        for t in toks:
            if isinstance(t, list) and t[0] in (9, 10, 11) and json.dumps(t[1]) in rb:
                return True
        if not d.get('end', True) and rb & {json.dumps(cell('List.depth')), json.dumps(cell('MathShift.inEnv'))}:
            return True
    return False


def tags(case, io):
    t = ['k=%d' % len(case['docs'])]
    if isinstance(io, dict) and 'seq' in io:
        seq = io['seq']
        if seq.get('leaks'):
            t.append('cells-differ-for-B')
        if seq.get('leaks_after_B'):
            t.append('cells-differ-after-B')
        if io.get('bdiff'):
            t.append('B-differs')
        if any(not d.get('end', True) for d in case['docs']):
            t.append('A-ends-open')
        raw = seq.get('raw') or []
        if any(r.get('List.depth') or r.get('MathShift.inEnv') for r in raw[:-1]):
            t.append('tracker-left-set-absorbed' if not seq.get('leaks') else 'tracker-left-set')
        if any(s != 'ok' for s in seq.get('status', [])):
            t.append('some-document-raises')
    return t


def judge(case, io, mo):
    if not isinstance(io, dict) or 'seq' not in io:
        if io == ['hang']:
            return dict(violation=False, key='C17:harness:hang', what='case timed out')
        return dict(violation=False, key='C17:harness', what='no observation: %s' % (io,))
    seq, alone = io['seq'], io['alone']
    for d in (seq, alone, io.get('alone_exec') or {}):
        if d.get('harness_error'):
            return dict(violation=False, key='C17:harness', what='harness error: %s %s' % (d['harness_error'], d.get('tb', '')))
    if io.get('alone_exec') and io['alone_exec'].get('bxml_sha') != alone.get('bxml_sha'):
        return dict(violation=False, key='C17:harness:fork-vs-exec',
                    what='B alone in a forked pristine child and in a freshly exec\'ed interpreter differ (%s vs %s)' % (
                        alone.get('bxml_sha'), io['alone_exec'].get('bxml_sha')))
    status = seq.get('status', [])
    nA = len(case['docs'])
    # the property speaks about documents processed to completion
    if any(s != 'ok' for s in status[:nA]):
        return None
    pv = property_verdict(case, io, mo)
    if pv is not None and pv['key'] not in known_keys():
        return pv
    cv = correspondence_verdict(case, io, mo)
    if cv is not None:
        if pv is not None:
            cv['what'] += ' (the case also shows the recorded finding %s)' % pv['key']
        return cv
    return pv


def property_verdict(case, io, mo):
    seq, alone = io['seq'], io['alone']
    status = seq.get('status', [])
    nA = len(case['docs'])
    known = known_keys()
    leaks = seq.get('leaks', [])
    keys = [cell_key(x) for x in leaks]
    unknown = [k for k in keys if k not in known]
    bdiff = io.get('bdiff')
    model_ok = isinstance(mo, list) and mo[:1] == [0]
    m_attr = model_ok and mo[3] != mo[4]
    what = []
    if leaks:
        shown = [x for x in leaks if cell_key(x) not in known] + [x for x in leaks if cell_key(x) in known]
        what.append('after the completed documents A1..A%d these cells differ from their initial value as the next document sees them: %s' % (
            nA, '; '.join(shown[:6]) + (' ... (%d in all)' % len(shown) if len(shown) > 6 else '')))
    if bdiff:
        what.append('B after the sequence differs from B alone (%s)' % json.dumps(io.get('first_difference') or
                                                                                 dict(after=status[nA:], alone=alone.get('status'))))
    if unknown:
        return dict(violation=True, key=unknown[0], expected='no cell differs; B identical', what=' ; '.join(what))
    # the trackers right after every completed document, before anything new is created
    raw_items = raw_differences(case, io, mo)
    raw_unknown = [x for x in raw_items if x[1] not in known]
    if raw_unknown:
        i, k, txt_ = raw_unknown[0]
        return dict(violation=True, key=k, expected='every tracker has its initial value when a document has been processed',
                    what='; '.join(x[2] for x in raw_unknown[:4]) + (' ; ' + ' ; '.join(what) if what else ''))
    upfront = case.get('schedule') == 'upfront'
    if upfront and bdiff and [x for x in raw_items if x[0] < nA] and doc_uses_trackers(case['B']):
        # documents constructed up front: B starts with the trackers an earlier document left set (the recorded finding)
        x = [x for x in raw_items if x[0] < nA][0]
        return dict(violation=True, key=x[1], expected='B identical', what=x[2] + ' ; ' + ' ; '.join(what))
    beamer = any(d['cls'] == 'beamer' for d in case['docs'] + [case['B']])
    if io.get('memo_diff') and status[nA:] == ['ok'] and alone.get('status') == 'ok':
        md = io['memo_diff']
        what.append('the per-class caches that B alone leaves on the classes it uses are not what the same classes hold after the sequence: %s' % '; '.join(md))
        key = 'C17:stale-arguments-cache' if beamer else 'C17:memo:' + md[0].split(' (')[0]
        return dict(violation=True, key=key, expected='every class owns the cache B alone computes for it', what=' ; '.join(what))
    if bdiff:
        if leaks and not (beamer and not m_attr):
            if m_attr or not model_ok:
                # B reads a cell that differs: attributable to the (listed) cells
                return dict(violation=True, key=keys[0], expected='B identical', what=' ; '.join(what))
            return dict(violation=True, key='C17:result-differs:unattributed', expected='B identical',
                        what=' ; '.join(what) + ' ; by the Model, B reads none of the differing cells')
        if beamer:
            return dict(violation=True, key='C17:stale-arguments-cache', expected='B identical', what=' ; '.join(what))
        return dict(violation=True, key='C17:result-differs:no-cell-differs', expected='B identical', what=' ; '.join(what))
    if leaks:
        return dict(violation=True, key=keys[0], expected='no cell differs', what=' ; '.join(what))
    if seq.get('leaks_after_B'):
        ks = [cell_key(x) for x in seq['leaks_after_B']]
        un = [k for k in ks if k not in known]
        return dict(violation=True, key=(un or ks)[0], expected='no cell differs',
                    what='after B itself these cells differ: %s' % '; '.join(seq['leaks_after_B'][:6]))
    if raw_items:
        return dict(violation=True, key=raw_items[0][1], expected='every tracker has its initial value when a document has been processed',
                    what='; '.join(x[2] for x in raw_items[:4]))
    return None


OPEN_CELLS = ('List.depth', 'MathShift.inEnv')


def doc_is_open(d):
    """does the document end inside a list, a formula or a box?"""
    def walk(atoms):
        for a in atoms:
            if a['a'] == 'list':
                if not a['closed'] or walk(a['body']):
                    return True
            if a['a'] == 'math':
                if not a['closed']:
                    return True
                for m in a['body']:
                    if m['m'] == 'box' and (not m['closed'] or walk(m['body'])):
                        return True
        return False
    return walk(d['body'])


def doc_uses_trackers(d):
    def walk(atoms):
        for a in atoms:
            if a['a'] in ('list', 'math', 'labelled', 'param', 'paramreg', 'readcount', 'readdim'):
                return True
            if a['a'] == 'env' and a['e'] in ('description', 'array'):
                return True
        return False
    return walk(d['body'])


def raw_differences(case, io, mo):
    """-> [(document index, key, text)] for every tracker that differs from its initial value right after a completed document.
    A list or formula that the input leaves open is the recorded finding (key raw-open-at-eof) only when the document really ends
    inside it and the value is exactly what the open constructs account for (the Model's value); anything else is `C17:raw:`."""
    seq = io['seq']
    raw0 = seq.get('raw0') or {}
    status = seq.get('status', [])
    docs = case['docs'] + [case['B']]
    upfront = case.get('schedule') == 'upfront'
    model_ok = isinstance(mo, list) and mo[:1] == [0]
    mraw = model_raw(case, mo) if model_ok else []
    out = []
    for i, r in enumerate(seq.get('raw', [])):
        if i >= len(status) or status[i] != 'ok':
            continue
        for n in TRACKERS:
            if r.get(n) == raw0.get(n):
                continue
            opened = case.get('malformed') or any(doc_is_open(d) for d in (docs[:i + 1] if upfront else [docs[i]]))
            accounted = True
            if not upfront and not case.get('malformed') and model_ok and i < len(mraw):
                accounted = (mraw[i].get(n) == r.get(n))
            ok = n in OPEN_CELLS and opened and accounted
            key = ('C17:raw-open-at-eof:' if ok else 'C17:raw:') + n
            out.append((i, key, 'right after document %d was processed %s is %s (initially %s)' % (i, n, r.get(n), raw0.get(n))))
    return out


def correspondence_verdict(case, io, mo):
    """the bookkeeping of the Model against the real classes (not a statement of the property: violation=False)"""
    seq = io['seq']
    model_ok = isinstance(mo, list) and mo[:1] == [0]
    if not model_ok:
        if isinstance(mo, list) and mo[:1] == [-2]:
            if case.get('malformed'):
                return None
            return dict(violation=False, key='C17:model:raises', what='the Model says document %s raises, the implementation completed' % mo[1:])
        return dict(violation=False, key='C17:model', what='model answer %s' % (mo,))
    if case.get('schedule') == 'upfront':
        return None       # the Model resets at the start of every document; this schedule creates nothing between documents
    if case.get('malformed') or any(d['cls'] == 'beamer' for d in case['docs'] + [case['B']]):
        return None       # outside the transcription (the junk token is modelled as a plain character; beamer's frames are not modelled)
    if any(s != 'ok' for s in seq.get('status', [])):
        return None
    mraw = model_raw(case, mo)
    iraw = seq.get('raw', [])
    for i, (m, r) in enumerate(zip(mraw, iraw)):
        for n, v in m.items():
            if n in REGS and not raw_reg_comparable(n):
                continue
            if r.get(n) != v:
                return dict(violation=False, key='C17:model:raw:' + n,
                            what='after document %d the real %s is %s, the Model says %s' % (i, n, r.get(n), v))
    # the cells the Model says differ for B  vs  the cells that do (restricted to the cells of the case)
    names = model_cell_names(case)
    ct = row_of('ColumnType.columnTypes')
    m_leaks = sorted('ColumnType.columnTypes' if c[0] == ct else names.get(json.dumps(c), str(c)) for c in mo[2])
    i_leaks = sorted({x.split(' (')[0] for x in seq.get('leaks', [])})
    i_leaks_m = [x for x in i_leaks if x in names.values() or any(x == n + '.value' for n in REGS)]
    m_norm = sorted({(n + '.value') if n in REGS else n for n in m_leaks})
    if m_norm != sorted(i_leaks_m):
        return dict(violation=False, key='C17:model:leak-set',
                    what='cells differing for B: the Model says %s, observed %s' % (m_norm, sorted(i_leaks_m)))
    return None


def model_cell_names(case):
    """json(cell) -> short name, for every cell the case mentions"""
    out = {}
    for n in TRACKERS:
        out[json.dumps(cell(n))] = n
    names, regs = used_cells(case)
    for r in regs:
        out[json.dumps(reg_cell(r))] = r
    for c in load_cells()['cells']:
        out.setdefault(json.dumps([c['id'], 0]), c.get('short'))
    return out


def raw_reg_comparable(name):
    return REGS[name][2] is not None


# ---------------------------------------------------------------------------------------------------------------------
# shrinking

def shrink(case):
    docs, B = case['docs'], case['B']
    base = dict(case)
    if len(docs) > 1:
        for i in range(len(docs)):
            yield dict(base, docs=docs[:i] + docs[i + 1:])
    for i, d in enumerate(docs):
        for j in range(len(d['body'])):
            nd = dict(d, body=d['body'][:j] + d['body'][j + 1:])
            yield dict(base, docs=docs[:i] + [nd] + docs[i + 1:])
        if d.get('pkgs'):
            for j in range(len(d['pkgs'])):
                nd = dict(d, pkgs=d['pkgs'][:j] + d['pkgs'][j + 1:])
                yield dict(base, docs=docs[:i] + [nd] + docs[i + 1:])
    for j in range(len(B['body'])):
        yield dict(base, B=dict(B, body=B['body'][:j] + B['body'][j + 1:]))
    if B.get('pkgs'):
        for j in range(len(B['pkgs'])):
            yield dict(base, B=dict(B, pkgs=B['pkgs'][:j] + B['pkgs'][j + 1:]))
