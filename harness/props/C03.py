"""C03 -- conditionals process exactly the branch TeX would select.
(a) API level: TeX.processIfContent on token streams vs Model/IfScan.v (proved = Spec/Cond.v selection rule);
(b) program level: nested conditionals in groups, macro bodies and arguments vs the reference evaluator Spec/MacroLang.v."""
import itertools
import macrolang as ML

ID = 'C03'
PINS = [('plasTeX/TeX.py', 'TeX.processIfContent'), ('plasTeX/Base/TeX/Primitives.py', 'ifnum.invoke'),
        ('plasTeX/Base/TeX/Primitives.py', 'ifdim.invoke'), ('plasTeX/Base/TeX/Primitives.py', 'ifodd.invoke'),
        ('plasTeX/Base/TeX/Primitives.py', 'ifcase.invoke'), ('plasTeX/Base/TeX/Primitives.py', 'ifx.invoke'),
        ('plasTeX/Base/TeX/Primitives.py', 'ifdefined.invoke'), ('plasTeX/__init__.py', 'NewIf.invoke'),
        ('plasTeX/Context.py', 'Context.newif')]
RULE = ('(a) token streams: renderings of random conditional texts (0-4 \\or branches, optional \\else, arbitrary nested conditionals, '
        '\\newif<token>) followed by \\fi and a tail, with boolean and integer selectors incl. out-of-range and negative ones; all '
        'shapes exhaustively to a size bound; plus a malformed token soup. (b) programs: nestings (depth <= 4) of \\iftrue/\\iffalse/'
        '\\ifnum/\\ifdim/\\ifodd/\\ifcase/\\ifx/\\ifdefined/\\newif switches with literal, macro-produced and counter operands, with and '
        'without \\else, inside groups, macro bodies and arguments; every branch may step counters (side effects of untaken branches '
        'would show). Non-trivial = contains a nested conditional or an \\ifcase with an out-of-range selector or a side effect.')
TRUSTED = ['program level: the reference evaluator Spec/MacroLang.v (TeX rules written independently of the code) is the oracle; '
           'run(print p) = den p is not a theorem (staged, DESIGN section 8 C02-S1/C03-S1); the printer harness/macrolang.py is trusted glue',
           'modelled, not verified: reading of number/dimension literals terminated by \\relax (C05), \\value, \\stepcounter']
ASSUMPTIONS = ['normal form NF-macro of DESIGN section 9: no macro whose name starts with "if" other than conditionals inside branches; '
               'definitions only outside conditionals']
CASE_TIMEOUT = 20
SKIP_WHEN_MODEL_GIVES_UP = True

# ---- (a) API level ------------------------------------------------------------------------------
# item trees: ['tok', n] | ['newif', tokwire] | ['cond', name, first, [[is_else, seg], ...]]


def render_items(items):
    out = []
    for it in items:
        if it[0] == 'tok':
            out.append([5, it[1]])
        elif it[0] == 'newif':
            out += [4, it[1]]
        else:
            out.append([0, it[1]])
            out += render_items(it[2])
            for is_else, seg in it[3]:
                out.append(2 if is_else else 3)
                out += render_items(seg)
            out.append(1)
    return out


def rand_items(rng, depth, n=None):
    n = rng.randint(0, 3) if n is None else n
    out = []
    for _ in range(n):
        r = rng.random()
        if depth > 0 and r < 0.35:
            segs = []
            for _ in range(rng.choice([0, 0, 1, 1, 2, 3])):
                segs.append([rng.random() < 0.4, rand_items(rng, depth - 1)])
            out.append(['cond', rng.randint(0, 3), rand_items(rng, depth - 1), segs])
        elif r < 0.42:
            out.append(['newif', rng.choice([[0, rng.randint(0, 3)], [5, 97], 1, 2, 3])])
        else:
            out.append(['tok', rng.randint(97, 102)])
    return out


def rand_condtext(rng, depth):
    first = rand_items(rng, depth)
    ors = [rand_items(rng, depth) for _ in range(rng.choice([0, 0, 1, 2, 3, 4]))]
    els = rand_items(rng, depth) if rng.random() < 0.5 else None
    toks = render_items(first)
    for o in ors:
        toks.append(3)
        toks += render_items(o)
    if els is not None:
        toks.append(2)
        toks += render_items(els)
    return toks, len(ors), els is not None


def rand_which(rng, nors):
    r = rng.random()
    if r < 0.3:
        return [0, rng.randint(0, 1)]
    return [1, rng.choice([0, 1, nors, nors + 1, nors + 2, nors + 5, -1, -2, -3, rng.randint(-4, 8)])]


IFNAMES = ['ifnum', 'iftrue', 'ifzzfoo', 'ifthenelse']


def print_tokens(toks):
    s = []
    i = 0
    for t in toks:
        if isinstance(t, list):
            if t[0] == 0:
                s.append('\\%s ' % IFNAMES[t[1] % 4])
            else:
                s.append(chr(t[1]) if t[1] < 1000 else '\\relax ')
        else:
            s.append({1: '\\fi ', 2: '\\else ', 3: '\\or ', 4: '\\newif '}[t])
    return ''.join(s)


def small_shapes():
    """all conditional texts with <= 2 \\or branches, optional else, each segment either empty, one token, or one nested
    two-branch conditional -- rendered -- for all selectors in -2..4 and both booleans"""
    segs = [[], [['tok', 97]], [['cond', 0, [['tok', 98]], [[True, [['tok', 99]]]]]], [['cond', 1, [], [[False, [['tok', 100]]], [True, []]]]]]
    out = []
    for nors in range(3):
        for has_else in (False, True):
            for choice in itertools.product(range(len(segs)), repeat=1 + nors + (1 if has_else else 0)):
                toks = render_items(segs[choice[0]])
                for k in range(nors):
                    toks = toks + [3] + render_items(segs[choice[1 + k]])
                if has_else:
                    toks = toks + [2] + render_items(segs[choice[-1]])
                for w in [[0, 0], [0, 1]] + [[1, z] for z in range(-2, 5)]:
                    out.append(dict(kind='scan', which=w, toks=toks + [1, [5, 122]], rendered=True))
    return out


# ---- (b) program level --------------------------------------------------------------------------

def rand_operand(rng, ctx):
    r = rng.random()
    z = rng.choice([0, 1, 2, 3, 4, 5, 7, -1, -2, rng.randint(-20, 20)])
    signs = rng.choice(['-', '--', '+', '+-', '-+-', '- -']) if rng.random() < 0.3 else ''
    if r < 0.5:
        return ['lit', z, 'plain', signs]
    if r < 0.7:
        return ['lit', z, 'macro', signs]
    return ['cnt', rng.randint(0, ctx['ncnt'] - 1)]


DIMS = [('1', 'truecm'), ('2', 'truept'), ('1', 'true in'), ('10', 'truemm'), ('1', 'pt'), ('2', 'pt'), ('1.5', 'pt'), ('1', 'cm'), ('10', 'mm'), ('1', 'in'), ('72.27', 'pt'), ('0', 'pt'), ('3', 'mm'), ('0.5', 'cm'), ('12', 'pt'), ('1', 'pc')]


def rand_test(rng, ctx):
    r = rng.random()
    if r < 0.1:
        return ['true']
    if r < 0.2:
        return ['false']
    if r < 0.5:
        return ['num', rand_operand(rng, ctx), rng.choice('<>='), rand_operand(rng, ctx), rng.choice(['relax', 'relax', 'space']),
                rng.choice(['', '', 'neg'])]
    if r < 0.6:
        return ['odd', rand_operand(rng, ctx), rng.choice(['relax', 'relax', 'space'])]
    if r < 0.7:
        a, b = rng.choice(DIMS), rng.choice(DIMS)
        # exact ties between different units are a float question (C05); keep clear of them here
        if a != b and ML.UNITS[a[1]] * ML.Fraction(a[0]) == ML.UNITS[b[1]] * ML.Fraction(b[0]):
            b = ('7', 'pt')
        if a[1] != b[1] and abs(ML.UNITS[a[1]] * ML.Fraction(a[0]) - ML.UNITS[b[1]] * ML.Fraction(b[0])) < 1:
            b = ('7', 'pt')
        return ['dim', a, rng.choice('<>='), b, rng.choice([0, 0, 0, 1, 2, 3])]
    if r < 0.8 and ctx['nsw']:
        return ['switch', rng.randint(0, ctx['nsw'] - 1)]
    if r < 0.88:
        return ['defined', rng.choice(list(range(ctx['nmac'])) + [50, 51])]
    if r < 0.94:
        a = rng.choice('abc')
        return ['ifxchar', ord(a), ord(a if rng.random() < 0.5 else rng.choice('abc'))]
    if ctx['plain']:
        return ['ifxmac', rng.choice(ctx['plain']), rng.choice(ctx['plain'])]
    return ['true']


def rand_nodes(rng, depth, ctx, n=None, params=0):
    n = rng.randint(1, 3) if n is None else n
    return [rand_node(rng, depth, ctx, params) for _ in range(n)]


def rand_node(rng, depth, ctx, params=0):
    r = rng.random()
    if depth > 0 and r < 0.3:
        els = rand_nodes(rng, depth - 1, ctx, params=params) if rng.random() < 0.6 else None
        t = rand_test(rng, ctx)
        node = ['cond', t, rand_nodes(rng, depth - 1, ctx, params=params), els]
        if t[0] == 'ifxchar' and rng.random() < 0.5:
            node.append('macro')
        return node
    if depth > 0 and r < 0.42:
        nb = rng.randint(1, 4)
        els = rand_nodes(rng, depth - 1, ctx, params=params) if rng.random() < 0.5 else None
        op = rand_operand(rng, ctx)
        if op[0] == 'lit':
            op[1] = rng.choice([0, 1, nb - 1, nb, nb + 1, nb + 3, -1, -2, op[1]])
        return ['case', op, [rand_nodes(rng, depth - 1, ctx, n=rng.randint(0, 2), params=params) for _ in range(nb)], els]
    if depth > 0 and r < 0.5:
        return ['group', rand_nodes(rng, depth - 1, ctx, params=params), rng.choice(['brace', 'begingroup'])]
    if depth > 0 and r < 0.62 and ctx['macs']:
        name, np = rng.choice(ctx['macs'])
        return ['call', name, None, [rand_nodes(rng, depth - 1, ctx, n=rng.randint(0, 2), params=params) for _ in range(np)], None]
    if depth > 1 and r < 0.66:
        # a macro defined locally in a group and tested with \ifdefined one or two groups deeper, and again after the group
        x = 70 + ctx.setdefault('nlocal', 0)
        ctx['nlocal'] += 1
        inner = ['cond', ['defined', x], rand_nodes(rng, depth - 2, ctx, n=1, params=params), rand_nodes(rng, depth - 2, ctx, n=1, params=params)]
        if rng.random() < 0.5:
            inner = ['group', [inner], 'brace']
        ctx['w'] += 1
        return ['group', [['def', False, x, 0, None, [['word', ctx['w']]], {'kind': 'def'}], ['group', [inner], rng.choice(['brace', 'begingroup'])],
                          ['cond', ['defined', x], rand_nodes(rng, 0, ctx, n=1, params=params), None]], 'brace']
    if r < 0.72:
        c = rng.randint(0, ctx['ncnt'] - 1)
        return rng.choice([['step', c], ['addc', c, rng.randint(-2, 3)], ['setc', c, rng.randint(-1, 5)]])
    if r < 0.78 and ctx['nsw']:
        return ['setsw', rng.randint(0, ctx['nsw'] - 1), rng.random() < 0.5]
    if params and r < 0.9:
        return ['param', rng.randint(1, params)]
    ctx['w'] += 1
    return ['word', ctx['w']]


def rand_prog(rng, depth):
    ctx = dict(ncnt=rng.randint(1, 3), nsw=rng.randint(0, 2), nmac=0, macs=[], plain=[], w=0)
    prog = [['newsw', i] for i in range(ctx['nsw'])]
    # macro definitions first (top level only), bodies may contain conditionals and parameters
    for i in range(rng.randint(0, 3)):
        np = rng.randint(0, 2)
        if rng.random() < 0.3:
            # plain-text bodies for \ifx: prefixes of one fixed word sequence (equal iff equally long; the empty body included)
            body = [['word', 900 + k] for k in range(rng.choice([0, 1, 1, 2, 2, 3]))]
            np = 0
            ctx['plain'].append(i)
        else:
            body = rand_nodes(rng, max(depth - 1, 1), ctx, params=np)
        prog.append(['def', False, i, np, None, body, {'kind': rng.choice(['def', 'newcommand'])}])
        ctx['macs'].append((i, np))
        ctx['nmac'] = i + 1
    prog += rand_nodes(rng, depth, ctx, n=rng.randint(1, 4))
    return prog


def has_nested(ns, inside=False):
    for n in ns:
        if isinstance(n, list) and n and n[0] in ('cond', 'case'):
            if inside:
                return True
            subs = ([n[2]] + ([n[3]] if n[3] else [])) if n[0] == 'cond' else (n[2] + ([n[3]] if n[3] else []))
            if any(has_nested(s, True) for s in subs):
                return True
        elif isinstance(n, list) and n and n[0] in ('group',):
            if has_nested(n[1], inside):
                return True
        elif isinstance(n, list) and n and n[0] == 'def':
            if has_nested(n[5], inside):
                return True
        elif isinstance(n, list) and n and n[0] == 'call':
            if any(has_nested(a, inside) for a in n[3]):
                return True
    return False


# ---- streams -----------------------------------------------------------------------------------

def streams(rng, tier, boost):
    out = [('scan-exhaustive', c) for c in small_shapes()]
    for i in range((1500 if tier == 'quick' else 20000) * boost):
        toks, nors, has_else = rand_condtext(rng, rng.choice([0, 1, 2, 3, 4]))
        tail = [[5, 120 + rng.randint(0, 2)] for _ in range(rng.randint(0, 2))] + ([1] if rng.random() < 0.2 else [])
        out.append(('scan-rendered', dict(kind='scan', which=rand_which(rng, nors), toks=toks + [1] + tail, rendered=True)))
    for i in range((300 if tier == 'quick' else 3000) * boost):
        soup = [rng.choice([[0, rng.randint(0, 3)], 1, 1, 2, 3, 4, [5, 97], [5, 98], [5, 99]]) for _ in range(rng.randint(0, 9))]
        out.append(('scan-soup', dict(kind='scan', which=rand_which(rng, 2), toks=soup, rendered=False)))
    for i in range((500 if tier == 'quick' else 6000) * boost):
        out.append(('programs', dict(kind='prog', prog=rand_prog(rng, rng.choice([1, 2, 2, 3, 3, 4])))))
    # \newif switches whose name contains "if" again (odd ids: \ifzsif..), set and tested, also through a macro body
    for n in (0, 1, 3):
        for first in (True, False):
            out.append(('switch-names', dict(kind='prog', prog=[
                ['newsw', n], ['setsw', n, first], ['cond', ['switch', n], [['word', 1]], [['word', 2]]],
                ['setsw', n, not first], ['cond', ['switch', n], [['word', 3]], [['word', 4]]],
                ['group', [['setsw', n, first]], 'brace'], ['cond', ['switch', n], [['word', 5]], [['word', 6]]]])))
    # \ifx between parameterless macros: equal bodies, one body a proper prefix of the other (both orders), empty against non-empty
    bodies = {60: [['word', 1]], 61: [['word', 1], ['word', 2]], 62: [], 63: [['word', 1], ['word', 2]], 64: [['word', 3]]}
    defs = [['def', False, k, 0, None, b, {'kind': 'def'}] for k, b in sorted(bodies.items())]
    for a in sorted(bodies):
        for b in sorted(bodies):
            out.append(('ifx-bodies', dict(kind='prog', prog=defs + [['cond', ['ifxmac', a, b], [['word', 7]], [['word', 8]]]])))
    # an undefined control sequence in a branch that is skipped stays undefined: every way of skipping, the skipped text starts with
    # the undefined name directly after the test (a number ended by one blank included), then \ifdefined asks for that name
    skips = [(['num', ['lit', 2, 'plain', ''], '<', ['lit', 1, 'plain', ''], 'space'], True), (['num', ['lit', 1, 'plain', ''], '<', ['lit', 2, 'plain', ''], 'space'], False),
             (['num', ['lit', 2, 'plain', ''], '<', ['lit', 1, 'plain', ''], 'relax'], True), (['false'], True), (['true'], False),
             (['odd', ['lit', 2, 'plain', ''], 'space'], True), (['odd', ['lit', 3, 'plain', ''], 'space'], False),
             (['dim', ('1', 'pt'), '>', ('2', 'pt')], True), (['ifxchar', 97, 98], True)]
    for t, in_then in skips:
        for und in (50, 51):
            undefined = ['call', und, None, [], {}]
            thn, els = ([undefined, ['word', 1]], [['word', 2]]) if in_then else ([['word', 1]], [undefined, ['word', 2]])
            out.append(('skipped-undefined', dict(kind='prog', prog=[['cond', t, thn, els], ['cond', ['defined', und], [['word', 3]], [['word', 4]]]])))
            out.append(('skipped-undefined', dict(kind='prog', prog=[['case', ['lit', 1, 'plain', ''], [[undefined], [['word', 1]], [undefined]], [undefined]],
                                                                     ['cond', ['defined', und], [['word', 3]], [['word', 4]]]])))
    # signs directly in front of register / counter operands (small, systematic): the variable holds v, the test compares
    # it - written with a minus sign in front, relation turned round - with a literal, in both operand orders; selectors of \ifodd
    for v in (-3, -2, -1, 0, 1, 2, 3):
        for var in (2, 0):          # 2: a \newcount register, 0: a LaTeX counter
            for rel in '<>=':
                for k in (-2, 0, 1, 3):
                    for swap in (False, True):
                        a, b = ['cnt', var], ['lit', k, 'plain', '']
                        if swap:
                            a, b = b, a
                        out.append(('operand-signs', dict(kind='prog', prog=[
                            ['setc', var, v],
                            ['cond', ['num', a, rel, b, 'relax', 'neg'], [['word', 1]], [['word', 2]]],
                            ['cond', ['num', a, rel, b, 'relax', ''], [['word', 3]], [['word', 4]]]])))
    return out


def search_streams(rng, tier):
    return [('search', dict(kind='prog', prog=rand_prog(rng, rng.choice([2, 3])))) for _ in range(800)]


def describe(case):
    if case['kind'] == 'scan':
        return dict(processIfContent=('bool %s' % bool(case['which'][1])) if case['which'][0] == 0 else ('case %d' % case['which'][1]),
                    tokens=print_tokens(case['toks']))
    return ML.to_source(case['prog'])[0]


def model_input(case):
    if case['kind'] == 'scan':
        return [0, [case['which'], case['toks']]]
    return [1, ML.w_nodes(case['prog'])]


def worker_init():
    import texrun
    texrun.quiet()


def classify(t):
    name = getattr(t, 'macroName', None) or ''
    if t.catcode == 0 or name in ('fi', 'else', 'or', 'newif') or (name and name.startswith('if')):
        if name == 'fi':
            return 1
        if name == 'else':
            return 2
        if name == 'or':
            return 3
        if name == 'newif':
            return 4
        if name.startswith('if'):
            return [0, IFNAMES.index(name)]
        return [5, 1000]
    return [5, ord(str(t)[0])]


def run_impl(case):
    if case['kind'] == 'scan':
        from plasTeX.TeX import TeX, TeXDocument
        doc = TeXDocument()
        tex = TeX(doc)
        tex.disableLogging()
        tex.input(print_tokens(case['toks']))
        w = case['which']
        try:
            tex.processIfContent(bool(w[1]) if w[0] == 0 else w[1])
        except (IndexError, RuntimeError, StopIteration):
            return [-2, 0]
        return [0, [classify(t) for t in tex.itertokens()]]
    src, cs = ML.to_source(case['prog'])
    return ML.run_source(src, len(cs))


def nontrivial(case, io):
    if case['kind'] == 'scan':
        return any(isinstance(t, list) and t[0] == 0 for t in case['toks']) or (case['which'][0] == 1 and not 0 <= case['which'][1] <= 1)
    return has_nested(case['prog'])


def tags(case, io):
    if case['kind'] == 'scan':
        return ['scan', 'selector=' + ('bool' if case['which'][0] == 0 else ('neg' if case['which'][1] < 0 else 'int'))]
    t = ['prog']
    if has_nested(case['prog']):
        t.append('nested')
    return t


def judge(case, io, mo):
    if case['kind'] == 'scan':
        if io == mo:
            return None
        return dict(violation=bool(case.get('rendered')), key='C03:scan' + (':raises' if io[:1] in ([-2], ['raise']) else ':wrong-branch'),
                    expected=mo, what='processIfContent leaves %s, TeX selects %s' % (io, mo))
    cs = ML.counters_used(case['prog'])
    exp = ML.expected_from_model(mo, cs)
    if exp == [-3]:
        return None     # the reference evaluator gave up (fuel / size guard): the case is not compared (tagged in the evidence)
    if not (isinstance(exp, list) and exp and exp[0] == 0):
        return dict(violation=False, key='C03:generator', expected=exp, what='the reference evaluator rejects this program (generator defect)')
    if io == exp:
        return None
    kind = 'raises' if io[:1] in ([-2], ['raise']) else ('hang' if io[:1] == ['hang'] else ('side-effect' if io[:2] == exp[:2] else 'wrong-text'))
    return dict(violation=True, key='C03:prog:' + kind, expected=exp, what='document %s, TeX rules give %s' % (io[:3], exp))


def shrink(case):
    if case['kind'] == 'scan':
        t = case['toks']
        for i in range(len(t)):
            yield dict(case, toks=t[:i] + t[i + 1:], rendered=False)
        return
    prog = case['prog']

    def variants(ns):
        for i in range(len(ns)):
            n = ns[i]
            if n[0] not in ('newsw', 'def'):      # declarations stay: dropping one would leave the normal form
                yield ns[:i] + ns[i + 1:]
            if n[0] == 'cond':
                yield ns[:i] + n[2] + ns[i + 1:]
                if n[3]:
                    yield ns[:i] + n[3] + ns[i + 1:]
                    yield ns[:i] + [['cond', n[1], n[2], None]] + ns[i + 1:]
                for v in variants(n[2]):
                    yield ns[:i] + [['cond', n[1], v, n[3]]] + ns[i + 1:]
                if n[3]:
                    for v in variants(n[3]):
                        yield ns[:i] + [['cond', n[1], n[2], v]] + ns[i + 1:]
            elif n[0] == 'case':
                for b in n[2]:
                    yield ns[:i] + b + ns[i + 1:]
                for j in range(len(n[2])):
                    for v in variants(n[2][j]):
                        yield ns[:i] + [['case', n[1], n[2][:j] + [v] + n[2][j + 1:], n[3]]] + ns[i + 1:]
            elif n[0] == 'group':
                yield ns[:i] + n[1] + ns[i + 1:]
                for v in variants(n[1]):
                    yield ns[:i] + [['group', v, n[2]]] + ns[i + 1:]
            elif n[0] == 'def':
                for v in variants(n[5]):
                    yield ns[:i] + [n[:5] + [v] + n[6:]] + ns[i + 1:]
            elif n[0] == 'call':
                for j in range(len(n[3])):
                    for v in variants(n[3][j]):
                        yield ns[:i] + [['call', n[1], n[2], n[3][:j] + [v] + n[3][j + 1:], n[4]]] + ns[i + 1:]
    for v in variants(prog):
        yield dict(kind='prog', prog=v)
