"""C02 -- macro definitions expand exactly as TeX's substitution rules say.
(a) API level: Definition.invoke / NewCommand.invoke / expandDef on token lists vs Model/Expand.v (proved = Spec/MacroSpec.v on the
    normal form); (b) program level: generated macro programs vs the reference evaluator Spec/MacroLang.v."""
import macrolang as ML
import enginelang as EL

ID = 'C02'
PINS = [('plasTeX/__init__.py', 'expandDef'), ('plasTeX/__init__.py', 'Definition.invoke'), ('plasTeX/__init__.py', 'NewCommand.invoke'),
        ('plasTeX/TeX.py', 'TeX.readToken'), ('plasTeX/TeX.py', 'TeX.readGrouping'), ('plasTeX/TeX.py', 'TeX.readOptionalSpaces'),
        ('plasTeX/TeX.py', 'TeX.readArgumentAndSource'), ('plasTeX/Context.py', 'Context.newdef'), ('plasTeX/Context.py', 'Context.newcommand'),
        ('plasTeX/Context.py', 'Context.let'), ('plasTeX/Base/TeX/Primitives.py', 'csname.invoke'), ('plasTeX/Base/TeX/Primitives.py', 'expandafter.invoke'),
        ('plasTeX/Base/TeX/Primitives.py', 'DefCommand.invoke'), ('plasTeX/Base/LaTeX/Definitions.py', 'newcommand.invoke'),
        # the expansion engine (Model/Engine.v)
        ('plasTeX/TeX.py', 'TeX.__iter__'), ('plasTeX/TeX.py', 'TeX.itertokens'), ('plasTeX/TeX.py', 'TeX.pushToken'), ('plasTeX/TeX.py', 'TeX.pushTokens'),
        ('plasTeX/Tokenizer.py', 'Tokenizer.pushToken'), ('plasTeX/Tokenizer.py', 'Tokenizer.pushTokens'), ('plasTeX/TeX.py', 'TeX.processIfContent'),
        ('plasTeX/TeX.py', 'TeX.readInteger'), ('plasTeX/TeX.py', 'TeX.readSequence'), ('plasTeX/TeX.py', 'TeX.readOptionalSigns'),
        ('plasTeX/Context.py', 'Context.__getitem__'), ('plasTeX/Context.py', 'Context.push'), ('plasTeX/Context.py', 'Context.pop'),
        ('plasTeX/Context.py', 'Context.addLocal'), ('plasTeX/Context.py', 'Context.addGlobal'), ('plasTeX/__init__.py', 'Macro.invoke'),
        ('plasTeX/Base/TeX/Text.py', 'bgroup.invoke'), ('plasTeX/Base/TeX/Text.py', 'egroup.invoke'),
        ('plasTeX/Base/TeX/Primitives.py', 'ifnum.invoke'), ('plasTeX/Base/TeX/Primitives.py', 'iftrue.invoke'), ('plasTeX/Base/TeX/Primitives.py', 'iffalse.invoke'),
        ('plasTeX/Base/TeX/Primitives.py', 'ifcase.invoke'), ('plasTeX/Base/TeX/Primitives.py', 'ifodd.invoke'), ('plasTeX/Base/TeX/Primitives.py', 'let.invoke'),
        ('plasTeX/Base/TeX/Registers.py', 'newif.invoke'), ('plasTeX/Context.py', 'Context.newif'), ('plasTeX/__init__.py', 'NewIf.invoke'),
        ('plasTeX/__init__.py', 'IfTrue.invoke'), ('plasTeX/__init__.py', 'IfFalse.invoke'), ('plasTeX/TeX.py', 'TeX.readInternalType'),
        ('plasTeX/TeX.py', 'TeX.castControlSequence'), ('plasTeX/TeX.py', 'TeX.castNumber'), ('plasTeX/TeX.py', 'TeX.readCharacter'),
        ('plasTeX/Base/LaTeX/Numbering.py', 'value.invoke'), ('plasTeX/Base/LaTeX/Numbering.py', 'stepcounter.invoke'),
        ('plasTeX/Base/LaTeX/Numbering.py', 'setcounter.invoke'), ('plasTeX/Base/LaTeX/Numbering.py', 'addtocounter.invoke'),
        ('plasTeX/__init__.py', 'Counter.stepcounter'), ('plasTeX/__init__.py', 'Counter.setcounter'), ('plasTeX/__init__.py', 'Counter.addtocounter'),
        ('plasTeX/Context.py', 'Counters.__getitem__'), ('plasTeX/TeX.py', 'TeX.castString'), ('plasTeX/TeX.py', 'TeX.normalize')]
RULE = ('(a) \\def parameter texts in normal form (literal prefix, 0-9 parameters, each undelimited or delimited by 1-2 tokens) with '
        'conforming calls (braced balanced undelimited arguments, delimited arguments free of the delimiter token) and bodies of literals, '
        '#k, ##; \\newcommand with 0-9 arguments, optional argument present/absent; plus a malformed soup of random parameter texts, bodies and '
        'streams. (b) programs: top-level definitions (\\def, \\gdef, \\newcommand, \\renewcommand, optional arguments, delimited patterns, '
        '\\csname-built names), nested calls in bodies and arguments, \\let aliases, local redefinitions inside arbitrarily nested groups, '
        'conditionals in bodies. Non-trivial = at least one macro with parameters is called with a non-empty argument. '
        '(c) the expansion engine on token lists: programs of the fragments F1/F2 of Spec/MacroPrint.v and beyond them (delimited parameters, ##, nested '
        'definitions, blank-terminated numbers) tokenized by the real Tokenizer; malformed token lists; all token lists of length <= 2 (3) over 14 tokens; '
        'observed: every yielded item, the context depth, the final meaning of every user macro. (d) Spec/MacroPrint.print against the real Tokenizer.')
TRUSTED = ['program level: run . print = den is a theorem on the fragments F1/F2 (C02_engine_simulates_F1/F2: parameterless and undelimited-parameter macros, '
           'groups, \\iftrue/\\iffalse/\\ifnum on literals); beyond them the reference evaluator Spec/MacroLang.v is an oracle and the printer harness/macrolang.py is trusted',
           'the engine Model (Model/Engine.v) = TeX.__iter__ and what it calls, and Spec/MacroPrint.print = the real Tokenizer on the printed source, are differential testing',
           'modelled, not verified: Token.__eq__ as (category, text) equality; \\csname/\\expandafter/\\let themselves are only covered at program level']
ASSUMPTIONS = ['normal form NF-macro of DESIGN section 9']
CASE_TIMEOUT = 20
SKIP_WHEN_MODEL_GIVES_UP = True

LETTERS = [[11, [c]] for c in (97, 98, 99, 100, 101)]
PUNCT = [[12, [c]] for c in (44, 46, 59, 58, 49, 50)]
ESC = [[0, [120]], [0, [121, 122]], [0, [105, 102, 120]]]
BG, EG, HASH, SP = [1, [123]], [2, [125]], [6, [35]], [10, [32]]
LB, RB = [12, [91]], [12, [93]]
DIG = lambda k: [12, [48 + k]]


def rand_balanced(rng, alphabet, n, depth=2):
    out = []
    for _ in range(n):
        r = rng.random()
        if depth > 0 and r < 0.2:
            out += [BG] + rand_balanced(rng, alphabet, rng.randint(0, 3), depth - 1) + [EG]
        elif r < 0.3:
            out.append(SP)
        else:
            out.append(rng.choice(alphabet))
    return out


def rand_def_case(rng):
    pre = [rng.choice(LETTERS + PUNCT) for _ in range(rng.choice([0, 0, 0, 1, 2]))]
    n = rng.choice([0, 1, 1, 2, 2, 3, 4, 9])
    args_toks = list(pre)
    call = list(pre)
    for i in range(1, n + 1):
        args_toks += [HASH, DIG(i)]
        delimited = rng.random() < 0.5
        if delimited:
            d = rng.choice(PUNCT + LETTERS + ESC[:2])
            more = [rng.choice(PUNCT + LETTERS) for _ in range(rng.choice([0, 0, 1]))]
            alpha = [t for t in LETTERS + PUNCT + ESC if t != d]
            arg = rand_balanced(rng, alpha, rng.randint(0, 4))
            args_toks += [d] + more
            call += arg + [d] + more
        else:
            arg = rand_balanced(rng, LETTERS + PUNCT + ESC, rng.randint(0, 4))
            # TeX skips blanks in front of an undelimited argument (readArgument does, read_argument in the Model does)
            call += ([SP] * rng.choice([1, 1, 2]) if rng.random() < 0.3 else []) + [BG] + arg + [EG]
    body = []
    prev_ifx = False
    for _ in range(rng.randint(0, 8)):
        r = rng.random()
        if r < 0.35 and n and not prev_ifx:
            body += [HASH, DIG(rng.randint(1, n))]
            prev_ifx = False
        elif r < 0.45:
            body += [HASH, HASH]
            prev_ifx = False
        else:
            t = rng.choice(LETTERS + PUNCT + ESC + [BG, EG, SP])
            body.append(t)
            prev_ifx = (t == ESC[2])
    rest = rand_balanced(rng, LETTERS + PUNCT + ESC, rng.randint(0, 3))
    return dict(kind='def', args=args_toks, body=body, stream=call + rest, rendered=True)


def rand_nc_case(rng):
    n = rng.choice([0, 1, 1, 2, 3, 9])
    has_opt = n > 0 and rng.random() < 0.5
    mand = n - (1 if has_opt else 0)
    stream = []
    opt = None
    if has_opt:
        opt = rand_balanced(rng, LETTERS + PUNCT, rng.randint(0, 3), 0)
        if rng.random() < 0.5:
            inner = []
            for _ in range(rng.randint(0, 4)):
                if rng.random() < 0.2:
                    inner += [LB] + [rng.choice(LETTERS)] + [RB]
                else:
                    inner.append(rng.choice(LETTERS + PUNCT + [SP]))
            stream += [LB] + inner + [RB]
    for _ in range(mand):
        stream += [BG] + rand_balanced(rng, LETTERS + PUNCT + ESC + [LB, RB], rng.randint(0, 4)) + [EG]
    body = []
    for _ in range(rng.randint(0, 8)):
        r = rng.random()
        if r < 0.4 and n:
            body += [HASH, DIG(rng.randint(1, n))]
        elif r < 0.5:
            body += [HASH, HASH]
        else:
            body.append(rng.choice(LETTERS + PUNCT + ESC[:2] + [BG, EG, SP]))
    rest = [rng.choice(LETTERS + PUNCT)] + rand_balanced(rng, LETTERS + PUNCT, rng.randint(0, 2))
    return dict(kind='nc', nargs=n, opt=opt, body=body, stream=stream + rest, rendered=True)


def rand_soup(rng):
    alpha = LETTERS + PUNCT + ESC + [BG, EG, HASH, HASH, SP, LB, RB, DIG(1), DIG(2)]
    if rng.random() < 0.5:
        # the parameter text of a \\def cannot contain braces (the first brace starts the body)
        return dict(kind='def', args=[rng.choice([t for t in alpha if t not in (BG, EG)] + [HASH, DIG(1)]) for _ in range(rng.randint(0, 6))],
                    body=[rng.choice(alpha) for _ in range(rng.randint(0, 6))],
                    stream=[rng.choice(alpha) for _ in range(rng.randint(0, 8))], rendered=False)
    n = rng.randint(0, 3)
    return dict(kind='nc', nargs=n, opt=([rng.choice(LETTERS)] if n and rng.random() < 0.5 else None),
                body=[rng.choice(alpha) for _ in range(rng.randint(0, 6))],
                stream=[rng.choice(alpha) for _ in range(rng.randint(0, 8))], rendered=False)


# ---- programs ----------------------------------------------------------------------------------

DELIMS = ['.', ',', ';', ':', '\\zd ', '.,', ';:', ' ']      # ' ': a parameter delimited by a blank (its argument is one word)


def rand_sig(rng, i):
    np = rng.choice([0, 1, 1, 2, 2, 3, 9] if i else [0, 1, 2])
    r = rng.random()
    if r < 0.35 and np:
        delims = [rng.choice(['', '', '(', '!'])] + [rng.choice(['', ''] + DELIMS) for _ in range(np)]
        return dict(np=np, opt=False, how={'kind': 'def', 'delims': delims})
    if r < 0.55:
        return dict(np=np, opt=False, how={'kind': 'newcommand'})
    if r < 0.7 and np:
        return dict(np=np - 1, opt=True, how={'kind': 'newcommand'})
    if r < 0.78:
        return dict(np=np, opt=False, how={'kind': 'def', 'csname': rng.choice([True, 'pfx'])})
    return dict(np=np, opt=False, how={'kind': 'def'})


def words(rng, ctx, n):
    out = []
    for _ in range(n):
        ctx['w'] += 1
        out.append(['word', ctx['w']])
    return out


def rand_arg(rng, ctx, depth, params, allow_delim, callable_ids=None):
    return rand_content(rng, ctx, depth, params, n=rng.randint(0, 2), allow_delim=allow_delim, allow_def=False, callable_ids=callable_ids)


def rand_call(rng, ctx, depth, params, callee, allow_delim, callable_ids=None):
    sig = ctx['sigs'][ctx['alias'].get(callee, callee)]
    delims = sig['how'].get('delims')
    is_delim = bool(delims and any(delims))
    if is_delim and not allow_delim:
        return None
    args = []
    for k in range(sig['np']):
        d = delims[k + 1] if delims else ''
        # arguments of delimited parameters hold only plain words, groups and undelimited calls (no delimiter hidden in braces)
        # ... and no parameter of the enclosing body: its substituted text could bring the delimiter in at brace level 0
        if d == ' ':
            args.append(words(rng, ctx, 1))      # the blank that ends the word is the delimiter
            continue
        args.append(rand_arg(rng, ctx, depth - 1, params if d == '' else 0, allow_delim=(d == '' and allow_delim and not is_delim),
                             callable_ids=callable_ids))
    opt = None
    if sig['opt'] and rng.random() < 0.5:
        opt = words(rng, ctx, rng.randint(0, 2))
    how = dict(sig['how'])
    if rng.random() < 0.2 and not is_delim:
        # \\csname name\\endcsname, or the name built through a macro-produced prefix: \\csname\\zpfx letters\\endcsname (\\zpfx -> zq)
        how['csname'] = rng.choice([True, 'pfx'])
    elif 'csname' in how and callee in ctx['alias']:
        how.pop('csname')
    if 'csname' in how and callee not in ctx['alias']:
        # the same macro is reached by different routes: plain name, \\csname name, \\csname with the macro-produced prefix
        route = rng.choice([None, True, 'pfx'])
        if route is None:
            how.pop('csname')
        else:
            how['csname'] = route
    if not is_delim and args and rng.random() < 0.3:
        how['argsep'] = rng.choice([' ', ' ', '  ', '\n'])      # blanks in front of braced undelimited arguments
    if not is_delim and args and opt is None and not sig['opt'] and 'csname' not in how and 'argsep' not in how and rng.random() < 0.12:
        how['ea'] = True      # \\expandafter\\m{..}: the token after \\m is a brace, which cannot be expanded - same meaning as \\m{..}
    return ['call', callee, opt, args, how]


def rand_content(rng, ctx, depth, params, n=None, allow_delim=True, allow_def=True, callable_ids=None):
    n = rng.randint(1, 3) if n is None else n
    out = []
    ids = ctx['callable'] if callable_ids is None else callable_ids
    for _ in range(n):
        r = rng.random()
        if depth > 0 and ids and r < 0.35:
            c = rand_call(rng, ctx, depth, params, rng.choice(ids), allow_delim, callable_ids=callable_ids)
            if c is not None:
                out.append(c)
                continue
        if depth > 0 and r < 0.45:
            out.append(['group', rand_content(rng, ctx, depth - 1, params, allow_delim=allow_delim, allow_def=allow_def, callable_ids=callable_ids),
                        rng.choice(['brace', 'brace', 'begingroup'] if allow_def else ['brace'])])
            continue
        if params and r < 0.65:
            out.append(['param', rng.randint(1, params)])
            continue
        if params and r < 0.68 and not ctx.get('nested'):
            out.append(['hash'])
            continue
        if depth > 0 and r < 0.75:
            t = rng.choice([['true'], ['false'], ['num', ['lit', rng.randint(0, 3), 'plain'], rng.choice('<>='), ['lit', rng.randint(0, 3), 'plain']]])
            out.append(['cond', t, rand_content(rng, ctx, depth - 1, params, n=1, allow_delim=allow_delim, allow_def=False, callable_ids=callable_ids),
                        rand_content(rng, ctx, depth - 1, params, n=1, allow_delim=allow_delim, allow_def=False, callable_ids=callable_ids) if rng.random() < 0.5 else None])
            continue
        out += words(rng, ctx, 1)
    return out


def rand_body(rng, ctx, i, sig, depth):
    total = sig['np'] + (1 if sig['opt'] else 0)
    body = rand_content(rng, ctx, depth, total, n=rng.randint(1, 4), allow_delim=True, allow_def=False, callable_ids=list(range(i)))
    if ctx.get('nested') and (rng.random() < 0.35 and sig['how']['kind'] == 'def' or rng.random() < 0.15):
        # a definition nested in the body (its parameters are written ##k) followed by a use of it; the inner name is private
        inner = ctx['next_inner']
        ctx['next_inner'] += 1
        inp = rng.randint(0, 2)
        ibody = []
        for _ in range(rng.randint(1, 3)):
            r = rng.random()
            if inp and r < 0.45:
                ibody.append(['param2', rng.randint(1, inp)])
            elif total and r < 0.6:
                ibody.append(['param', rng.randint(1, total)])
            else:
                ibody += words(rng, ctx, 1)
        body.append(['def', False, inner, inp, None, ibody, {'kind': 'def'}])
        for _ in range(rng.randint(1, 2)):
            body.append(['call', inner, None, [words(rng, ctx, rng.randint(0, 2)) for _ in range(inp)], {'kind': 'def'}])
    return body


def def_node(rng, ctx, i, sig, glob, depth):
    default = words(rng, ctx, rng.randint(0, 2)) if sig['opt'] else None
    how = dict(sig['how'])
    if how['kind'] == 'newcommand' and i in ctx['defined']:
        how['kind'] = 'renewcommand'
    return ['def', glob, i, sig['np'], default, rand_body(rng, ctx, i, sig, depth), how]


def rand_main(rng, ctx, depth, in_group):
    out = []
    for _ in range(rng.randint(1, 4)):
        r = rng.random()
        if depth > 0 and r < 0.3:
            out.append(['group', rand_main(rng, ctx, depth - 1, True), rng.choice(['brace', 'begingroup'])])
        elif r < 0.45 and in_group:
            # local (or global) redefinition with the same signature; \\newcommand-style ones are global in plasTeX by design, so only \\def here
            cands = [i for i in range(ctx['n']) if ctx['sigs'][i]['how']['kind'] == 'def']
            if cands:
                i = rng.choice(cands)
                glob = rng.random() < 0.25
                if glob and ctx['local_depth'].get(i, 0) > 0:
                    glob = False      # \\gdef under a live local definition of the same name: TeX/plasTeX differ by design (C04)
                node = def_node(rng, ctx, i, ctx['sigs'][i], glob, 2)
                if not glob:
                    ctx['local_depth'][i] = ctx['local_depth'].get(i, 0) + 1
                    ctx.setdefault('undo', []).append(i)
                out.append(node)
        elif r < 0.52 and ctx['n']:
            tgt = rng.randint(0, ctx['n'] - 1)
            if 'csname' not in ctx['sigs'][tgt]['how']:
                new = ctx['next_alias']
                ctx['next_alias'] += 1
                ctx['alias'][new] = tgt
                out.append(['let', new, tgt])
                if not in_group:
                    ctx['callable'].append(new)
                    ctx['sigs'][new] = ctx['sigs'][tgt]
                else:
                    ctx['sigs'][new] = ctx['sigs'][tgt]
                    c = rand_call(rng, ctx, 2, 0, new, True)
                    if c:
                        out.append(c)
        elif r < 0.70 and r >= 0.62 and not in_group:
            # the same name redefined with the OTHER definer (a \\def'd name by \\renewcommand, a \\newcommand'd one by \\def; also through a
            # \\let alias of a \\def macro), same arity, no delimiters, used afterwards
            cands = [i for i in range(ctx['n']) if not ctx['sigs'][i]['opt'] and not any(ctx['sigs'][i]['how'].get('delims') or [])
                     and 'csname' not in ctx['sigs'][i]['how']]
            if cands:
                i = rng.choice(cands)
                sig = ctx['sigs'][i]
                name = i
                if sig['how']['kind'] == 'def' and rng.random() < 0.3:
                    name = ctx['next_alias']
                    ctx['next_alias'] += 1
                    out.append(['let', name, i])
                    ctx['callable'].append(name)
                newkind = 'renewcommand' if sig['how']['kind'] == 'def' else 'def'
                body = rand_content(rng, ctx, 2, sig['np'], n=rng.randint(1, 3), allow_delim=True, allow_def=False, callable_ids=list(range(i)))
                out.append(['def', False, name, sig['np'], None, body, {'kind': newkind}])
                ctx['sigs'][name] = dict(np=sig['np'], opt=False, how={'kind': 'def' if newkind == 'def' else 'newcommand'})
                ctx['defined'].add(name)
                for _ in range(rng.randint(1, 2)):
                    c = rand_call(rng, ctx, 2, 0, name, True)
                    if c:
                        out.append(c)
        elif r < 0.62 and ctx['feeders']:
            tgt, fid = rng.choice(ctx['feeders'])
            # only while the target still has its top-level signature and the feeder its top-level body (both are never redefined: ids >= 40
            # are not in the redefinition candidates; the target may be locally redefined with the same signature, which is fine)
            out.append(['expandafter', tgt, fid])
        else:
            out += rand_content(rng, ctx, min(depth + 1, 3), 0, n=1)
    return out


def rand_prog(rng, depth):
    n = rng.randint(1, 5)
    # a program uses either literal ## or definitions nested in bodies, never both: a lone # token that reaches the body of an
    # inner definition is "Illegal parameter number" in TeX itself, so such programs have no meaning to compare with
    ctx = dict(n=n, sigs={}, w=0, callable=[], alias={}, next_alias=20, defined=set(), local_depth={}, next_inner=60, feeders=[],
               nested=rng.random() < 0.5)
    prog = []
    for i in range(n):
        ctx['sigs'][i] = rand_sig(rng, i)
        prog.append(def_node(rng, ctx, i, ctx['sigs'][i], False, 2))
        ctx['defined'].add(i)
        ctx['callable'].append(i)
    # feeder macros for \expandafter: a parameterless \def whose body starts with one brace group per parameter of its target
    for j in range(rng.choice([0, 1, 1, 2])):
        targets = [i for i in range(n) if not ctx['sigs'][i]['opt'] and not any(ctx['sigs'][i]['how'].get('delims') or [])
                   and 'csname' not in ctx['sigs'][i]['how']]
        if not targets:
            break
        tgt = rng.choice(targets)
        fid = 40 + j
        body = [['group', words(rng, ctx, rng.randint(0, 2)), 'brace'] for _ in range(ctx['sigs'][tgt]['np'])] + words(rng, ctx, rng.randint(0, 2))
        ctx['sigs'][fid] = dict(np=0, opt=False, how={'kind': 'def'})
        prog.append(['def', False, fid, 0, None, body, {'kind': rng.choice(['def', 'def', 'newcommand'])}])
        ctx['callable'].append(fid)
        ctx['feeders'].append((tgt, fid))
    prog += rand_main(rng, ctx, depth, False)
    return prog


def calls_with_args(ns):
    for n in ns:
        if isinstance(n, list) and n:
            if n[0] == 'call' and any(a for a in n[3]):
                return True
            for x in n[1:]:
                if isinstance(x, list) and calls_with_args([y for y in x if isinstance(y, list)] if x and isinstance(x[0], list) else []):
                    return True
            if n[0] == 'def' and calls_with_args(n[5]):
                return True
            if n[0] == 'group' and calls_with_args(n[1]):
                return True
    return False


# ---- printing choices beyond macrolang.Printer ---------------------------------------------------

class Printer2(ML.Printer):
    """how['argsep']: blanks in front of every braced undelimited argument;  how['csname'] == 'pfx': the name is built by
    \\csname\\zpfx <letters>\\endcsname where \\zpfx is a macro expanding to the prefix zq of all macro names"""
    usepfx = False

    def head(self, name, how):
        if how.get('csname') == 'pfx':
            self.usepfx = True
            return '\\csname\\zpfx %s\\endcsname' % ML.letters(name)
        if how.get('csname'):
            return '\\csname %s\\endcsname' % ML.mac(name)
        return '\\%s' % ML.mac(name)

    def node(self, n):
        k = n[0]
        if k == 'call':
            _, name, opt, args, how = n
            how = how or {}
            if how.get('ea') and not how.get('delims') and args and opt is None:
                return '\\expandafter' + self.head(name, how) + ''.join('{' + self.nodes(a) + '}' for a in args)
            if not how.get('delims') and (how.get('argsep') or how.get('csname') == 'pfx'):
                s = self.head(name, how) + (('[' + self.nodes(opt) + ']') if opt is not None else '')
                if not args and opt is None:
                    return s + '{}'
                sep = how.get('argsep') or ''
                return s + ''.join(sep + '{' + self.nodes(a) + '}' for a in args)
        if k == 'def':
            _, g, name, np, default, body, how = n
            how = how or {}
            if how.get('csname') == 'pfx' and default is None and how.get('kind', 'def') == 'def':
                delims = how.get('delims') or [''] * (np + 1)
                hashes = '#' * (2 ** self.depth)
                pat = delims[0] + ''.join('%s%d%s' % (hashes, i + 1, delims[i + 1]) for i in range(np))
                self.depth += 1
                b = self.nodes(body)
                self.depth -= 1
                return '\\expandafter\\%s%s%s{%s}' % ('gdef' if g else 'def', self.head(name, how), pat, b)
        return ML.Printer.node(self, n)


def to_source2(prog):
    p = Printer2()
    body = p.nodes(prog)
    cs = ML.counters_used(prog)
    pre = (''.join(('\\newcount\\%s ' % ML.regname(c)) if ML.is_reg(c) else ('\\newcounter{%s}' % ML.cntname(c)) for c in cs) + ML.REG_SCRATCH(cs) + ''.join(p.pre)
           + ('\\newcommand{\\zpfx}{zq}' if p.usepfx else ''))
    tail = 'Q' + ''.join(('\\number\\%s Q' % ML.regname(c)) if ML.is_reg(c) else ('\\arabic{%s}Q' % ML.cntname(c)) for c in cs)
    return pre + body + tail, cs


# ---- streams -----------------------------------------------------------------------------------

def streams(rng, tier, boost):
    out = []
    k = (1 if tier == 'quick' else 12) * boost
    for _ in range(1500 * k):
        out.append(('def-rendered', rand_def_case(rng)))
    for _ in range(800 * k):
        out.append(('newcommand-rendered', rand_nc_case(rng)))
    for _ in range(500 * k):
        out.append(('soup', rand_soup(rng)))
    for _ in range((500 if tier == 'quick' else 8000) * boost):
        out.append(('programs', dict(kind='prog', prog=rand_prog(rng, rng.choice([1, 2, 2, 3])))))
    # shapes kept on every run because a recorded finding lives there (see known_findings.json)
    for prog in KNOWN_SHAPES:
        out.append(('programs', dict(kind='prog', prog=prog)))
    out += engine_streams(rng, tier, boost)
    return out


# \def\za{\newcommand{\zb}[1]{W ##1}}\za\zb{W'}: a \newcommand with parameters written in the body of a PARAMETERLESS \def
KNOWN_SHAPES = [
    [['def', False, 40, 0, None, [['def', True, 41, 1, None, [['word', 3], ['param2', 1]], {'kind': 'newcommand'}]], {'kind': 'def'}],
     ['call', 40, None, [], {}], ['call', 41, None, [[['word', 5]]], {}]],
]


def nested_newcommand_in_parameterless_def(prog):
    """does the program write a newcommand-style definition with parameters directly in the body of a parameterless def?"""
    def walk(ns):
        for n in ns:
            if isinstance(n, list) and n and n[0] == 'def':
                _, g, name, np, default, body, how = n
                if np == 0 and default is None and (how or {}).get('kind', 'def') == 'def':
                    for m in body:
                        if isinstance(m, list) and m and m[0] == 'def' and m[3] > 0 and (m[6] or {}).get('kind') in ('newcommand', 'renewcommand'):
                            return True
                if walk(body):
                    return True
            elif isinstance(n, list):
                if walk([x for x in n if isinstance(x, list)]):
                    return True
        return False
    return walk(prog)


# ---- the expansion engine (Model/Engine.v) against TeX.__iter__ on token lists ------------------

_TOKCTX = []


def real_tokenize(src):
    """the token list the real Tokenizer (from $VERIF_REPO) gives for a source string, as (category, code points) pairs"""
    from plasTeX.Tokenizer import Tokenizer
    if not _TOKCTX:
        from plasTeX.TeX import TeXDocument
        import texrun
        texrun.quiet()
        _TOKCTX.append(TeXDocument().context)
    return [[int(t.catcode), [ord(ch) for ch in str(t)]] for t in Tokenizer(src, _TOKCTX[0])]


def engine_case(prog, style, table=None):
    src = EL.to_source(prog, style, table) if table else EL.to_source(prog, style)
    try:
        toks = real_tokenize(src)
    except Exception as e:      # a broken Tokenizer is C01's business: the case is dropped here
        return None
    names = [n for n in EL.names_in(toks) if n not in EL.PRIMS]
    cnames = [(EL.fcnt(c) if style == 'f' else ML.cntname(c)) for c in ML.counters_used(prog)]
    c = dict(kind='engine', toks=toks, names=names, cnames=cnames, prog=prog, src=src, style=style)
    if table:
        c['table'] = {str(k): v for k, v in table.items()}
    return c


def engine_streams(rng, tier, boost):
    out = []
    q = tier == 'quick'
    for _ in range((700 if q else 8000) * boost):
        f1 = rng.random() < 0.4
        c = engine_case(EL.gen_prog(rng, f1_only=f1), rng.choice(['f', 'ml']) if f1 else 'ml')
        if c is not None:
            out.append(('engine', c))
    for _ in range((500 if q else 6000) * boost):
        toks = EL.gen_soup(rng)
        out.append(('engine-soup', dict(kind='engine', toks=toks, names=[n for n in EL.names_in(toks) if n not in EL.PRIMS], cnames=['a', 'b', 'c', 'ab'])))
    for _ in range((300 if q else 3000) * boost):
        f1 = rng.random() < 0.5
        out.append(('print', dict(kind='print', prog=EL.gen_prog(rng, f1_only=f1, max_params=rng.choice([3, 9]), delims=False, allow_nested=not f1))))
    for _ in range((150 if q else 2000) * boost):
        # printing under a delimiter assignment (MacroPrint.Delims given as a table): the printer twin, the fragment twin and, for
        # programs of the fragment (where printing by parameter count is faithful), the engine on the printed tokens
        prog = EL.gen_prog(rng, max_params=rng.choice([3, 9]), delims=False)
        table = EL.gen_table(rng, prog)
        EL.fit_to_table(prog, table)
        out.append(('print-delims', dict(kind='print', prog=prog, table={str(k): v for k, v in table.items()})))
        if table and EL.in_f2(prog, table) and EL.expandafter_ok(prog, table):
            c = engine_case(prog, 'f', table)
            if c is not None:
                out.append(('engine-delims', c))
    for toks in EL.all_small(2 if q else 3):
        out.append(('engine-small', dict(kind='engine', toks=toks, names=[n for n in EL.names_in(toks) if n not in EL.PRIMS])))
    return out


def search_streams(rng, tier):
    return [('search', dict(kind='prog', prog=rand_prog(rng, 2))) for _ in range(800)]


def show_toks(toks):
    s = []
    for c, t in toks:
        s.append(('\\' + ''.join(map(chr, t)) + ' ') if c == 0 else ''.join(map(chr, t)))
    return ''.join(s)


def describe(case):
    if case['kind'] == 'def':
        return dict(definition='\\def\\zzmac' + show_toks(case['args']) + '{' + show_toks(case['body']) + '}', call='\\zzmac ' + show_toks(case['stream']))
    if case['kind'] == 'nc':
        return dict(newcommand=dict(nargs=case['nargs'], opt=(show_toks(case['opt']) if case['opt'] is not None else None), body=show_toks(case['body'])),
                    call='\\zzmac ' + show_toks(case['stream']))
    if case['kind'] == 'engine':
        return dict(tokens=EL.show(case['toks']), source=case.get('src'))
    if case['kind'] == 'print':
        return dict(source=EL.to_source(case['prog'], 'f', case_table(case)), table=case.get('table'))
    return to_source2(case['prog'])[0]


def model_input(case):
    if case['kind'] == 'print':
        if case.get('table') is not None:
            return [4, EL.table_wire(case_table(case) or {}), ML.w_nodes(case['prog'])]
        return [3, ML.w_nodes(case['prog'])]
    if case['kind'] == 'engine':
        x = [case['toks'], [[ord(ch) for ch in n] for n in case['names']]]
        if case.get('cnames') is not None:
            x.append([[ord(ch) for ch in n] for n in case['cnames']])
        return [2, x, ML.w_nodes(case['prog'])] if case.get('prog') is not None else [2, x]
    if case['kind'] == 'def':
        return [0, [0, case['args'], case['body'], case['stream']]]
    if case['kind'] == 'nc':
        return [0, [1, case['nargs'], ([case['opt']] if case['opt'] is not None else []), case['body'], case['stream']]]
    return [1, ML.w_nodes(case['prog'])]


def worker_init():
    import texrun
    texrun.quiet()


def mk_tokens(pairs):
    from plasTeX.Tokenizer import Tokenizer, EscapeSequence, Space
    out = []
    for c, t in pairs:
        s = ''.join(map(chr, t))
        if c == 0:
            out.append(EscapeSequence(s))
        elif c == 10:
            out.append(Space(s))
        else:
            out.append(Tokenizer.tokenClasses[c](s))
    return out


def obs_tokens(toks):
    return [[int(t.catcode), [ord(ch) for ch in str(t)]] for t in toks if t is not None]


ELEM_CLASS = {'bgroup': 0, 'egroup': 1, 'def_': 2, 'gdef': 3, 'relax': 4, 'else_': 5, 'fi': 6, 'newcommand': 9, 'renewcommand': 10, 'let': 11, 'newif': 12, 'stepcounter': 13, 'setcounter': 14, 'addtocounter': 15}


def run_engine(case):
    import plasTeX
    from plasTeX.TeX import TeX, TeXDocument
    # building a fresh document reads files; on a loaded machine this has failed transiently, which is not an observation of the
    # expansion loop: it is retried, and reported as a runner problem (never as a property violation) if it keeps failing
    for attempt in range(3):
        try:
            doc = TeXDocument()
            tex = TeX(doc)
            tex.disableLogging()
            break
        except Exception as e:
            if attempt == 2:
                return ['runner', type(e).__name__, str(e)[:200]]
            import time
            time.sleep(0.5)
    ctx = doc.context
    for n in case['names']:
        if n in ctx:
            return ['skip', 'a name of the case is a macro of the base context', n]
    tex.input(mk_tokens(case['toks']))
    out = []
    try:
        for t in tex:
            if t.nodeType == 1:
                cls = 7 if isinstance(t, plasTeX.UnrecognizedMacro) else ELEM_CLASS.get(type(t).__name__, 99)
                out.append([16 + cls, [ord(ch) for ch in str(t.nodeName)]])
            else:
                out.append([int(t.catcode), [ord(ch) for ch in str(t)]])
    except Exception as e:
        return [-2, type(e).__name__]
    means = []
    for n in case['names']:
        c = None
        for item in reversed(ctx.contexts):
            if dict.__contains__(item, n):
                c = dict.__getitem__(item, n)
                break
        if c is None:
            means.append([3])
        elif isinstance(c, type) and issubclass(c, plasTeX.Definition):
            means.append([0, obs_tokens(c.args or []), obs_tokens(c.definition or [])])
        elif isinstance(c, type) and issubclass(c, plasTeX.NewCommand):
            # a negative [nargs] behaves like 0 (range(nargs) is empty); the Model keeps a natural number
            means.append([4, max(int(c.nargs), 0), ([obs_tokens(c.opt)] if c.opt is not None else []), obs_tokens(c.definition or [])])
        elif isinstance(c, type) and issubclass(c, plasTeX.UnrecognizedMacro):
            means.append([2])
        elif isinstance(c, type) and issubclass(c, plasTeX.NewIf):
            means.append([5, 1 if c.state else 0])
        elif isinstance(c, type) and issubclass(c, plasTeX.IfTrue):
            means.append([6, 1])
        elif isinstance(c, type) and issubclass(c, plasTeX.IfFalse):
            means.append([6, 0])
        else:
            means.append([1])
    if case.get('cnames') is not None:
        return [0, out, len(ctx.contexts), means, [int(ctx.counters[c].value) if c in ctx.counters else 0 for c in case['cnames']]]
    return [0, out, len(ctx.contexts), means]


def case_table(case):
    """the delimiter assignment of a case ({np: [delimiters]}; JSON keys are strings) or None"""
    t = case.get('table')
    return {int(k): v for k, v in t.items()} if t else None


def run_impl(case):
    if case['kind'] == 'engine':
        return run_engine(case)
    if case['kind'] == 'print':
        table = case_table(case)
        return [real_tokenize(EL.to_source(case['prog'], 'f', table)), 1 if EL.in_f1(case['prog']) else 0, 1 if EL.in_f2(case['prog'], table) else 0]
    if case['kind'] in ('def', 'nc'):
        from plasTeX.TeX import TeX, TeXDocument
        doc = TeXDocument()
        tex = TeX(doc)
        tex.disableLogging()
        ctx = doc.context
        if case['kind'] == 'def':
            ctx.newdef('zzmac', mk_tokens(case['args']), mk_tokens(case['body']))
        else:
            ctx.newcommand('zzmac', case['nargs'], mk_tokens(case['body']), opt=(mk_tokens(case['opt']) if case['opt'] is not None else None))
        tex.input(mk_tokens(case['stream']))
        obj = doc.createElement('zzmac')
        try:
            toks = obj.invoke(tex)
        except (ValueError, IndexError, TypeError) as e:
            return [-2, 0]
        rest = list(tex.itertokens())
        return [0, obs_tokens(list(toks or []) + rest)]
    src, cs = to_source2(case['prog'])
    return ML.run_source(src, len(cs))


def engine_text(obs):
    return ''.join(''.join(map(chr, t)) for c, t in obs if c in (6, 11, 12))


def nontrivial(case, io):
    if case['kind'] == 'print':
        return len(case['prog']) > 1
    if case['kind'] == 'engine':
        return any(c == 0 and ''.join(map(chr, t)) not in EL.PRIMS for c, t in case['toks']) and isinstance(io, list) and io[:1] == [0]
    if case['kind'] in ('def', 'nc'):
        return any(t == HASH for t in case['body']) and len(case['stream']) >= 2
    return calls_with_args(case['prog'])


def tags(case, io):
    t = [case['kind']]
    if case['kind'] == 'print' and case.get('table') is not None:
        tb = case_table(case)
        src = EL.to_source(case['prog'], 'f', tb)
        return t + ['print-delims:' + ('F3' if EL.in_f2(case['prog'], tb) else 'beyond-F3') + ('-delimited' if any(ch in src for ch in '.,;:!') else '')]
    if case['kind'] == 'print':
        return t + ['print:F1' if EL.in_f1(case['prog']) else (('print:F3-nested' if EL.has_nested_def(case['prog']) else 'print:F2') if EL.in_f2(case['prog']) else 'print:beyond-F3')]
    if case['kind'] == 'engine':
        if isinstance(io, list) and io[:1] == [-2]:
            t.append('engine:impl-raises')
        if isinstance(io, list) and io[:1] == ['skip']:
            t.append('engine:skipped')
        if case.get('table'):
            t.append('engine:delims' + ('-delimited' if any(ch in (case.get('src') or '') for ch in '.,;:!') else ''))
        if case.get('prog') is not None:
            if EL.has_expandafter(case['prog']):
                t.append('engine:expandafter' + ('' if EL.in_f2(case['prog']) else '-beyond-F3'))
            t.append('engine:F1' if EL.in_f1(case['prog']) else (('engine:F3-nested' if EL.has_nested_def(case['prog']) else 'engine:F2') if EL.in_f2(case['prog'], case_table(case)) else 'engine:beyond-F3'))
        return t
    if case['kind'] == 'def':
        t.append('params=%d' % sum(1 for x in case['args'] if x == HASH))
    if case['kind'] == 'nc':
        t.append('opt=' + ('none' if case['opt'] is None else ('present' if case['stream'][:1] == [LB] else 'absent')))
    if isinstance(io, list) and io[:1] == [-2]:
        t.append('impl-raises')
    return t


def judge_engine(case, io, mo):
    if mo == [-3] or not isinstance(mo, list) or not mo or not isinstance(mo[0], list):
        return None if mo == [-3] else dict(violation=False, key='C02:engine:model', expected=mo, what='the engine Model gave no answer')
    eng = mo[0]
    den = mo[1] if len(mo) > 1 else None
    if isinstance(io, list) and io[:1] == ['skip']:
        return None
    if isinstance(io, list) and io[:1] == ['runner']:
        return dict(violation=False, key='C02:engine:runner', expected=eng, what='the implementation runner could not build a document: %s' % (io,))
    if eng[:1] == [-5]:
        return None          # the Model says it does not follow the code here (octal/hex constants, ...): not compared
    if eng[:1] == [-2]:
        agree = isinstance(io, list) and io[:1] == [-2]
    else:
        agree = io == eng
    # the Spec oracle (reference evaluator) on the implementation's own output, when the case is a program it gives a meaning to
    wrong = False
    exp = None
    if den is not None and isinstance(den, list) and den[:1] == [0]:
        wname = EL.fword if case.get('style') == 'f' else ML.word
        exp = ''.join('#' if w == -1 else wname(w) for w in den[1])
        wrong = not (isinstance(io, list) and io[:1] == [0] and engine_text(io[1]) == exp)
    if agree and not wrong:
        return None
    if wrong:
        kind = 'raises' if io[:1] in ([-2], ['raise']) else ('hang' if io[:1] == ['hang'] else 'wrong-text')
        return dict(violation=True, key='C02:engine:' + kind, expected=exp,
                    what='expansion loop yields %s, TeX rules give the text %s' % (str(io)[:300], exp))
    return dict(violation=False, key='C02:engine:differs', expected=eng,
                what='TeX.__iter__ yields %s, the engine Model %s' % (str(io)[:300], str(eng)[:300]))


def judge(case, io, mo):
    if case['kind'] == 'engine':
        return judge_engine(case, io, mo)
    if case['kind'] == 'print':
        # Spec/MacroPrint.print against the real Tokenizer on the printed source (and the fragment test against its Python twin):
        # a difference is about the printing convention of the theorem, not about the property
        if isinstance(mo, list) and len(mo) == 4 and isinstance(io, list) and len(io) == 3 and mo[0] == io[0] and mo[1] == io[1] and mo[3] == io[2]:
            return None
        return dict(violation=False, key='C02:print', expected=mo, what='Tokenizer gives %s, Spec/MacroPrint.print %s' % (str(io)[:300], str(mo)[:300]))
    if case['kind'] in ('def', 'nc'):
        if io == mo:
            return None
        return dict(violation=bool(case.get('rendered')), key='C02:' + case['kind'] + (':raises' if io[:1] in ([-2], ['raise']) else ':wrong-expansion'),
                    expected=mo, what='expansion gives %s, substitution rule gives %s' % (str(io)[:200], str(mo)[:200]))
    cs = ML.counters_used(case['prog'])
    exp = ML.expected_from_model(mo, cs)
    if exp == [-3]:
        return None     # the reference evaluator gave up (fuel / size guard): the case is not compared (tagged in the evidence)
    if not (isinstance(exp, list) and exp and exp[0] == 0):
        return dict(violation=False, key='C02:generator', expected=exp, what='the reference evaluator rejects this program (generator defect)')
    if io == exp:
        return None
    kind = 'raises' if io[:1] in ([-2], ['raise']) else ('hang' if io[:1] == ['hang'] else 'wrong-text')
    if kind == 'wrong-text' and nested_newcommand_in_parameterless_def(case['prog']):
        kind = 'nested-newcommand-in-parameterless-def'
    return dict(violation=True, key='C02:prog:' + kind, expected=exp, what='document text %s, TeX rules give %s' % (str(io[:2])[:300], str(exp[:2])[:300]))


def shrink(case):
    if case['kind'] == 'print':
        return
    if case['kind'] == 'engine':
        if case.get('prog') is not None:
            import props.C03 as C03
            for v in C03.shrink(dict(kind='prog', prog=case['prog'])):
                c = engine_case(v['prog'], case.get('style', 'ml'), case_table(case))
                if c is not None:
                    yield c
        else:
            t = case['toks']
            for i in range(len(t)):
                u = t[:i] + t[i + 1:]
                yield dict(kind='engine', toks=u, names=[n for n in EL.names_in(u) if n not in EL.PRIMS])
        return
    if case['kind'] in ('def', 'nc'):
        for f in ('stream', 'body', 'args'):
            if f in case:
                t = case[f]
                for i in range(len(t)):
                    yield dict(case, **{f: t[:i] + t[i + 1:]}, rendered=False)
        return
    import props.C03 as C03
    for v in C03.shrink(dict(kind='prog', prog=case['prog'])):
        yield v
