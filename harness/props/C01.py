"""C01 -- tokenization follows TeX's lexical rules for every input and catcode table.
Correspondence: plasTeX Tokenizer / TeX.itertokens (from /repo) vs Model/Tokenizer.v (tables from Gen/Catcodes.v)."""
import itertools
import os

ID = 'C01'
PINS = [('plasTeX/Tokenizer.py', 'Tokenizer.iterchars'), ('plasTeX/Tokenizer.py', 'Tokenizer.__iter__'),
        ('plasTeX/Tokenizer.py', 'Tokenizer.readline'), ('plasTeX/Tokenizer.py', 'Tokenizer.pushChar'),
        ('plasTeX/Context.py', 'Context.whichCode'), ('plasTeX/Context.py', 'Context.catcode'),
        ('plasTeX/Context.py', 'Context.setVerbatimCatcodes'), ('plasTeX/TeX.py', 'TeX.itertokens'),
        ('plasTeX/Context.py', 'Context.push'), ('plasTeX/Context.py', 'Context.pop')]
RULE = ('strings over the adversarial alphabet of the property (escape, braces, $ & # ^ _ ~ %, blank, tab, newline, CR, NUL, FF, letters, '
        'digits, @, non-ASCII, ^^-sequences incl. at end of input) under tables {default, @-letter, verbatim, default + random \\catcode '
        'assignments}; exhaustive over all strings up to a length bound over a 12-symbol alphabet under the default table; a stream '
        'that changes category codes after k pulled tokens; \\catcode assignments inside nested groups (Context.push / pop), probed after groups are left; observed through Tokenizer(source, context) and TeX.input(s).itertokens(). '
        'Non-trivial = at least 3 characters and at least one character that is neither letter nor other.')
TRUSTED = ['modelled, not verified: StringIO.read(1) as list traversal; line-number bookkeeping ignored; \\let aliases (Context.get_let) are the '
           'identity in the contexts used here (covered by C04)']
ASSUMPTIONS = ['category codes given to Context.catcode are in 0..15 (other values raise IndexError in the code; excluded)']
CASE_TIMEOUT = 10

ALPHA12 = ['\\', '{', '%', '^', ' ', '\n', 'a', 'M', '1', '~', '\r', '#']
ADV = ['\\', '{', '}', '$', '&', '#', '^', '_', '~', '%', ' ', ' ', '\t', '\n', '\n', '\r', '\x00', '\x0c', 'a', 'b', 'Z', 'p', 'r', 'M', 'J',
       '@', '0', '7', '?', '\x7f', '\xe9', '€', '^^', '^^M', '^^J', '^^@', '^^I', '^^5c', '^^?', '\\par', '\\par ', '\\ ', '\\\n', '\\a', '\\ab ', '%x\n']


def gen_tables(repo, gen_dir):
    from translate import catcodes
    d = catcodes.generate(repo, gen_dir)
    return dict(obligations=0, file='Gen/Catcodes.v', chain=d['chain'])


def rand_string(rng, n):
    return ''.join(rng.choice(ADV) for _ in range(n))


def rand_ops(rng, n):
    chars = ['@', '\\', '{', '%', '^', ' ', '\n', '\r', 'a', 'M', '~', '|', '!', '#', '\x00', '1', '$']
    return [[ord(rng.choice(chars)), rng.randint(0, 15)] for _ in range(n)]


def streams(rng, tier, boost):
    out = []
    # exhaustive small scope under the default table
    L = 4 if tier == 'quick' else 5
    if boost > 1 and tier == 'quick':
        L = 5
    for n in range(L + 1):
        for tup in itertools.product(ALPHA12, repeat=n):
            out.append(('exhaustive', dict(base=0, ops=[], s=''.join(tup), sched=[], via='tokenizer')))
    n = (8000 if tier == "quick" else 60000) * boost
    for i in range(n):
        r = rng.random()
        s = rand_string(rng, rng.choice([1, 2, 3, 5, 8, 13, 21, 40] + ([120, 200] if tier == 'thorough' else [])))
        via = 'tex' if rng.random() < 0.25 else 'tokenizer'
        if r < 0.35:
            out.append(('default', dict(base=0, ops=[], s=s, sched=[], via=via)))
        elif r < 0.45:
            out.append(('at-letter', dict(base=0, ops=[[64, 11]], s=s, sched=[], via=via)))
        elif r < 0.55:
            out.append(('verbatim', dict(base=1, ops=[], s=s, sched=[], via='tokenizer')))
        elif r < 0.85:
            out.append(('random-table', dict(base=0, ops=rand_ops(rng, rng.randint(1, 6)), s=s, sched=[], via=via)))
        else:
            k = rng.randint(1, 3)
            sched = [[rng.randint(1, 8)] + rand_ops(rng, 1)[0] for _ in range(k)]
            out.append(('mid-stream-catcode', dict(base=0, ops=rand_ops(rng, rng.randint(0, 2)), s=s, sched=sched, via='tokenizer')))
    # table algebra: every pair of successive assignments to one character (exhaustive), then random re-assignment histories
    probe = [ord(c) for c in '@\\{}%^ \n\raM~|!#\x001$']
    for k1 in range(16):
        for k2 in range(16):
            out.append(('table-reassign', dict(kind='table', ops=[[33, k1], [33, k2]], cs=probe)))
            out.append(('table-reassign', dict(kind='table', ops=[[94, k1], [33, k1], [94, k2]], cs=probe)))
    for i in range((300 if tier == 'quick' else 3000) * boost):
        chars = [rng.choice([33, 94, 64]) for _ in range(rng.randint(2, 6))]
        out.append(('table-reassign', dict(kind='table', ops=[[c, rng.randint(0, 15)] for c in chars], cs=probe)))
    # table algebra under grouping: assignments inside nested groups, probes after some of the groups have been left
    for ops in GROUP_CORPUS:
        out.append(('table-groups', dict(kind='gtable', ops=ops, cs=probe)))
    for i in range((1500 if tier == 'quick' else 15000) * boost):
        out.append(('table-groups', dict(kind='gtable', ops=rand_gops(rng, rng.randint(3, 14)), cs=probe)))
    # table algebra alone
    for i in range((200 if tier == 'quick' else 2000) * boost):
        out.append(('table-algebra', dict(kind='table', ops=rand_ops(rng, rng.randint(1, 10)),
                                          cs=[ord(c) for c in '@\\{}%^ \n\raM~|!#\x001$'])))
    return out


GROUP_CORPUS = [
    [[0, 16], [64, 11], [0, 16], [37, 12], [0, 17]],
    [[0, 16], [64, 11], [0, 16], [37, 12], [0, 17], [0, 17]],
    [[0, 16], [0, 16], [37, 12], [0, 17], [64, 11], [0, 17]],
    [[33, 13], [0, 16], [33, 14], [0, 16], [33, 11], [0, 16], [33, 0], [0, 17], [0, 17]],
    [[0, 16], [33, 13], [0, 16], [0, 16], [94, 12], [0, 17], [33, 11], [0, 17]],
]


def rand_gops(rng, n):
    """assignments (c, k<16), group entry (., 16), group exit (., 17; only while a group is open)"""
    ops, depth = [], 0
    for _ in range(n):
        r = rng.random()
        if r < 0.3 and depth < 4:
            ops.append([0, 16])
            depth += 1
        elif r < 0.55 and depth > 0:
            ops.append([0, 17])
            depth -= 1
        else:
            ops.append([rng.choice([33, 94, 64, 37, 92, 123]), rng.randint(0, 15)])
    return ops


def search_streams(rng, tier):
    return [('search', dict(base=0, ops=rand_ops(rng, rng.randint(0, 3)), s=rand_string(rng, rng.randint(1, 12)), sched=[], via='tokenizer'))
            for _ in range(5000)]


def describe(case):
    if case.get('kind') == 'gtable':
        return dict(grouped_catcode_ops=[('begin-group' if k == 16 else 'end-group' if k == 17 else ('catcode', c, k)) for c, k in case['ops']],
                    probe=case['cs'])
    if case.get('kind') == 'table':
        return dict(catcode_ops=case['ops'], probe=case['cs'])
    return dict(table='default' if case['base'] == 0 else 'verbatim', catcode_ops=case['ops'], string=case['s'],
                changes_after_n_tokens=case['sched'], via=case['via'])


def model_input(case):
    if case.get('kind') == 'gtable':
        return [8, case['ops'], case['cs']]
    if case.get('kind') == 'table':
        return [9, case['ops'], case['cs']]
    return [case['base'], case['ops'], [ord(c) for c in case['s']], case['sched']]


_DOC = None


def worker_init():
    import texrun
    texrun.quiet()


def run_impl(case):
    from plasTeX.Context import Context
    from plasTeX.Tokenizer import Tokenizer
    if case.get('kind') == 'gtable':
        ctx = Context(load=False)
        for c, k in case['ops']:
            if k == 16:
                ctx.push()
            elif k == 17:
                ctx.pop()
            else:
                ctx.catcode(chr(c), k)
        return [ctx.whichCode(chr(c)) for c in case['cs']]
    if case.get('kind') == 'table':
        ctx = Context(load=False)
        for c, k in case['ops']:
            ctx.catcode(chr(c), k)
        return [ctx.whichCode(chr(c)) for c in case['cs']]
    out = []
    sched = {}
    for n, c, k in case['sched']:
        sched.setdefault(n, []).append((c, k))
    if case['via'] == 'tex':
        from plasTeX.TeX import TeX, TeXDocument
        doc = TeXDocument()
        ctx = doc.context
        tex = TeX(doc)
        tex.disableLogging()
        if case['base'] == 1:
            ctx.setVerbatimCatcodes()
        for c, k in case['ops']:
            ctx.catcode(chr(c), k)
        tex.input(case['s'])
        it = tex.itertokens()
    else:
        ctx = Context(load=False)
        if case['base'] == 1:
            ctx.setVerbatimCatcodes()
        for c, k in case['ops']:
            ctx.catcode(chr(c), k)
        it = iter(Tokenizer(case['s'], ctx))
    n = 0
    try:
        for t in it:
            out.append([int(t.catcode), [ord(ch) for ch in str(t)]])
            n += 1
            for c, k in sched.get(n, []):
                ctx.catcode(chr(c), k)
            if n > 5000:
                return ['hang', 'more tokens than characters']
    except (TypeError, IndexError, ValueError, AttributeError) as e:
        return [-2, 0, out]
    return [0, out]


def nontrivial(case, io):
    if case.get('kind') in ('table', 'gtable'):
        return len(case['ops']) >= 2
    s = case['s']
    return len(s) >= 3 and any(not (c.isalnum()) for c in s)


def tags(case, io):
    if case.get('kind') == 'gtable':
        return ['table-groups', 'max-depth-%d' % max([0] + [sum(1 if k == 16 else -1 if k == 17 else 0 for _, k in case['ops'][:i + 1]) for i in range(len(case['ops']))])]
    if case.get('kind') == 'table':
        return ['table-algebra']
    t = ['via=' + case['via'], 'len<=%d' % (min(8, 1 << (max(len(case['s']), 1) - 1).bit_length()) if len(case['s']) <= 8 else (64 if len(case['s']) <= 64 else 1000))]
    if isinstance(io, list) and io[:1] == [-2]:
        t.append('impl-raises')
    if isinstance(io, list) and io[:1] == [0]:
        cats = {tk[0] for tk in io[1]}
        for k in sorted(cats):
            t.append('emits-cat-%d' % k)
    return t


def judge(case, io, mo):
    if io == mo:
        return None
    # The Model is proved to be the prescribed stream (Properties/C01.v), so a different stream, a raise or a hang is a violation.
    if isinstance(io, list) and io[:1] in ([-2], ['raise']):
        key = 'C01:raises'
    elif io[:1] == ['hang']:
        key = 'C01:does-not-terminate'
    else:
        key = 'C01:wrong-stream'
    return dict(violation=True, key=key, expected=mo, what='token stream differs from the prescribed one')


def shrink(case):
    if case.get('kind') == 'gtable':
        ops = case['ops']
        for i in range(len(ops)):
            if ops[i][1] < 16:
                yield dict(case, ops=ops[:i] + ops[i + 1:])
            elif ops[i][1] == 16:
                # drop a group entry together with its exit (or alone when it is never left)
                d = 0
                for j in range(i, len(ops)):
                    d += 1 if ops[j][1] == 16 else -1 if ops[j][1] == 17 else 0
                    if d == 0:
                        yield dict(case, ops=ops[:i] + ops[i + 1:j] + ops[j + 1:])
                        break
                else:
                    yield dict(case, ops=ops[:i] + ops[i + 1:])
        return
    if case.get('kind') == 'table':
        for i in range(len(case['ops'])):
            yield dict(case, ops=case['ops'][:i] + case['ops'][i + 1:])
        return
    s = case['s']
    if case['via'] == 'tex':
        yield dict(case, via='tokenizer')
    for i in range(len(case['sched'])):
        yield dict(case, sched=case['sched'][:i] + case['sched'][i + 1:])
    for i in range(len(case['ops'])):
        yield dict(case, ops=case['ops'][:i] + case['ops'][i + 1:])
    n = len(s)
    if n > 4:
        yield dict(case, s=s[:n // 2])
        yield dict(case, s=s[n // 2:])
    for i in range(n):
        yield dict(case, s=s[:i] + s[i + 1:])
