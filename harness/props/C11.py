"""C11 -- verbatim text and mathematics pass through character-for-character.
Correspondence: plasTeX VerbatimEnvironment.invoke / verb.invoke+digest / the .source properties (from $VERIF_REPO) vs
Model/Verbatim.v (end-pattern scan, \\verb delimiter scan, tokenizer state handed back) and Model/Source.v (source printer)."""
import random

ID = 'C11'
PINS = [('plasTeX/__init__.py', 'VerbatimEnvironment.invoke'), ('plasTeX/__init__.py', 'NoCharSubEnvironment.normalize'),
        ('plasTeX/Base/LaTeX/Verbatim.py', 'verb.invoke'), ('plasTeX/Base/LaTeX/Verbatim.py', 'verb.digest'),
        ('plasTeX/Base/LaTeX/Verbatim.py', 'verb.normalize'), ('plasTeX/Context.py', 'Context.setVerbatimCatcodes'),
        ('plasTeX/__init__.py', 'Macro.source'), ('plasTeX/__init__.py', 'sourceChildren'), ('plasTeX/__init__.py', 'sourceArguments'),
        ('plasTeX/__init__.py', 'Macro.parse'), ('plasTeX/Tokenizer.py', 'EscapeSequence.source'), ('plasTeX/Tokenizer.py', 'Token.source'),
        ('plasTeX/TeX.py', 'TeX.readToken'), ('plasTeX/TeX.py', 'TeX.readGrouping'), ('plasTeX/TeX.py', 'TeX.source'),
        ('plasTeX/Base/LaTeX/Math.py', 'math.source'), ('plasTeX/Base/LaTeX/Math.py', 'displaymath.source'),
        ('plasTeX/Base/LaTeX/Math.py', 'mathjax_lt_gt'), ('plasTeX/Base/LaTeX/Math.py', 'AngleReplacingDelimiter.invoke'),
        ('plasTeX/Base/LaTeX/Arrays.py', 'Array.source'), ('plasTeX/Base/TeX/Text.py', 'bgroup.source'),
        ('plasTeX/Base/TeX/Primitives.py', 'MathShift.invoke'), ('plasTeX/Base/TeX/Primitives.py', 'SuperScript.invoke'),
        ('plasTeX/TeX.py', 'TeX.readArgumentAndSource'), ('plasTeX/TeX.py', 'TeX.readCharacter'), ('plasTeX/TeX.py', 'TeX.readOptionalSpaces'),
        ('plasTeX/TeX.py', 'TeX.expandTokens'), ('plasTeX/Base/LaTeX/Environments.py', 'begin.invoke'),
        ('plasTeX/Base/TeX/Primitives.py', 'BoxCommand.parse')]
RULE = ('verbatim / verbatim* environments (\\begin..\\end, and \\verbatim..\\endverbatim) with bodies over the full printable ASCII alphabet, '
        'newlines, ^^-sequences, comment-/ligature-like sequences, with every proper prefix of both end markers inserted at every position of a '
        'set of base bodies; exhaustive bodies over a 6-symbol alphabet; bodies containing a complete end marker or none (malformed stream); '
        '\\verb and \\verb* with every printable non-letter delimiter; followed by text that must be processed normally; placed at top level and '
        'inside itemize/quote/center/a group. Mathematics: formulas of a grammar (letters, digits, operators, control words and symbols, '
        'scripts with braced or bare arguments, \\frac, \\sqrt[..], accents/fonts, {groups}, \\left..\\right with 14 delimiters, arrays with '
        '\\hline, \\text/\\mbox/\\textbf boxes with nested inline math, user macros with 0-2 parameters, with and without an optional first parameter (empty and non-empty default, called with and without it); depth <= 4) in $ $, \\( \\), \\[ \\], '
        'equation and inside \\textbf/\\emph/\\section/\\footnote arguments; written with insignificant blanks only (exact comparison of '
        'node.source with the Model) or with blanks/newlines anywhere (comparison blanks aside). '
        'Non-trivial = a verbatim/\\verb body of >= 3 characters with at least one special character, or a formula of >= 4 nodes.')
TRUSTED = ['modelled (Model/MathParse.v, tied on every math case: parsed tree = generator tree, source = node.source), with a hand-written signature table '
           'for the grammar vocabulary; user-macro expansion is done by the generator (C02); '
           'TeX.__iter__ handing Letter/Other tokens through unexpanded, Context.push/pop restoring the category codes (C04), '
           'Environment.digest collecting the tokens as children, DOM textContent']
ASSUMPTIONS = ['the category codes in force around the verbatim material are the default ones (escape \\, groups { })',
               'a \\verb delimiter is a printable ASCII character other than a letter, a blank, * and {',
               'formulas do not contain ^^-notation, comments, blank lines or a superscript character as bare script argument']
CASE_TIMEOUT = 20

LETTERS = 'abcdefghijklmnopqrstuvwxyzABCDEFGHIJKLMNOPQRSTUVWXYZ'


def cps(s):
    return [ord(c) for c in s]


def P(x):
    """a plain str (plasTeX strings are str subclasses that drag the document along)"""
    return None if x is None else ''.join(chr(ord(c)) for c in x)


# =====================================================================================================
# verbatim environments and \verb

PRINTABLE = [chr(c) for c in range(32, 127)] + ['\n', '\n']
SPECIAL = ['^^M', '^^', '^^5c', '^^J', '\\', '{', '}', '%', '  ', '\n\n', '--', '---', '``', "''", '~', '$', '&', '#', '<<', '>>', '!`', '?`',
           '\\end', '\\begin{verbatim}', '\\end{verbatimx}', '\\end {verbatim}', '\\endverb', '% c\n', '\\par', '\t', '\\verb|x|', ' ', '\n']
CONTEXTS = [('', ''), ('\\begin{itemize}\\item ', '\\end{itemize}'), ('\\begin{quote}', '\\end{quote}'), ('{\\bfseries ', '}'),
            ('\\begin{center}', '\\end{center}')]
AFTERS = ['Z', ' Z', '\nZ', 'Z\\textbf{q}w', ' $x^2$ w', '%c\nZ', ' {\\em z}y', '~z', '--z', '\n\nNew par', ' a  b', '', 'Z%\n', '\\relax Z', '{Z}']
VERB_DELIMS = [chr(c) for c in range(33, 127) if chr(c) not in LETTERS and chr(c) not in '*{']


def env_patterns(env):
    return '\\end{%s}' % env, '\\end%s' % env


def first_end(s, env):
    """earliest k such that s[:k] ends with one of the two end patterns, with the pattern; None if there is none"""
    p1, p2 = env_patterns(env)
    best = None
    for which, p in ((1, p1), (2, p2)):
        i = s.find(p)
        if i >= 0 and (best is None or i + len(p) < best[0]):
            best = (i + len(p), which)
    return best


def rand_body(rng, n):
    return ''.join(rng.choice(PRINTABLE) if rng.random() < 0.6 else rng.choice(SPECIAL) for _ in range(n))


def env_case(env, form, body, end, after, ctx=0):
    return dict(kind='env', env=env, form=form, body=body, end=end, after=after, ctx=ctx)


def env_streams(rng, tier, boost):
    out = []
    q = tier == 'quick'
    # every proper prefix of both end markers at every position of base bodies
    nbase = (5 if q else 14) * boost
    bases = ['', 'ab', 'x\\y{z}%q'] + [rand_body(rng, rng.choice([2, 4, 7])) for _ in range(100)]
    for env in ('verbatim', 'verbatim*'):
        p1, p2 = env_patterns(env)
        prefixes = sorted({p[:i] for p in (p1, p2) for i in range(1, len(p))})
        for b in bases[:nbase]:
            for pre in prefixes:
                for k in range(len(b) + 1):
                    body = b[:k] + pre + b[k:]
                    out.append(('verbatim-prefixes', env_case(env, 'begin', body, 1, 'Z q', 0)))
    # exhaustive small scope
    L = 3 if q else 5
    if boost > 1 and q:
        L = 4
    import itertools
    for n in range(L + 1):
        for tup in itertools.product(['\\', 'e', '{', '}', 'x', '\n'], repeat=n):
            out.append(('verbatim-exhaustive', env_case('verbatim', 'begin', ''.join(tup), 1, 'Z', 0)))
    # random
    for _ in range((1200 if q else 9000) * boost):
        env = rng.choice(['verbatim', 'verbatim', 'verbatim*'])
        form = 'begin' if env == 'verbatim*' or rng.random() < 0.8 else 'command'
        body = rand_body(rng, rng.choice([0, 1, 2, 3, 5, 8, 13, 30, 60]))
        if rng.random() < 0.5:
            p = rng.choice(env_patterns(env))
            k = rng.randint(0, len(body))
            body = body[:k] + p[:rng.randint(1, len(p) - 1)] + body[k:]
        end = rng.choice([1, 1, 1, 2])
        if form == 'command' and (body[:1] in LETTERS or body[:1] == '^' or body == ''):
            body = ' ' + body     # the character after the control word \verbatim is read under the ordinary codes
        out.append(('verbatim-random', env_case(env, form, body, end, rng.choice(AFTERS), rng.randrange(len(CONTEXTS)))))
    # malformed: a complete end marker inside the body, or no end at all
    for _ in range((120 if q else 1200) * boost):
        env = rng.choice(['verbatim', 'verbatim*'])
        body = rand_body(rng, rng.choice([0, 2, 5, 9]))
        r = rng.random()
        if r < 0.6:
            k = rng.randint(0, len(body))
            body = body[:k] + rng.choice(env_patterns(env)) + body[k:]
            end = rng.choice([0, 1, 2])
        else:
            end = 0
        out.append(('verbatim-malformed', env_case(env, 'begin', body, end, rng.choice(AFTERS), 0)))
    return out


def verb_case(star, delim, body, closed, after, ctx=0):
    if delim == '^' and not star and body[:1] in ('', '^'):
        body = 'x' + body     # \verb^^.. : the tokenizer decodes ^^X while it looks for the end of the control word \verb (so does TeX)
    return dict(kind='verb', star=star, delim=delim, body=body, closed=closed, after=after, ctx=ctx)


def verb_streams(rng, tier, boost):
    out = []
    q = tier == 'quick'
    bodies = ['a', 'a b', 'x\\y{z}%q', '--``\'\'', '', '  ', '^^M$&#~_^']
    for d in VERB_DELIMS:
        for star in (False, True):
            for b in (bodies[:3] if q else bodies):
                b2 = b.replace(d, '')
                out.append(('verb-delims', verb_case(star, d, b2, True, rng.choice(AFTERS), 0)))
    for _ in range((900 if q else 8000) * boost):
        d = rng.choice(VERB_DELIMS)
        b = ''.join(c for c in rand_body(rng, rng.choice([0, 1, 2, 4, 8, 20])) if c != '\n').replace(d, '')
        out.append(('verb-random', verb_case(rng.random() < 0.3, d, b, True, rng.choice(AFTERS), rng.randrange(len(CONTEXTS)))))
    for _ in range((100 if q else 1000) * boost):
        r = rng.random()
        d = rng.choice(VERB_DELIMS + ['{', '{', ' ', '*', '\n'])
        b = rand_body(rng, rng.choice([0, 1, 3, 6])).replace('}' if d == '{' else d, '')
        if r < 0.4:
            out.append(('verb-malformed', verb_case(rng.random() < 0.3, d, b, False, '', 0)))
        elif r < 0.5:
            out.append(('verb-malformed', dict(kind='verb', star=rng.random() < 0.5, delim='', body='', closed=False, after='', ctx=0)))
        else:
            out.append(('verb-malformed', verb_case(rng.random() < 0.3, d, b, True, rng.choice(AFTERS), 0)))
    return out


def env_source(case, with_ctx=False):
    env = case['env']
    opening = '\\begin{%s}' % env if case['form'] == 'begin' else '\\' + env
    p1, p2 = env_patterns(env)
    closing = {0: '', 1: p1, 2: p2}[case['end']]
    s = 'A' + opening + case['body'] + closing + case['after']
    if with_ctx:
        a, b = CONTEXTS[case['ctx']]
        return '\\documentclass{article}\\begin{document}' + a + s + b + '\\end{document}'
    return s


def verb_tail(case):
    close = '}' if case['delim'] == '{' else case['delim']
    return ('*' if case['star'] else '') + case['delim'] + case['body'] + (close if case['closed'] else '') + case['after']


def verb_source(case, with_ctx=False):
    s = 'A\\verb' + verb_tail(case)
    if with_ctx:
        a, b = CONTEXTS[case['ctx']]
        return '\\documentclass{article}\\begin{document}' + a + s + b + '\\end{document}'
    return s


def baseline_source(case):
    a, b = CONTEXTS[case['ctx']]
    return '\\documentclass{article}\\begin{document}' + a + 'A' + case['after'] + b + '\\end{document}'


def _fresh(src):
    from plasTeX.TeX import TeX, TeXDocument
    doc = TeXDocument()
    tex = TeX(doc)
    tex.input(src)
    return doc, tex


def _doc_text(src):
    import texrun
    doc, tex = texrun.parse(src)
    d = doc.getElementsByTagName('document')
    return doc, (d[0].textContent if d else doc.textContent)


def impl_env(case):
    # (a) the scan itself, driven through the expanding iterator
    doc, tex = _fresh(env_source(case))
    it = iter(tex)
    first = next(it)
    node = next(it)
    if not (str(first) == 'A' and node.nodeType == node.ELEMENT_NODE and node.nodeName == case['env']):
        return ['unexpected-stream', P(str(first)), P(getattr(node, 'nodeName', None))]
    content, ended = [], False
    for t in it:
        if t.nodeType == t.ELEMENT_NODE:
            ended = True
            break
        content.append(str(t))
    if ended:
        rest = [[int(t.catcode), cps(str(t))] for t in tex.itertokens()]
        a = [0, cps(''.join(content)), rest]
    else:
        a = [1, cps(''.join(content))]
    # (b) the whole pipeline: textContent of the node, and the text of the document against the same document without the environment
    if not env_applicable(case):
        return [a, [None, None, None]]      # what follows a stray end marker is not the property's business
    doc2, text = _doc_text(env_source(case, True))
    ns = doc2.getElementsByTagName(case['env'])
    ntext = ns[0].textContent if ns else None
    base = _doc_text(baseline_source(case))[1] if case['end'] else None
    return [a, [P(ntext), P(text), P(base)]]


def impl_verb(case):
    doc, tex = _fresh(verb_source(case))
    raw = tex.itertokens()
    t0, t1 = next(raw), next(raw)
    if not (str(t0) == 'A' and str(t1) == 'verb' and int(t1.catcode) == 0):
        return ['unexpected-stream', P(str(t0)), P(str(t1))]
    obj = doc.createElement('verb')
    try:
        toks = obj.invoke(tex)
    except UnboundLocalError:
        a = [2, 1 if obj.attributes and obj.attributes.get('*modifier*') else 0]
        toks = None
    if toks is not None:
        star = 1 if obj.attributes.get('*modifier*') else 0
        if any(getattr(t, 'nodeType', None) == obj.ELEMENT_NODE for t in toks[1:]):
            a = ['delimiter-expanded-to-a-node', [str(type(t).__name__) for t in toks[1:4]]]
        else:
            d = toks[1]
            closed = len(toks) > 2 and toks[-1] == d
            body = toks[2:-1] if closed else toks[2:]
            rest = [[int(t.catcode), cps(str(t))] for t in tex.itertokens()]
            a = [0, star, cps(str(d)), cps(''.join(str(t) for t in body)), 1 if closed else 0, rest]
    if not verb_applicable(case):
        return [a, [None, None, None]]
    doc2, text = _doc_text(verb_source(case, True))
    ns = doc2.getElementsByTagName('verb')
    ntext = ns[0].textContent if ns else None
    base = _doc_text(baseline_source(case))[1] if case['closed'] else None
    return [a, [P(ntext), P(text), P(base)]]


# =====================================================================================================
# mathematics: surface syntax trees
#   item: ['c', ch] | ['sp'] | ['w', name] | ['s', ch] | ['sup', arg] | ['sub', arg] | ['cmd', name, arg] | ['frac', name, arg, arg]
#       | ['sqrt', E|None, arg] | ['grp', E] | ['lr', lname, d, E, rname, d] | ['arr', colspec, rows] | ['txt', name, T]
#       | ['um', name, [arg, ...], E|None (the optional first argument, for macros that have one)] | ['p', i]
#   arg:  ['b', E] braced | ['t', item] one bare token (c / w / s)
#   T items: ['c', ch] | ['sp'] | ['m', E] | ['tcmd', name, T] | ['tie']
#   rows: list of [hline?, [cell E, ...]]

WORDS0 = ['alpha', 'beta', 'infty', 'cdot', 'times', 'to', 'leq', 'sum', 'int', 'sin', 'log', 'ldots', 'quad', 'langle', 'rangle', 'mathbb',
          'displaystyle', 'over', 'zzundefined']
SYMS0 = [',', ';', '!', '{', '}', '|', '%', '#', '&', '_', '$', ' ']
CMD1 = ['mathbf', 'mathrm', 'mathcal', 'hat', 'bar', 'overline', 'underline', 'vec', 'tilde', 'underbrace', 'mathit']
TEXTBOX = ['text', 'mbox', 'textbf', 'textit', 'textrm', 'hbox', 'fbox']
FRACS = ['frac', 'stackrel']
MCHARS = list('abcdxyzABXY0123456789+-=<>(),.;:!?/*|[]\'') + ['a', 'b', 'x', 'y', 'n', 'i', '1', '2']
LDELIMS = [['c', '('], ['c', '['], ['c', '|'], ['c', '.'], ['c', '/'], ['s', '{'], ['s', '|'], ['w', 'langle'], ['w', 'lfloor'], ['w', 'lceil'],
           ['c', ')'], ['c', ']'], ['s', '}'], ['w', 'rangle']]
ANGLE_DELIMS = [['c', '<'], ['c', '>']]
LRNAMES = [('left', 'right'), ('left', 'right'), ('left', 'right'), ('bigl', 'bigr'), ('Bigl', 'Bigr'), ('biggl', 'biggr'), ('Biggl', 'Biggr')]
USER = {  # name -> (number of parameters, body E[, default E of the optional first parameter])
    'R': (0, [['cmd', 'mathbf', ['b', [['c', 'R']]]]]),
    'eps': (0, [['w', 'epsilon']]),
    'pair': (2, [['w', 'langle'], ['p', 1], ['c', ','], ['p', 2], ['w', 'rangle']]),
    'sq': (1, [['grp', [['p', 1]]], ['sup', ['b', [['c', '2']]]]]),
    'half': (1, [['frac', 'frac', ['b', [['p', 1]]], ['b', [['c', '2']]]]]),
    # \newcommand{\norm}[2][]{\left\|#2\right\|_{#1}} : optional argument with an EMPTY default (a common idiom)
    'norm': (2, [['lr', 'left', ['s', '|'], [['p', 2]], 'right', ['s', '|']], ['sub', ['b', [['p', 1]]]]], []),
    'ang': (2, [['w', 'langle'], ['p', 2], ['w', 'rangle'], ['p', 1]], []),
    # ... and with non-empty defaults
    'pw': (2, [['grp', [['p', 2]]], ['sup', ['b', [['p', 1]]]]], [['c', '2']]),
    'seq': (2, [['p', 2], ['sub', ['b', [['c', '1']]]], ['c', ','], ['w', 'ldots'], ['c', ','], ['p', 2], ['sub', ['b', [['p', 1]]]]], [['w', 'alpha'], ['c', 'n']]),
}


def has_opt(name):
    return len(USER[name]) > 2


def plain_latex(E):
    """canonical spelling, used for the definitions of the user macros and as the reference text of the judge"""
    return ''.join(join_pieces(pieces_E(E, None), None, False))


USER_DEFS = None


def preamble():
    global USER_DEFS
    if USER_DEFS is None:
        defs = []
        for name, u in sorted(USER.items()):
            n, body = u[0], u[1]
            dflt = '[%s]' % plain_latex(u[2]) if len(u) > 2 else ''
            defs.append('\\newcommand{\\%s}%s%s{%s}' % (name, '[%d]' % n if n else '', dflt, plain_latex(body)))
        USER_DEFS = ''.join(defs)
    return USER_DEFS


# ---- printing to LaTeX: a list of pieces ('cw', name) | ('x', text) | ('gap',) ; gaps are places where a blank is insignificant

def pieces_arg(a, rng):
    if a[0] == 'b':
        return [('x', '{')] + pieces_E(a[1], rng) + [('x', '}')]
    return pieces_item(a[1], rng)


def pieces_E(E, rng):
    out = []
    for it in E:
        out += pieces_item(it, rng)
    return out


def pieces_T(T, rng):
    out = []
    for it in T:
        k = it[0]
        if k == 'c':
            out.append(('x', it[1]))
        elif k == 'sp':
            out.append(('x', ' '))
        elif k == 'tie':
            out.append(('x', '~'))
        elif k == 'm':
            out += [('x', '$')] + pieces_E(it[1], rng) + [('x', '$')]
        elif k == 'tcmd':
            out += [('cw', it[1]), ('gap',), ('x', '{')] + pieces_T(it[2], rng) + [('x', '}')]
        else:
            raise ValueError(it)
    return out


def pieces_item(it, rng):
    k = it[0]
    if k == 'c':
        return [('x', it[1])]
    if k == 'sp':
        return [('x', ' ')]
    if k == 'w':
        return [('cw', it[1])]
    if k == 's':
        return [('x', '\\' + it[1])]
    if k in ('sup', 'sub'):
        return [('x', '^' if k == 'sup' else '_'), ('gap',)] + pieces_arg(it[1], rng)
    if k == 'cmd':
        return [('cw', it[1]), ('gap',)] + pieces_arg(it[2], rng)
    if k == 'frac':
        return [('cw', it[1]), ('gap',)] + pieces_arg(it[2], rng) + [('gap',)] + pieces_arg(it[3], rng)
    if k == 'sqrt':
        o = [('cw', 'sqrt')]
        if it[1] is not None:
            o += [('gap',), ('x', '[')] + pieces_E(it[1], rng) + [('x', ']')]
        return o + [('gap',)] + pieces_arg(it[2], rng)
    if k == 'grp':
        return [('x', '{')] + pieces_E(it[1], rng) + [('x', '}')]
    if k == 'lr':
        return [('cw', it[1]), ('gap',)] + pieces_item(it[2], rng) + pieces_E(it[3], rng) + [('cw', it[4]), ('gap',)] + pieces_item(it[5], rng)
    if k == 'arr':
        o = [('cw', 'begin'), ('x', '{array}'), ('gap',)]
        if len(it) > 3 and it[3]:
            o += [('x', '[' + it[3] + ']'), ('gap',)]
        o.append(('x', '{'))
        for r in spec_items(it[1]):        # the column specification is read unexpanded ("nox")
            o.append(('cw', r[1]) if r[0] == 'w' else ('x', ('\\' if r[0] == 's' else '') + r[1]))
        o.append(('x', '}'))
        for ri, (hl, cells) in enumerate(it[2]):
            if ri:
                o += [('x', '\\\\'), ('gap',)]
            if hl:
                o.append(('cw', 'hline'))
            for ci, cell in enumerate(cells):
                if ci:
                    o.append(('x', '&'))
                o += pieces_E(cell, rng)
        return o + [('cw', 'end'), ('x', '{array}')]
    if k == 'txt':
        return [('cw', it[1]), ('gap',), ('x', '{')] + pieces_T(it[2], rng) + [('x', '}')]
    if k == 'um':
        o = [('cw', it[1])]
        if len(it) > 3 and it[3] is not None:
            o += [('gap',), ('x', '[')] + pieces_E(it[3], rng) + [('x', ']')]
        for a in it[2]:
            o += [('gap',)] + pieces_arg(a, rng)
        return o
    if k == 'p':
        return [('x', '#%d' % it[1])]
    raise ValueError(it)


def join_pieces(pieces, rng, anywhere):
    """rng None: canonical (a blank after a control word only when a letter follows).
    anywhere: also blanks / single newlines between any two pieces (they become Space tokens: compared blanks aside).
    Never two blanks in a row (two newlines would be a paragraph break)."""
    out = []
    n = len(pieces)

    def blank(choices):
        if not out or out[-1].strip() != '':
            out.append(rng.choice(choices) if rng is not None else ' ')

    for i, p in enumerate(pieces):
        if p[0] == 'gap':
            if rng is not None and rng.random() < 0.25:
                blank([' ', ' ', '\n', '  '])
            continue
        if p[0] == 'x':
            out.append(p[1])
        else:
            out.append('\\' + p[1])
            # what comes next?
            j = i + 1
            while j < n and pieces[j][0] == 'gap':
                j += 1
            nxt = pieces[j][1][:1] if j < n and pieces[j][0] == 'x' else ''
            if nxt != '' and nxt in LETTERS:
                blank([' ', ' ', '\n', '  '])
            elif rng is not None and rng.random() < 0.3:
                blank([' ', ' ', '\n'])
        if anywhere and rng is not None and p[0] == 'x' and rng.random() < 0.2 and not p[1].startswith('\\') and p[1] not in ('#1', '#2'):
            blank([' ', ' ', '\n', '   '])
    return out


# ---- expansion of user macros (what the author wrote "with user macros expanded")

def arg_items(a):
    return a[1] if a[0] == 'b' else [a[1]]


def subst(E, args):
    out = []
    for it in E:
        k = it[0]
        if k == 'p':
            out += args[it[1] - 1]
        else:
            out.append(subst_item(it, args))
    return out


def subst_arg(a, args):
    if a[0] == 'b':
        return ['b', subst(a[1], args)]
    return a


def subst_item(it, args):
    k = it[0]
    if k in ('sup', 'sub'):
        return [k, subst_arg(it[1], args)]
    if k == 'cmd':
        return [k, it[1], subst_arg(it[2], args)]
    if k == 'frac':
        return [k, it[1], subst_arg(it[2], args), subst_arg(it[3], args)]
    if k == 'grp':
        return [k, subst(it[1], args)]
    if k == 'lr':
        return [k, it[1], it[2], subst(it[3], args), it[4], it[5]]
    if k == 'sqrt':
        return [k, None if it[1] is None else subst(it[1], args), subst_arg(it[2], args)]
    return it


def expand_E(E):
    out = []
    for it in E:
        k = it[0]
        if k == 'um':
            u = USER[it[1]]
            args = [expand_E(arg_items(a)) for a in it[2]]
            if len(u) > 2:      # the optional first parameter: what was given in brackets, the default otherwise
                args = [expand_E(it[3]) if len(it) > 3 and it[3] is not None else expand_E(u[2])] + args
            out += expand_E(subst(u[1], args))
        else:
            out.append(expand_item(it))
    return out


def expand_arg(a):
    if a[0] == 'b':
        return ['b', expand_E(a[1])]
    return a


def expand_T(T):
    out = []
    for it in T:
        if it[0] == 'm':
            out.append(['m', expand_E(it[1])])
        elif it[0] == 'tcmd':
            out.append(['tcmd', it[1], expand_T(it[2])])
        else:
            out.append(it)
    return out


def expand_item(it):
    k = it[0]
    if k in ('sup', 'sub'):
        return [k, expand_arg(it[1])]
    if k == 'cmd':
        return [k, it[1], expand_arg(it[2])]
    if k == 'frac':
        return [k, it[1], expand_arg(it[2]), expand_arg(it[3])]
    if k == 'sqrt':
        return [k, None if it[1] is None else expand_E(it[1]), expand_arg(it[2])]
    if k == 'grp':
        return [k, expand_E(it[1])]
    if k == 'lr':
        return [k, it[1], it[2], expand_E(it[3]), it[4], it[5]]
    if k == 'arr':
        return [k, it[1], [[hl, [expand_E(c) for c in cells]] for hl, cells in it[2]]] + it[3:]
    if k == 'txt':
        return [k, it[1], expand_T(it[2])]
    return it


# ---- the node tree given to the Model (wire format of Model/Source.v)

def W(s):
    return cps(s)


def spec_items(spec):
    return [['c', ch] for ch in spec] if isinstance(spec, str) else spec


def n_tok(ch):
    return [0, ord(ch)]


def n_macro(name, selfarg, args, body, mode=0):
    return [2, mode, W(name), 1 if selfarg else 0, args, body]


def tree_arg(a):
    """-> (argument pieces, content nodes)"""
    if a[0] == 'b':
        inner = tree_E(a[1])
        return [n_tok('{')] + inner + [n_tok('}')], inner
    inner = tree_item(a[1])
    return inner, inner


def tree_E(E):
    out = []
    for it in E:
        out += tree_item(it)
    return out


def tree_T(T):
    out = []
    for it in T:
        k = it[0]
        if k == 'c':
            out.append(n_tok(it[1]))
        elif k == 'sp':
            out.append(n_tok(' '))
        elif k == 'tie':
            out.append(n_macro('active::~', False, [], []))
        elif k == 'm':
            out.append([4, tree_E(it[1])])
        elif k == 'tcmd':
            inner = tree_T(it[2])
            out.append(n_macro(it[1], True, [n_tok('{')] + inner + [n_tok('}')], inner))
    return out


def tree_item(it):
    k = it[0]
    if k == 'c':
        return [n_tok(it[1])]
    if k == 'sp':
        return [n_tok(' ')]
    if k == 'w':
        return [n_macro(it[1], False, [], [])]
    if k == 's':
        return [n_macro(it[1], False, [], [])]
    if k in ('sup', 'sub'):
        pieces, content = tree_arg(it[1])
        return [n_macro('active::^' if k == 'sup' else 'active::_', True, pieces, content)]
    if k == 'cmd':
        pieces, content = tree_arg(it[2])
        return [n_macro(it[1], True, pieces, content)]
    if k == 'frac':
        p1, _ = tree_arg(it[2])
        p2, _ = tree_arg(it[3])
        return [n_macro(it[1], False, p1 + p2, [])]
    if k == 'sqrt':
        pieces, content = tree_arg(it[2])
        opt = [] if it[1] is None else [n_tok('[')] + tree_E(it[1]) + [n_tok(']')]
        return [n_macro('sqrt', True, opt + pieces, content)]
    if k == 'grp':
        return [[3, 1, tree_E(it[1])]]
    if k == 'lr':
        return [n_macro(it[1], False, tree_item(it[2]), [])] + tree_E(it[3]) + [n_macro(it[4], False, tree_item(it[5]), [])]
    if k == 'arr':
        body = []
        for ri, (hl, cells) in enumerate(it[2]):
            if ri:
                body.append(n_macro('\\', False, [], []))
            if hl:
                body.append(n_macro('hline', False, [], []))
            for ci, cell in enumerate(cells):
                if ci:
                    body.append(n_macro('active::&', False, [], []))
                body += tree_E(cell)
        args = [n_tok(c) for c in '[' + it[3] + ']'] if len(it) > 3 and it[3] else []
        args.append(n_tok('{'))
        for r in spec_items(it[1]):
            if r[0] == 'c':
                args.append(n_tok(r[1]))
            else:
                args.append([1, W(r[1])])      # an unexpanded EscapeSequence token
        args.append(n_tok('}'))
        return [n_macro('array', False, args, body, mode=1)]
    if k == 'txt':
        inner = tree_T(it[2])
        return [n_macro(it[1], True, [n_tok('{')] + inner + [n_tok('}')], inner)]
    raise ValueError(it)


WRAPS = ['dollar', 'paren', 'bracket', 'equation', 'textbf', 'emph', 'section', 'footnote']


def wrap_tree(wrap, E):
    body = tree_E(E)
    if wrap == 'bracket':
        return [5, 0, body]
    if wrap == 'equation':
        return n_macro('equation', False, [], body, mode=1)
    return [4, body]


def wrap_latex(wrap, f):
    return {'dollar': 'X $%s$ Y', 'paren': 'X \\(%s\\) Y', 'bracket': 'X \\[%s\\] Y', 'equation': 'X \\begin{equation}%s\\end{equation} Y',
            'textbf': 'X \\textbf{see $%s$ here} Y', 'emph': 'X \\emph{$%s$} Y', 'section': '\\section{On $%s$} Y',
            'footnote': 'X\\footnote{Since $%s$.} Y'}[wrap] % f


def wrap_tag(wrap):
    return {'bracket': 'displaymath', 'equation': 'equation'}.get(wrap, 'math')


def wrap_affixes(wrap):
    return {'bracket': ('\\[', '\\]'), 'equation': ('\\begin{equation}', '\\end{equation}')}.get(wrap, ('$', '$'))


# ---- generation

def g_char(rng):
    return ['c', rng.choice(MCHARS)]


def g_token(rng):
    r = rng.random()
    if r < 0.6:
        return ['c', rng.choice('abxyn0123456789+-')]
    if r < 0.9:
        return ['w', rng.choice(WORDS0[:12])]
    return ['s', rng.choice([',', '{', '}', '|', '%'])]


def g_arg(rng, depth, bare_ok=True):
    if bare_ok and rng.random() < 0.35:
        return ['t', g_token(rng)]
    return ['b', g_E(rng, depth - 1, small=True)]


def g_T(rng, depth):
    out = []
    for _ in range(rng.randint(1, 4)):
        r = rng.random()
        if r < 0.55 or depth <= 0:
            w = ''.join(rng.choice('abcdefgh-,.') for _ in range(rng.randint(1, 4)))
            if out and out[-1][0] == 'c':
                out.append(['sp'])
            out += [['c', ch] for ch in w]
        elif r < 0.75:
            if out and out[-1][0] == 'm':
                out.append(['c', ','])       # "$a$$b$" would read $$ as a display-math shift (in TeX too)
            out.append(['m', g_E(rng, depth - 1, small=True)])
        elif r < 0.9:
            out.append(['tcmd', rng.choice(['textbf', 'textit', 'emph']), g_T(rng, depth - 1)])
        else:
            out.append(['tie'])
    return out


def g_item(rng, depth):
    r = rng.random()
    if depth <= 0 or r < 0.30:
        return [g_char(rng)]
    if r < 0.40:
        return [['w', rng.choice(WORDS0)]]
    if r < 0.45:
        return [['s', rng.choice(SYMS0)]]
    if r < 0.60:
        o = [rng.choice([['c', 'x'], ['w', 'alpha'], ['c', ')'], ['w', 'sum']])]
        ks = rng.choice([['sup'], ['sub'], ['sub', 'sup'], ['sup', 'sub']])
        for k in ks:
            o.append([k, g_arg(rng, depth)])
        return o
    if r < 0.68:
        return [['frac', rng.choice(FRACS), g_arg(rng, depth), g_arg(rng, depth)]]
    if r < 0.74:
        return [['sqrt', g_E(rng, depth - 1, small=True, no_brackets=True) if rng.random() < 0.4 else None, g_arg(rng, depth)]]
    if r < 0.80:
        return [['cmd', rng.choice(CMD1), g_arg(rng, depth)]]
    if r < 0.85:
        return [['grp', g_E(rng, depth - 1, small=True)]]
    if r < 0.90:
        ln, rn = rng.choice(LRNAMES)
        return [['lr', ln, rng.choice(LDELIMS), g_E(rng, depth - 1, small=True), rn, rng.choice(LDELIMS)]]
    if r < 0.94:
        ncol = rng.randint(1, 3)
        spec = ''.join(rng.choice('lcr') for _ in range(ncol))
        if rng.random() < 0.3 and ncol > 1:
            spec = spec[0] + '|' + spec[1:]
        spec = [['c', ch] for ch in spec]
        if rng.random() < 0.3:
            at = rng.choice([[['w', 'quad']], [['s', ',']], [['w', 'quad'], ['c', 'x']], [['s', ' ']], [['w', 'hspace'], ['c', '{'], ['c', '1'], ['c', 'e'], ['c', 'm'], ['c', '}']]])
            k = rng.randint(0, len(spec))
            spec = spec[:k] + [['c', '@'], ['c', '{']] + at + [['c', '}']] + spec[k:]
        rows = []
        for ri in range(rng.randint(1, 3)):
            rows.append([1 if rng.random() < 0.2 else 0, [g_E(rng, depth - 1, small=True, cell=True) for _ in range(ncol)]])
        return [['arr', spec, rows, rng.choice(['', '', '', 't', 'b'])]]
    if r < 0.955:
        return [['txt', rng.choice(TEXTBOX), g_T(rng, depth - 1)]]
    name = rng.choice(sorted(USER))
    n = USER[name][0]
    if has_opt(name):
        opt = no_brackets_deep(g_E(rng, depth - 1, small=True)) if rng.random() < 0.5 else None
        return [['um', name, [g_arg(rng, depth, bare_ok=(rng.random() < 0.5)) for _ in range(n - 1)], opt]]
    return [['um', name, [g_arg(rng, depth, bare_ok=(rng.random() < 0.5)) for _ in range(n)]]]


def g_E(rng, depth, small=False, no_brackets=False, cell=False):
    out = []
    for _ in range(rng.randint(1, 2 if small else 4)):
        out += g_item(rng, depth)
    if no_brackets:
        out = no_brackets_deep(out)     # TeX.readGrouping ignores braces while it looks for ']' (C05)
    if cell:
        # a cell must not begin with [ or * (they would be read as arguments of the preceding \\)
        while out and out[0] in (['c', '['], ['c', '*']):
            out = out[1:]
        out = out or [['c', 'a']]
        if expand_E(out)[:1] in ([['c', '[']], [['c', '*']]):      # ... also when a user macro expands to such a beginning
            out = [['c', 'a']] + out
    return out


def no_brackets_deep(x):
    if isinstance(x, list):
        if x in (['c', '['], ['c', ']']):
            return ['c', 'n']
        return [no_brackets_deep(y) for y in x]
    return x


def math_streams(rng, tier, boost):
    out = []
    q = tier == 'quick'
    for i in range((2500 if q else 16000) * boost):
        d = rng.choice([1, 2, 2, 3, 3, 4, 4])
        E = g_E(rng, d)
        mode = 'exact' if rng.random() < 0.6 else 'blanks'
        out.append(('math-' + mode, dict(kind='math', wrap=rng.choice(WRAPS), E=E, style=rng.randint(1, 10 ** 6), mode=mode)))
    # every delimiter with every \left-like command; the angle brackets are the documented rewriting (known finding)
    for ln, rn in sorted(set(LRNAMES)):
        for d in LDELIMS:
            out.append(('math-delims', dict(kind='math', wrap='dollar', E=[['lr', ln, d, [['c', 'a']], rn, d]], style=0, mode='exact')))
        for d in ANGLE_DELIMS:
            out.append(('math-angle-delims', dict(kind='math', wrap='dollar', E=[['lr', ln, d, [['c', 'a']], rn, ANGLE_DELIMS[1]]], style=0, mode='exact')))
    # the separator rule: every kind of control sequence followed by every kind of next token, in scripts and arguments
    nexts = [['c', 'a'], ['c', 'Z'], ['c', '1'], ['c', '('], ['c', '['], ['w', 'beta'], ['s', ','], ['grp', [['c', 'a']]], ['sup', ['t', ['c', '2']]], ['c', '@']]
    firsts = [['w', 'alpha'], ['w', 'zzundefined'], ['s', ','], ['s', '{'], ['s', ' '], ['cmd', 'hat', ['t', ['c', 'a']]], ['cmd', 'hat', ['t', ['w', 'alpha']]],
              ['frac', 'frac', ['t', ['c', 'a']], ['t', ['c', 'b']]], ['frac', 'frac', ['t', ['c', '1']], ['t', ['c', 'b']]],
              ['frac', 'frac', ['t', ['w', 'alpha']], ['t', ['c', 'b']]], ['sup', ['t', ['w', 'alpha']]], ['sup', ['t', ['c', 'a']]],
              ['sqrt', None, ['t', ['c', 'x']]], ['sqrt', [['c', 'n']], ['t', ['c', 'x']]], ['um', 'eps', []], ['um', 'R', []],
              ['um', 'norm', [['b', [['c', 'x']]]], None], ['um', 'norm', [['b', [['c', 'x']]]], [['c', 'p']]], ['um', 'ang', [['t', ['c', 'x']]], None],
              ['um', 'pw', [['b', [['c', 'x']]]], None], ['um', 'pw', [['t', ['c', 'x']]], [['c', '3']]], ['um', 'seq', [['b', [['c', 'a']]]], None]]
    for a in firsts:
        for b in nexts:
            if a[0] == 'sqrt' and a[1] is None and b == ['c', '[']:
                continue
            out.append(('math-separators', dict(kind='math', wrap='dollar', E=[['c', 'x'], a, b], style=0, mode='exact')))
    return out


def math_latex(case):
    rng = random.Random(case['style']) if case['style'] else None
    pieces = pieces_E(case['E'], rng)
    return ''.join(join_pieces(pieces, rng, case['mode'] == 'blanks'))


def math_source(case):
    return '\\documentclass{article}' + preamble() + '\\begin{document}' + wrap_latex(case['wrap'], math_latex(case)) + '\\end{document}'


def impl_math(case):
    import texrun
    doc, tex = texrun.parse(math_source(case))
    mathtags = ('math', 'displaymath', 'equation')

    def outermost(x):
        p = x.parentNode
        while p is not None:
            if getattr(p, 'nodeName', None) in mathtags:
                return False
            p = p.parentNode
        return True
    ns = [x for x in doc.getElementsByTagName(wrap_tag(case['wrap'])) if x.hasChildNodes() and outermost(x)]
    if not ns:
        return ['no-math-node']
    n = ns[0]
    return [0, cps(n.source), cps(n.mathjax_source)]


def real_tokens(s):
    """tokens of a string under the default category codes by the real Tokenizer, blanks removed"""
    from plasTeX.Context import Context
    from plasTeX.Tokenizer import Tokenizer
    return [[int(t.catcode), P(str(t))] for t in Tokenizer(s, Context(load=False)) if int(t.catcode) != 10]


# =====================================================================================================
# interface

def streams(rng, tier, boost):
    return env_streams(rng, tier, boost) + verb_streams(rng, tier, boost) + math_streams(rng, tier, boost)


def search_streams(rng, tier):
    out = []
    for _ in range(1500):
        out.append(('search', verb_case(rng.random() < 0.3, rng.choice(VERB_DELIMS), 'a b', True, ' Z', 0)))
        out.append(('search', dict(kind='math', wrap='dollar', E=g_E(rng, 2), style=rng.randint(1, 10 ** 6), mode='exact')))
    return out[:3000]


def describe(case):
    if case['kind'] == 'env':
        return dict(source=env_source(case, True), body=case['body'])
    if case['kind'] == 'verb':
        return dict(source=verb_source(case, True), body=case['body'], delimiter=case['delim'])
    return dict(source=math_source(case), formula=math_latex(case), expanded=plain_latex(expand_E(case['E'])), mode=case['mode'])


def model_input(case):
    if case['kind'] == 'env':
        p1, p2 = env_patterns(case['env'])
        closing = {0: '', 1: p1, 2: p2}[case['end']]
        return [0, cps(case['env']), cps(case['body'] + closing + case['after'])]
    if case['kind'] == 'verb':
        return [1, cps(verb_tail(case))]
    E = expand_E(case['E'])
    a, b = {'bracket': ('\\[', '\\]'), 'equation': ('\\begin{equation}', '\\end{equation}')}.get(case['wrap'], ('$', '$'))
    # the tree of the generator, and the author's formula (macros expanded) as characters for the Model's tokenizer + parser
    return [5, wrap_tree(case['wrap'], E), 0, cps(a + plain_latex(E) + b)]


def worker_init():
    import texrun
    texrun.quiet()


def run_impl(case):
    # isolation of the cases from each other: MathShift.inEnv is a class-level stack that survives a document in which a math
    # shift was left open (an interpreter-wide cell, the subject of C17); every case starts with it empty
    from plasTeX.Base.TeX.Primitives import MathShift
    del MathShift.inEnv[:]
    if case['kind'] == 'env':
        return impl_env(case)
    if case['kind'] == 'verb':
        return impl_verb(case)
    r = impl_math(case)
    if r[0] == 0:
        # the Spec oracle's data: the reconstructed source and the author's formula, both through the real Tokenizer
        a, b = wrap_affixes(case['wrap'])
        s = ''.join(chr(c) for c in r[1])
        payload = s[len(a):len(s) - len(b)] if s.startswith(a) and s.endswith(b) and len(s) >= len(a) + len(b) else None
        r.append(None if payload is None else real_tokens(payload))
        r.append(real_tokens(plain_latex(expand_E(case['E']))))
    return r


def nontrivial(case, io):
    if case['kind'] in ('env', 'verb'):
        b = case['body']
        return len(b) >= 3 and any(not c.isalnum() for c in b)
    return count_nodes(case['E']) >= 4


def count_nodes(x):
    if isinstance(x, list):
        return (1 if x and isinstance(x[0], str) else 0) + sum(count_nodes(y) for y in x)
    return 0


def depth_of(x):
    if isinstance(x, list):
        return (1 if x and isinstance(x[0], str) and x[0] not in ('c', 'w', 's', 'sp', 'b', 't') else 0) + max([depth_of(y) for y in x] + [0])
    return 0


def kinds_of(x, acc):
    if isinstance(x, list):
        if x and isinstance(x[0], str):
            acc.add(x[0])
        for y in x:
            kinds_of(y, acc)
    return acc


def tags(case, io):
    k = case['kind']
    t = [k]
    if isinstance(io, list) and io[:1] == ['raise']:
        t.append('impl-raises')
    if k == 'env':
        t += ['env=' + case['env'], 'form=' + case['form'], 'end=%d' % case['end'], 'ctx=%d' % case['ctx']]
        fe = first_end(case['body'], case['env'])
        t.append('body-has-end-marker' if fe else 'body-clean')
        p1, p2 = env_patterns(case['env'])
        if any(case['body'].endswith(p[:i]) or p[:i] in case['body'] for p in (p1, p2) for i in range(2, len(p))):
            t.append('partial-end-marker')
    elif k == 'verb':
        t += ['star' if case['star'] else 'nostar', 'closed' if case['closed'] else 'unclosed']
        t.append('delim=' + (case['delim'] if case['delim'].isprintable() and case['delim'] != ' ' else repr(case['delim'])))
    else:
        t += ['wrap=' + case['wrap'], 'mode=' + case['mode'], 'depth=%d' % min(depth_of(case['E']), 6)]
        t += ['has-' + x for x in sorted(kinds_of(case['E'], set()) - {'c', 'b', 't'})]
    return t


def nospace(s):
    return ''.join(s.split())


def env_applicable(case):
    """the property speaks about this case: the environment is closed and the body contains no complete end delimiter"""
    if case['end'] == 0:
        return False
    p1, p2 = env_patterns(case['env'])
    closing = p1 if case['end'] == 1 else p2
    s = case['body'] + closing
    fe = first_end(s, case['env'])
    return fe is not None and fe[0] == len(s)


def verb_applicable(case):
    d = case['delim']
    return case['closed'] and d in VERB_DELIMS and d not in case['body'] and '\n' not in case['body']


def judge(case, io, mo):
    k = case['kind']
    if isinstance(mo, list) and mo == [-3]:
        return dict(violation=False, key='C11:model-fuel', what='model out of fuel')
    bad_impl = isinstance(io, list) and io[:1] in (['raise'], ['hang'], ['unexpected-stream'], ['no-math-node'])
    if k in ('env', 'verb'):
        app = env_applicable(case) if k == 'env' else verb_applicable(case)
        body = case['body']
        what = 'verbatim' if k == 'env' else 'verb'
        if bad_impl:
            return dict(violation=app, key='C11:%s:impl-%s' % (what, io[0]), expected=dict(content=body),
                        what='the implementation %s on %s' % (io[:3], what))
        a, (ntext, text, base) = io
        if app:
            # Spec: content = body exactly, and the text after it is what the same text gives without the verbatim material before it
            got = ''.join(chr(c) for c in a[1 if k == 'env' else 3]) if a[:1] == [0] else None
            if ntext != body or got != body:
                return dict(violation=True, key='C11:%s:content%s' % (what, ':delim=' + case['delim'] if k == 'verb' and not case['delim'].isalnum() and case['delim'] in '%$~&#\\^_' else ''),
                            expected=dict(content=body), what='content of the %s is %r / %r, the body is %r' % (what, ntext, got, body))
            if base is not None and nospace(text) != nospace(base[:1] + body + base[1:]):
                return dict(violation=True, key='C11:%s:text-after' % what, expected=dict(text=base[:1] + body + base[1:]),
                            what='text after the %s is not processed as it is without it: %r vs %r' % (what, text, base))
        if k == 'env':
            m = [0, mo[2], mo[3]] if mo[:1] == [0] else mo
        else:
            m = mo
        if a != m:
            return dict(violation=False, key='C11:%s:model-mismatch' % what, expected=m, what='scan result differs from the Model: %s vs %s' % (a, m))
        return None
    # mathematics
    if bad_impl:
        return dict(violation=True, key='C11:math:impl-%s' % io[0], what='the implementation %s' % (io[:3],))
    src, mj, got, want = io[1], io[2], io[3], io[4]
    angle = any(x in (['c', '<'], ['c', '>']) for x in lr_delims(expand_E(case['E'])))
    if got != want:
        s = ''.join(chr(c) for c in src)
        key = 'C11:math:angle-delimiter' if angle else ('C11:math:tokens:charsub' if any(c > 126 for c in src) else 'C11:math:tokens')
        return dict(violation=True, key=key, expected=dict(tokens=want),
                    what='reconstructed source %r re-tokenizes to %s, the author wrote %s' % (s, got, want))
    if mo[:1] != [0]:
        return dict(violation=False, key='C11:math:model', what='model answer %s' % (mo,))
    if mo[3:] != [1, mo[1], 1, 1, 0 if angle else 1]:
        # Model/MathParse.v on the tokens of the formula: closed, the parsed tree is the generator's tree (so its source is the
        # same), the tokens are canonical and the nodes well formed (the hypotheses of C11_formula_roundtrip hold on this case)
        return dict(violation=False, key='C11:math:parse-model', expected=''.join(chr(c) for c in mo[1]),
                    what='the parser Model gives closed=%s tree-equal=%s canon,wf=%s source %r, the tree of the generator prints %r' % (
                        mo[3], mo[5] if len(mo) > 5 else None, mo[6:], ''.join(chr(c) for c in mo[4]) if len(mo) > 4 else None, ''.join(chr(c) for c in mo[1])))
    if case['mode'] == 'exact':
        if src != mo[1] or mj != mo[2]:
            return dict(violation=False, key='C11:math:model-mismatch', expected=''.join(chr(c) for c in mo[1]),
                        what='node.source %r differs from the Model %r' % (''.join(chr(c) for c in src), ''.join(chr(c) for c in mo[1])))
    else:
        a, b = wrap_affixes(case['wrap'])
        ms = ''.join(chr(c) for c in mo[1])
        if real_tokens(ms[len(a):len(ms) - len(b)]) != got:
            return dict(violation=False, key='C11:math:model-mismatch', expected=ms, what='node.source and the Model differ beyond blanks')
    return None


def lr_delims(x, acc=None):
    acc = [] if acc is None else acc
    if isinstance(x, list):
        if x and x[0] == 'lr':
            acc += [x[2], x[5]]
        for y in x:
            lr_delims(y, acc)
    return acc


def shrink(case):
    k = case['kind']
    if k in ('env', 'verb'):
        if case['ctx']:
            yield dict(case, ctx=0)
        if case['after'] not in ('', 'Z'):
            yield dict(case, after='Z')
        if k == 'verb' and case['star']:
            yield dict(case, star=False)
        b = case['body']
        n = len(b)
        if n > 4:
            yield dict(case, body=b[:n // 2])
            yield dict(case, body=b[n // 2:])
        for i in range(n):
            yield dict(case, body=b[:i] + b[i + 1:])
        return
    if case['mode'] == 'blanks':
        yield dict(case, mode='exact')
    if case['style']:
        yield dict(case, style=0)
    if case['wrap'] != 'dollar':
        yield dict(case, wrap='dollar')
    E = case['E']
    for i in range(len(E)):
        if len(E) > 1:
            yield dict(case, E=E[:i] + E[i + 1:])
    for i, it in enumerate(E):
        for sub in sub_Es(it):
            yield dict(case, E=E[:i] + sub + E[i + 1:])


def sub_Es(it):
    k = it[0]
    if k in ('sup', 'sub'):
        yield arg_items(it[1])
        if it[1][0] == 'b' and len(it[1][1]) > 1:
            yield [[k, ['b', it[1][1][:1]]]]
    elif k == 'cmd':
        yield arg_items(it[2])
    elif k == 'frac':
        yield arg_items(it[2])
        yield arg_items(it[3])
    elif k == 'sqrt':
        yield arg_items(it[2])
        if it[1] is not None:
            yield [['sqrt', None, it[2]]]
    elif k == 'grp':
        yield it[1]
    elif k == 'lr':
        yield it[3]
        yield [['lr', it[1], it[2], [['c', 'a']], it[4], it[5]]]
    elif k == 'arr':
        for hl, cells in it[2]:
            for c in cells:
                yield c
        if len(it[2]) > 1:
            yield [['arr', it[1], it[2][:1]] + it[3:]]
    elif k == 'txt':
        for t in it[2]:
            if t[0] == 'm':
                yield t[1]
        if len(it[2]) > 1:
            yield [['txt', it[1], it[2][:1]]]
    elif k == 'um':
        for a in it[2]:
            yield arg_items(a)
        if len(it) > 3 and it[3] is not None:
            yield it[3]
            yield [['um', it[1], it[2], None]]
