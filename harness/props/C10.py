"""C10 -- lists and tables keep their shape: items, rows, cells and spans as written.
Correspondence: the real digestion of lists and tabulars/arrays (List.digest, List.item.digest, Array.invoke, CellDelimiter, EndRow,
ArrayRow/ArrayCell.digest, digestUntil, Environment.digest, bgroup.digest), the border code (ArrayCell.borders,
BorderCommand.applyBorders, ArrayRow.applyBorders, Array.applyBorders, linkCells.numCols) and Array.compileColspec, all from $VERIF_REPO,
against Model/Lists.v + Model/Arrays.v; the Spec (Spec/TableSpec.v: tree_of, table_spec, den_spec) is evaluated on every structured case."""
import itertools

ID = 'C10'
PINS = [('plasTeX/Base/LaTeX/Arrays.py', 'Array.invoke'), ('plasTeX/Base/LaTeX/Arrays.py', 'Array.digest'),
        ('plasTeX/Base/LaTeX/Arrays.py', 'Array.CellDelimiter'), ('plasTeX/Base/LaTeX/Arrays.py', 'Array.EndRow'),
        ('plasTeX/Base/LaTeX/Arrays.py', 'Array.ArrayRow'), ('plasTeX/Base/LaTeX/Arrays.py', 'Array.ArrayCell'),
        ('plasTeX/Base/LaTeX/Arrays.py', 'Array.multicolumn'), ('plasTeX/Base/LaTeX/Arrays.py', 'Array.BorderCommand'),
        ('plasTeX/Base/LaTeX/Arrays.py', 'Array.applyBorders'), ('plasTeX/Base/LaTeX/Arrays.py', 'Array.linkCells'),
        ('plasTeX/Base/LaTeX/Arrays.py', 'Array.compileColspec'), ('plasTeX/Base/LaTeX/Arrays.py', 'ColumnType'),
        ('plasTeX/Base/LaTeX/Lists.py', 'List.digest'), ('plasTeX/Base/LaTeX/Lists.py', 'List.item'),
        ('plasTeX/Base/LaTeX/Lists.py', 'List.invoke'),
        ('plasTeX/__init__.py', 'Macro.digestUntil'), ('plasTeX/__init__.py', 'Environment.digest'),
        ('plasTeX/__init__.py', 'Environment.invoke'), ('plasTeX/__init__.py', 'Macro.paragraphs'),
        ('plasTeX/Base/TeX/Text.py', 'bgroup'), ('plasTeX/Context.py', 'Context.pop'), ('plasTeX/Context.py', 'Context.push')]
RULE = ('abstract documents (Spec/TableSpec.v content): tabular/array with 1-5 columns, 1-6 rows, column specifications with | p{} @{} >{} '
        '*{n}{} and blanks, \\multicolumn with its own specification, \\hline/\\cline before rows, after the last row and in border-only rows, '
        'empty cells and rows, cells with groups, mathematics, declarations (\\bfseries ...), paragraphs, nested tabulars and lists; '
        'itemize/enumerate/description nested to depth 4 with multi-paragraph items, terms, groups, mathematics and nested tabulars, and with '
        'blank material (blank line, several blank lines, \\par, comment line, line break) between \\begin{..} -- or its optional argument -- and '
        'the first \\item at every depth; '
        'printed to LaTeX for the implementation and to the item stream by the Model. Exhaustive: every 3-column row shape x every rule before/'
        'after it; every list nesting shape up to 6 items, each also with blank material before the first \\item of every list; column specifications over a 7-symbol alphabet up to length 4. Malformed: raw item '
        'streams (printed documents with items deleted, duplicated, swapped, depths changed) digested directly by both sides; random '
        'column-specification strings. Non-trivial = at least two cells / two items / two column letters.')
TRUSTED = ['modelled, not verified: the expansion of the source into the item stream (TeX.__iter__, Context.push/pop depth bookkeeping, '
           'argument parsing of \\multicolumn, \\cline, \\item[..]) -- the stream the Model prints is compared with the one the implementation '
           'expands on every structured case; Macro.paragraphs() and normalize() (transparent wrappers in the Model); CSS style dictionary',
           'ArrayCell.isBorderOnly is modelled on the children before paragraph grouping; endToken / source / colspecStart,End are not modelled']
ASSUMPTIONS = ['no & or \\\\ inside groups or mathematics of a cell (ill-formed, DESIGN section 10 #17)',
               'rule commands are \\hline and \\cline{a-b}; \\vline in cells is not generated',
               'text is alphanumeric (no ligatures or quotes, which charsubs would rewrite)']
CASE_TIMEOUT = 20

DECLS = ['bfseries', 'itshape', 'sffamily', 'ttfamily', 'scshape']
LISTS = ['itemize', 'enumerate', 'description']
ARRS = ['tabular', 'array']
ALIGN = {'left': 1, 'center': 2, 'right': 3}


def S(s):
    return [ord(c) for c in s]


# =====================================================================================================
# abstract documents (python side).  content:
#   ['c', ch] ['s'] ['p'] ['h'] ['cl', a, b] ['mc', n, spec, text] ['g', body] ['m', body] ['d', i, body]
#   ['t', ak, spec, rows]   rows: list of rows, row: list of cells, cell: list of content
#   ['l', lk, items]        item: [term or None, body]
#   ['l', lk, items, pre, opt]   pre: index into PRE_LAYOUTS (what is written between \begin{..} and the first \item),
#                                opt: an optional argument after \begin{enumerate}
# spec: list of ['col', ch] ['arg', ch, text] ['bar'] ['at', text] ['gt', text] ['bl'] ['star', digits, spec]

# what may be written between \\begin{itemize|enumerate|description} and the first \\item (blank material: LaTeX ignores it there):
# (source text, blank tokens it expands to -- 0 a blank, 1 a \\par -- , the same after \\begin{enumerate} without optional argument,
# whose argument parser has already skipped the blanks).  The token lists are checked on every case: the stream the Model prints
# from them is compared with the stream the implementation expands the source to.
PRE_LAYOUTS = [('', [], []),
               ('\n\n', [0, 1], [1]),                 # a blank line
               ('\\par ', [1], [1]),                  # an explicit \par
               ('%c\n', [], []),                      # a comment line
               ('\n%c\n', [0], []),
               ('\n', [0], []),                       # a line break
               ('\n\n\n\n', [0, 1], [1]),             # several blank lines
               ('%c\n\n', [1], [1]),                  # comment, then a blank line
               ('\\par\\par ', [1, 1], [1, 1]),
               (' \n\n ', [0, 1], [1]),
               ('\n\n\\par \n', [0, 1, 1], [1, 1])]


def list_pre(c):
    return c[3] if len(c) > 3 else 0


def list_opt(c):
    return bool(len(c) > 4 and c[4] and c[1] == 1)


def pre_tokens(c):
    lay = PRE_LAYOUTS[list_pre(c)]
    return lay[2] if (c[1] == 1 and not list_opt(c)) else lay[1]


def spec_latex(spec):
    out = []
    for s in spec:
        k = s[0]
        if k == 'col':
            out.append(s[1])
        elif k == 'arg':
            out.append('%s{%s}' % (s[1], s[2]))
        elif k == 'bar':
            out.append('|')
        elif k == 'at':
            out.append('@{%s}' % s[1])
        elif k == 'gt':
            out.append('>{%s}' % s[1])
        elif k == 'bl':
            out.append(' ')
        elif k == 'star':
            out.append('*{%s}{%s}' % (s[1], spec_latex(s[2])))
    return ''.join(out)


def spec_tokens(text):
    """the unexpanded tokens of a column specification as the Model reads them"""
    out = []
    for ch in text:
        if ch == '{':
            out.append(-1)
        elif ch == '}':
            out.append(-2)
        elif ch in ' \n\t':
            if not out or out[-1] != -3:
                out.append(-3)
        else:
            out.append(ord(ch))
    return out


def latex(c):
    k = c[0]
    if k == 'c':
        return c[1]
    if k == 's':
        return ' '
    if k == 'p':
        return '\\par '
    if k == 'h':
        return '\\hline '
    if k == 'cl':
        return '\\cline{%d-%d}' % (c[1], c[2])
    if k == 'mc':
        return '\\multicolumn{%d}{%s}{%s}' % (c[1], spec_latex(c[2]), c[3])
    if k == 'g':
        return '{' + latex_list(c[1]) + '}'
    if k == 'm':
        return '$' + latex_list(c[1]) + '$'
    if k == 'd':
        return '\\%s ' % DECLS[c[1]] + latex_list(c[2])
    if k == 't':
        return ('\\begin{%s}{%s}' % (ARRS[c[1]], spec_latex(c[2])) +
                '\\\\'.join('&'.join(latex_list(cell) for cell in row) for row in c[3]) + '\\end{%s}' % ARRS[c[1]])
    if k == 'l':
        return ('\\begin{%s}' % LISTS[c[1]] + ('[i]' if list_opt(c) else '') + PRE_LAYOUTS[list_pre(c)][0] +
                ''.join(('\\item ' if it[0] is None else '\\item[%s]' % it[0]) + latex_list(it[1]) for it in c[2]) +
                '\\end{%s}' % LISTS[c[1]])
    raise ValueError(c)


def latex_list(b):
    return ''.join(latex(c) for c in b)


def wire_spec(spec):
    return spec_tokens(spec_latex(spec))


def wire(c):
    k = c[0]
    if k == 'c':
        return [0, [0, ord(c[1])]]
    if k == 's':
        return [0, [1]]
    if k == 'p':
        return [0, [2]]
    if k == 'h':
        return [0, [9]]
    if k == 'cl':
        return [0, [10, c[1], c[2]]]
    if k == 'mc':
        return [5, c[1], wire_spec(c[2]), S(c[3])]
    if k == 'g':
        return [1, [wire(x) for x in c[1]]]
    if k == 'm':
        return [2, [wire(x) for x in c[1]]]
    if k == 'd':
        return [6, c[1], [wire(x) for x in c[2]]]
    if k == 't':
        return [3, c[1], wire_spec(c[2]), [[[wire(x) for x in cell] for cell in row] for row in c[3]]]
    if k == 'l':
        return [4, c[1], pre_tokens(c), [[0, [], [wire(x) for x in it[1]]] if it[0] is None else [1, S(it[0]), [wire(x) for x in it[1]]] for it in c[2]]]
    raise ValueError(c)


# ---- keeping the printed source unambiguous: a blank after a control word, after \\ or twice in a row does not survive
# tokenization, and an item must not begin with blank material (DESIGN: the generator prints only what is "held")

def ends_with_word(c):
    k = c[0]
    if k in ('p', 'h'):
        return True
    if k == 'd':
        return True if not c[2] else ends_with_word(c[2][-1])
    return False


def norm_list(b, first_no_blank=False, in_math=False):
    out = []
    for c in b:
        c = norm(c, in_math)
        if c is None:
            continue
        if c[0] == 's':
            if in_math:
                continue
            if not out:
                if first_no_blank:
                    continue
            elif out[-1][0] == 's' or ends_with_word(out[-1]):
                continue
        if c[0] == 'p' and (in_math or (first_no_blank and not out)):
            continue
        out.append(c)
        if c[0] == 'd':
            break                      # a declaration takes the rest of its container
    # a declaration with an empty body followed by nothing would leave "\bfseries " + the closer: fine
    return out


def norm(c, in_math=False):
    k = c[0]
    if k == 'g':
        return ['g', norm_list(c[1], False, in_math)]
    if k == 'm':
        return None if in_math else ['m', norm_list(c[1], False, True)]
    if k == 'd':
        return ['d', c[1], norm_list(c[2], True, in_math)]     # "\bfseries " swallows a following blank
    if k == 't':
        if c[1] == 1 and not in_math:
            return ['m', [norm(c, True)]]
        if c[1] == 0 and in_math:
            c = ['t', 1, c[2], c[3]]
        rows = [[norm_list(cell, first_no_blank=(ri > 0 and ci == 0), in_math=in_math) for ci, cell in enumerate(row)] for ri, row in enumerate(c[3])]
        return ['t', c[1], c[2], rows]
    if k == 'l':
        if in_math:
            return None
        return ['l', c[1], [[it[0], norm_list(it[1], True)] for it in c[2]]] + list(c[3:])
    if k in ('h', 'cl', 'mc', 'p') and in_math and k == 'p':
        return None
    return c


# ---- python mirror of Spec print (only used to obtain item streams for the raw-stream cases)

def leaf(k, d):
    return [d] + k


def py_print(c, d):
    k = c[0]
    if k == 'c':
        return [leaf([0, ord(c[1])], d)]
    if k == 's':
        return [leaf([1], d)]
    if k == 'p':
        return [leaf([2], d)]
    if k == 'h':
        return [leaf([9], d)]
    if k == 'cl':
        return [leaf([10, c[1], c[2]], d)]
    if k == 'mc':
        return [leaf([11, c[1], py_compile(spec_latex(c[2]))[0], S(c[3])], d)]
    if k == 'g':
        return [leaf([13], d + 1)] + [x for y in c[1] for x in py_print(y, d + 1)] + [leaf([14], d)]
    if k == 'm':
        return [leaf([3, 2, 0, []], d + 1)] + [x for y in c[1] for x in py_print(y, d + 1)] + [leaf([4, 2, 0], d)]
    if k == 'd':
        return [leaf([3, 3, c[1], []], d + 1)] + [x for y in c[2] for x in py_print(y, d + 1)]
    if k == 't':
        out = [leaf([3, 0, c[1], py_compile(spec_latex(c[2]))], d + 2)]
        for ri, row in enumerate(c[3]):
            if ri:
                out.append(leaf([8], d + 2))
            out.append(leaf([5], d + 2))
            for ci, cell in enumerate(row):
                if ci:
                    out.append(leaf([7], d + 2))
                out.append(leaf([6], d + 2))
                out += [x for y in cell for x in py_print(y, d + 2)]
        return out + [leaf([4, 0, c[1]], d)]
    if k == 'l':
        out = [leaf([3, 1, c[1], []], d + 1)] + [leaf([2] if b else [1], d + 1) for b in pre_tokens(c)]
        for it in c[2]:
            out.append(leaf([12, 0, []] if it[0] is None else [12, 1, S(it[0])], d + 1))
            out += [x for y in it[1] for x in py_print(y, d + 1)]
        return out + [leaf([4, 1, c[1]], d)]
    raise ValueError(c)


def py_compile(text):
    """simple reference compiler for well-formed specifications (generator side only)"""
    toks = spec_tokens(text)
    out, left, i = [], False, 0

    def arg(i):
        while i < len(toks) and toks[i] == -3:
            i += 1
        if toks[i] == -1:
            lvl, j = 1, i + 1
            while lvl:
                lvl += {-1: 1, -2: -1}.get(toks[j], 0)
                j += 1
            return toks[i + 1:j - 1], j
        return [toks[i]], i + 1
    toks = list(toks)
    while i < len(toks):
        t = toks[i]
        i += 1
        if t == -3:
            continue
        if t == ord('|'):
            if out:
                out[-1][2] = 1
            else:
                left = True
        elif t in (ord('>'), ord('<'), ord('@')):
            _, i = arg(i)
        elif t == ord('*'):
            n, i = arg(i)
            sp, i = arg(i)
            toks[i:i] = sp * int(''.join(chr(x) for x in n))
        else:
            al = {'r': 3, 'R': 3, 'd': 3, 'c': 2, 'C': 2, 'l': 1, 'L': 1, 'J': 1, 'X': 1, 'p': 1}.get(chr(t) if t > 0 else '', 0)
            out.append([al, 0, 0])
            if t > 0 and chr(t) in 'pPdD':
                _, i = arg(i)
    if left:
        out[0][1] = 1
    return out


# =====================================================================================================
# generators

WORDS = ['a', 'b', 'x', 'yz', 'Q7', 'w', 'k2', 'abc', 'M', '0']


def rand_text(rng, maxwords=3):
    n = rng.randint(1, maxwords)
    out = []
    for i in range(n):
        if i:
            out.append(['s'])
        out += [['c', ch] for ch in rng.choice(WORDS)]
    return out


def rand_spec_atoms(rng, ncols):
    """a specification with exactly ncols column letters"""
    spec = []
    if rng.random() < 0.35:
        spec.append(['bar'])
    elif rng.random() < 0.3:
        spec.append(['at', rng.choice(['', ' ', 'x'])])
    i = 0
    while i < ncols:
        r = rng.random()
        if r < 0.15 and ncols - i >= 2:
            n = rng.randint(2, min(3, ncols - i))
            body = [['col', rng.choice('lcr')]]
            if rng.random() < 0.5:
                body.append(['bar'])
            if rng.random() < 0.2:
                body.insert(0, ['bar'])
            spec.append(['star', str(n), body])
            i += n
        elif r < 0.2 and ncols - i >= 2:
            # nested star: 2 x (1 letter) inside 1 x
            spec.append(['star', '1', [['star', '2', [['col', rng.choice('lcr')]]]]])
            i += 2
        elif r < 0.35:
            if rng.random() < 0.3:
                spec.append(['gt', rng.choice(['', 'x'])])
            spec.append(['arg', 'p', rng.choice(['3cm', '10pt', '2in'])])
            i += 1
        else:
            spec.append(['col', rng.choice('lcrlcrlcrXLRCJ')])
            i += 1
        r = rng.random()
        if r < 0.3:
            spec.append(['bar'])
            if rng.random() < 0.1:
                spec.append(['bar'])
        elif r < 0.4:
            spec.append(['at', rng.choice(['', ' ', 'x'])])
        elif r < 0.45:
            spec.append(['bl'])
    return spec


def rand_rules(rng, ncols, p=0.35):
    out = []
    while rng.random() < p:
        if rng.random() < 0.5:
            out.append(['h'])
        else:
            a = rng.randint(1, ncols)
            out.append(['cl', a, rng.randint(a, ncols)])
        if rng.random() < 0.15:
            out.append(['s'])
    return out


def rand_cell_body(rng, depth, in_list=0):
    r = rng.random()
    if r < 0.15:
        return []
    out = []
    if rng.random() < 0.4:
        out.append(['s'])
    n = rng.choice([1, 1, 1, 2, 3])
    for i in range(n):
        r = rng.random()
        if r < 0.5:
            out += rand_text(rng)
        elif r < 0.6:
            out.append(['g', rand_inline(rng, depth)])
        elif r < 0.7:
            out.append(['m', [['c', ch] for ch in rng.choice(['x+1', 'y', 'a=b', '2n'])]])
        elif r < 0.78 and depth > 0:
            out.append(rand_table(rng, depth - 1, small=True))
        elif r < 0.84 and depth > 0:
            out.append(rand_list(rng, max(0, min(depth - 1, 1)), small=True))
        elif r < 0.88:
            out.append(['p'])
        elif r < 0.96:
            out.append(['d', rng.randrange(len(DECLS)), rand_inline(rng, depth)])
        else:
            out.append(['s'])
    if rng.random() < 0.4:
        out.append(['s'])
    return out


def rand_inline(rng, depth):
    out = []
    for i in range(rng.choice([0, 1, 1, 2])):
        r = rng.random()
        if r < 0.6:
            out += rand_text(rng, 2)
        elif r < 0.7:
            out.append(['s'])
        elif r < 0.8 and depth > 0:
            out.append(['g', rand_inline(rng, depth - 1)])
        elif r < 0.9:
            out.append(['m', [['c', ch] for ch in rng.choice(['x', 'n+1'])]])
        else:
            out.append(['d', rng.randrange(len(DECLS)), rand_text(rng, 1)])
    return out


def rand_table(rng, depth, small=False):
    ncols = rng.randint(1, 3 if small else 5)
    nrows = rng.randint(1, 2 if small else 6)
    spec = rand_spec_atoms(rng, ncols)
    rows = []
    for ri in range(nrows):
        kind = rng.random()
        row = []
        if kind < 0.08:
            # a row of empty cells, possibly with rules: it exists only to carry borders
            lead = rand_rules(rng, ncols, 0.6)
            row = [lead] + [[] for _ in range(rng.randint(0, ncols - 1))]
        else:
            lead = rand_rules(rng, ncols)
            col = 0
            while col < ncols:
                if rng.random() < 0.2 and (ncols - col >= 2 or rng.random() < 0.2):
                    n = rng.randint(1, ncols - col)
                    mspec = ([['bar']] if rng.random() < 0.3 else []) + [['col', rng.choice('lcr')]] + ([['bar']] if rng.random() < 0.4 else [])
                    txt = ' '.join(rng.choice(WORDS) for _ in range(rng.randint(1, 2)))
                    cell = ([['s']] if rng.random() < 0.3 else []) + [['mc', n, mspec, txt]] + ([['s']] if rng.random() < 0.3 else [])
                    col += n
                else:
                    cell = rand_cell_body(rng, depth)
                    col += 1
                row.append(cell)
                if rng.random() < 0.04:
                    break                  # a short row
            row[0] = lead + row[0]
        rows.append(row)
    if rng.random() < 0.6:
        # what follows the last \\ : rules only (the usual closing \hline) or nothing
        rows.append([rand_rules(rng, ncols, 0.7)])
    return ['t', 0 if rng.random() < 0.8 else 1, spec, rows]


def rand_list(rng, depth, small=False):
    lk = rng.randrange(3)
    items = []
    for i in range(rng.randint(0 if rng.random() < 0.05 else 1, 2 if small else 4)):
        term = None
        if lk == 2 or rng.random() < 0.1:
            term = ' '.join(rng.choice(WORDS) for _ in range(rng.randint(1, 2)))
        body = []
        for j in range(rng.choice([0, 1, 1, 2, 3])):
            r = rng.random()
            if r < 0.45:
                body += rand_text(rng)
            elif r < 0.55:
                body.append(['p'])
            elif r < 0.62:
                body.append(['s'])
            elif r < 0.7:
                body.append(['g', rand_inline(rng, 1)])
            elif r < 0.77:
                body.append(['m', [['c', ch] for ch in rng.choice(['x+1', 'y'])]])
            elif r < 0.92 and depth > 0:
                body.append(rand_list(rng, depth - 1, small))
            elif depth > 0 or rng.random() < 0.3:
                body.append(rand_table(rng, 0, small=True))
        items.append([term, body])
    # blank line / \par / comment / line breaks before the first \item, at every depth; sometimes after an optional argument
    pre = rng.randrange(1, len(PRE_LAYOUTS)) if rng.random() < 0.4 else 0
    return ['l', lk, items, pre, lk == 1 and rng.random() < 0.3]


def enum_border_tables():
    """every 3-column row shape x every rule before the row x every rule after the last row; and two-row variants"""
    shapes = [[1, 1, 1], [2, 1], [1, 2], [3], [1, 1]]
    rules = [None, ['h']] + [['cl', a, b] for a in (1, 2, 3) for b in (1, 2, 3) if a <= b]

    def row(shape, lead, tag):
        cells = []
        for i, sp in enumerate(shape):
            cells.append([['c', tag]] if sp == 1 else [['mc', sp, [['col', 'c']], tag]])
        if lead is not None:
            cells[0] = [lead] + cells[0]
        return cells
    spec = [['bar'], ['col', 'l'], ['col', 'c'], ['bar'], ['col', 'r']]
    for sh in shapes:
        for lead in rules:
            for trail in rules:
                rows = [row(sh, lead, 'a')]
                if trail is not None:
                    rows.append([[trail]])
                yield ['t', 0, spec, rows]
    for sh1 in shapes:
        for sh2 in shapes:
            for mid in rules[1:]:
                # the rule written in a border-only row between two rows, and the same rule leading the second row
                yield ['t', 0, spec, [row(sh1, None, 'a'), [[mid], []], row(sh2, None, 'b')]]
                yield ['t', 0, spec, [row(sh1, None, 'a'), row(sh2, mid, 'b')]]
    for sh in shapes:
        for first in rules[1:]:
            # a border-only first row
            yield ['t', 0, spec, [[[first]], row(sh, None, 'a')]]


def enum_lists(budget):
    """all list nesting shapes with at most `budget` items in total (items hold one letter, then possibly one nested list)"""
    def lists(n, depth):
        # -> list of (items-list) using exactly n items in total
        if n == 0:
            return [[]]
        out = []
        for k in range(0, n if depth > 0 else 1):     # k items inside the first item's nested list
            for inner in (lists(k, depth - 1) if k else [None]):
                for rest in lists(n - 1 - k, depth):
                    body = [['c', 'a']] + ([['l', 0, inner]] if inner is not None else [])
                    out.append([[None, body]] + rest)
        return out
    def with_layout(l, j, opt):
        # the same layout before the first item of the list and of every nested list
        return ['l', l[1], [[t, [with_layout(x, j + 1, opt) if x[0] == 'l' else x for x in b]] for t, b in l[2]],
                1 + j % (len(PRE_LAYOUTS) - 1), opt]
    count = 0
    for n in range(0, budget + 1):
        for its in lists(n, 3):
            l = ['l', n % 3, [[('T' if n % 3 == 2 else None), b] for _, b in its]]
            yield l
            # every shape again with blank material before the first \item at every depth (layouts rotate with shape and depth)
            yield with_layout(l, count, False)
            if n % 3 == 1:
                yield with_layout(l, count + 3, True)
            count += 1
    for lk in range(3):
        for j in range(1, len(PRE_LAYOUTS)):
            for opt in ([False, True] if lk == 1 else [False]):
                inner = ['l', (lk + 1) % 3, [[None, [['c', 'b']]], [None, [['c', 'c']]]], j, opt]
                yield ['l', lk, [[('T' if lk == 2 else None), [['c', 'a'], inner]], [('U' if lk == 2 else None), [['c', 'd']]]], j, opt]


SPEC_ALPHABET = ['l', 'c', '|', '@{}', '*{2}{l|}', 'p{1cm}', ' ']
RAW_SPEC_CHARS = list('lcrp|@*{}<>d 12XPD') + ['*{2}', '{}', '@{}', '*{2}{c}', 'p{x}', '>{}', '<{}', '*{0}{c}', '*{3}{*{2}{l|}}']


def mutate_stream(rng, items):
    items = [list(x) for x in items]
    for _ in range(rng.choice([0, 1, 1, 2, 3])):
        if len(items) < 2:
            break
        i = rng.randrange(1, len(items))
        r = rng.random()
        if r < 0.3:
            del items[i]
        elif r < 0.5:
            items.insert(i, list(items[rng.randrange(1, len(items))]))
        elif r < 0.65:
            j = rng.randrange(1, len(items))
            items[i], items[j] = items[j], items[i]
        elif r < 0.85:
            items[i][0] += rng.choice([-2, -1, 1, 2])
        else:
            k = rng.choice([[7], [8], [6], [5], [14], [13], [9], [12, 0, []], [2], [1], [4, 1, 0], [4, 0, 0], [10, 1, 2]])
            items.insert(i, [items[i][0]] + k)
    return items


def streams(rng, tier, boost):
    out = []
    quick = tier == 'quick'
    # exhaustive small scope
    for t in enum_border_tables():
        out.append(('exhaustive-borders', dict(kind='doc', doc=t)))
    for l in enum_lists(5 if quick else 6):
        out.append(('exhaustive-lists', dict(kind='doc', doc=l)))
    for n in range(1, 4 if quick else 5):
        for combo in itertools.product(SPEC_ALPHABET, repeat=n):
            out.append(('exhaustive-colspec', dict(kind='spec', text=''.join(combo), wf=True)))
    # structured
    for i in range((2500 if quick else 12000) * boost):
        out.append(('tables', dict(kind='doc', doc=norm(rand_table(rng, rng.choice([0, 1, 1, 2]))))))
    for i in range((1500 if quick else 8000) * boost):
        out.append(('lists', dict(kind='doc', doc=norm(rand_list(rng, rng.choice([0, 1, 2, 3]))))))
    for i in range((600 if quick else 4000) * boost):
        ncols = rng.randint(1, 5)
        out.append(('colspecs', dict(kind='spec', text=spec_latex(rand_spec_atoms(rng, ncols)), wf=True)))
    # extended stream: a declaration written directly in a list item (known finding)
    for i in range(12 if quick else 60):
        l = rand_list(rng, 1, small=True)
        if l[2]:
            j = rng.randrange(len(l[2]))
            l[2][j][1] = l[2][j][1] + [['d', rng.randrange(len(DECLS)), rand_text(rng, 1)]]
        out.append(('declaration-in-item', dict(kind='doc', doc=norm(l), ext=True)))
    # malformed
    for i in range((1500 if quick else 8000) * boost):
        base = norm(rand_table(rng, 1, small=True) if rng.random() < 0.6 else rand_list(rng, 2, small=True))
        out.append(('raw-items', dict(kind='raw', items=mutate_stream(rng, py_print(base, 0)))))
    for i in range((800 if quick else 5000) * boost):
        out.append(('raw-colspecs', dict(kind='spec', text=''.join(rng.choice(RAW_SPEC_CHARS) for _ in range(rng.randint(0, 7))), wf=False)))
    return out


def search_streams(rng, tier):
    return [('search', dict(kind='doc', doc=norm(rand_table(rng, 1)))) for _ in range(1500)]


# =====================================================================================================
# model side

def model_input(case):
    if case['kind'] == 'doc':
        return [0, wire(case['doc'])]
    if case['kind'] == 'raw':
        return [1, [list(x) for x in case['items']]]
    return [2, spec_tokens(case['text'])]


def describe(case):
    if case['kind'] == 'doc':
        return latex(case['doc'])
    if case['kind'] == 'raw':
        return 'item stream (depth kind...): ' + ' '.join(str(x) for x in case['items'])
    return 'column specification {%s}' % case['text']


# =====================================================================================================
# implementation side

def worker_init():
    import texrun
    texrun.quiet()


def P(x):
    return None if x is None else ''.join(chr(ord(c)) for c in x)


def col_triple(ct):
    st = ct.style
    return [ALIGN.get(P(st.get('text-align')), 0) if 'text-align' in st else 0, 1 if 'border-left' in st else 0, 1 if 'border-right' in st else 0]


def kind_of_node(n):
    """the wire kind (same codes as Model obs_kind) of a token or node"""
    from plasTeX import Macro
    from plasTeX.Base.LaTeX.Arrays import Array
    from plasTeX.Base.LaTeX.Lists import List
    if n.nodeType != 1:
        s = P(n)
        return [1] if not s.strip() else [0, ord(s[0])]
    name = type(n).__name__
    end = n.macroMode == Macro.MODE_END
    if isinstance(n, Array):
        ak = {'tabular': 0, 'array': 1}.get(n.nodeName, 2)
        if end:
            return [4, 0, ak]
        return [3, 0, ak, [col_triple(c) for c in (n.colspec or [])]]
    if isinstance(n, List):
        lk = {'itemize': 0, 'enumerate': 1, 'description': 2}.get(n.nodeName, 3)
        return [4, 1, lk] if end else [3, 1, lk, []]
    if n.nodeName == 'math':
        return [4, 2, 0] if end else [3, 2, 0, []]
    if n.nodeName in DECLS:
        return [3, 3, DECLS.index(n.nodeName), []]
    if isinstance(n, Array.ArrayRow):
        return [5]
    if isinstance(n, Array.ArrayCell):
        return [6]
    if isinstance(n, Array.CellDelimiter):
        return [7]
    if isinstance(n, Array.EndRow):
        return [8]
    if isinstance(n, Array.cline):
        sp = n.attributes.get('span')
        return [10, int(sp[0]), int(sp[1])] if isinstance(sp, list) and len(sp) == 2 else [10, -99, -99]
    if isinstance(n, Array.hline):
        return [9]
    if isinstance(n, Array.multicolumn):
        return [11, int(n.attributes['colspan']), col_triple(n.colspec), S(P(n.attributes['self'].textContent))]
    if isinstance(n, List.item):
        t = n.attributes.get('term')
        return [12, 0, []] if t is None else [12, 1, S(P(t.textContent))]
    if n.nodeName == 'bgroup':
        return [13]
    if n.nodeName == 'egroup':
        return [14]
    if n.nodeName == 'par':
        return [2]
    return [15, 0]


def canon_node(n, strict=False, under_list=False):
    """[kind, array-info, children]: paragraphs are transparent, text is split into characters.
    strict (documents): the children of a list node are observed as they are -- a paragraph wrapped around the items of a list is
    not looked through (the items must be the children of the list; Macro.paragraphs never runs on a list that holds only items)."""
    from plasTeX.Base.LaTeX.Arrays import Array
    if n.nodeType != 1:
        return [[[1] if ch.isspace() else [0, ord(ch)], [], []] for ch in P(n)]
    k = kind_of_node(n)
    if k[0] == 2:
        inner = [x for c in n.childNodes for x in canon_node(c, strict)]
        return [[[2], [], inner]] if (strict and under_list) else inner
    is_list = k[0] == 3 and k[1] == 1
    kids = [] if k[0] == 11 else [x for c in n.childNodes for x in canon_node(c, strict, is_list)]
    info = []
    if isinstance(n, Array) and k[0] == 3:
        rows = []
        for row in n.childNodes:
            cells = []
            for cell in row.childNodes:
                st = cell.style
                cells.append([int(cell.attributes.get('colspan', 1)) if cell.attributes else 1,
                              [1 if 'border-top-style' in st else 0, 1 if 'border-bottom-style' in st else 0,
                               1 if 'border-left' in st else 0, 1 if 'border-right' in st else 0,
                               ALIGN.get(P(st.get('text-align')), 0) if 'text-align' in st else 0]])
            rows.append(cells)
        info = [int(getattr(n, 'numCols', -1)), rows]
    return [[k, info, kids]]


def impl_doc(case):
    from plasTeX.TeX import TeX, TeXDocument
    rec = []

    started = []

    class RecTeX(TeX):
        def __iter__(self):
            # only the iteration that drives the parse is recorded (argument parsing iterates the same object again)
            top = not started
            started.append(1)
            for t in TeX.__iter__(self):
                if top:
                    rec.append([int(t.contextDepth)] + kind_of_node(t))
                yield t
    doc = TeXDocument()
    tex = RecTeX(doc)
    tex.disableLogging()
    base = doc.context.depth
    tex.input(latex(case['doc']))
    tex.parse()
    for it in rec:
        it[0] -= base
    top = [x for c in doc.childNodes for x in canon_node(c, strict=True)]
    return [0, rec, top]


def build_item(doc, it):
    from plasTeX import Macro
    from plasTeX.Tokenizer import Letter, Space, Other
    from plasTeX.Base.LaTeX import Arrays, Lists, Math, FontSelection
    from plasTeX.Base.TeX import Text, Primitives
    d, k = it[0], it[1:]

    def col(tr):
        c = Arrays.ColumnType()
        if tr[0]:
            c.style['text-align'] = {1: 'left', 2: 'center', 3: 'right'}[tr[0]]
        if tr[1]:
            c.style['border-left'] = '1px solid black'
        if tr[2]:
            c.style['border-right'] = '1px solid black'
        return c
    code = k[0]
    if code in (0, 1):
        t = Space(' ') if code == 1 else (Letter if chr(k[1]).isalpha() else Other)(chr(k[1]))
        t.contextDepth = d
        t.ownerDocument = doc
        t.parentNode = None
        return t
    mode = Macro.MODE_NONE
    attrs = {}
    extra = {}
    if code in (3, 4):
        mode = Macro.MODE_BEGIN if code == 3 else Macro.MODE_END
        e, sub = k[1], k[2]
        if e == 0:
            cls = [Arrays.tabular, Arrays.array][sub]
            if code == 3:
                extra['colspec'] = [col(tr) for tr in k[3]]
        elif e == 1:
            cls = [Lists.itemize, Lists.enumerate_, Lists.description][sub]
        elif e == 2:
            cls = Math.math
            mode = Macro.MODE_NONE if code == 3 else Macro.MODE_END
        else:
            cls = getattr(FontSelection, DECLS[sub])
            mode = Macro.MODE_NONE
    else:
        A = Arrays.Array
        cls = {2: Primitives.par, 5: A.ArrayRow, 6: A.ArrayCell, 7: A.CellDelimiter, 8: A.EndRow, 9: A.hline, 10: A.cline, 11: A.multicolumn,
               12: Lists.List.item, 13: Text.bgroup, 14: Text.egroup}[code]
        if code == 10:
            attrs['span'] = [k[1], k[2]]
        if code == 11:
            frag = doc.createDocumentFragment()
            frag.append(doc.createTextNode(''.join(chr(c) for c in k[3])))
            attrs = {'colspan': k[1], 'self': frag}
            extra['colspec'] = col(k[2])
        if code == 12:
            if k[1]:
                frag = doc.createDocumentFragment()
                frag.append(doc.createTextNode(''.join(chr(c) for c in k[2])))
                attrs['term'] = frag
            else:
                attrs['term'] = None
    e = cls()
    e.ownerDocument = doc
    e.parentNode = None
    e.contextDepth = d
    e.macroMode = mode
    if attrs:
        e.attributes.update(attrs)
    for a, v in extra.items():
        setattr(e, a, v)
    return e


def impl_raw(case):
    from plasTeX.TeX import TeX, TeXDocument, bufferediter
    doc = TeXDocument()
    tex = TeX(doc)
    tex.disableLogging()
    toks = [build_item(doc, it) for it in case['items']]
    if not toks:
        return [0, [], []]
    it = bufferediter(iter(toks[1:]))
    first = toks[0]
    if first.nodeType == 1:
        first.digest(it)
    rest = [[int(t.contextDepth)] + kind_of_node(t) for t in it]
    return [0, canon_node(first), rest]


def impl_spec(case):
    from plasTeX.TeX import TeX, TeXDocument
    from plasTeX.Base.LaTeX.Arrays import Array
    doc = TeXDocument()
    tex = TeX(doc)
    tex.disableLogging()
    tex.input(case['text'])
    toks = [t for t in tex.itertokens()]
    tex2 = TeX(doc)
    tex2.disableLogging()
    try:
        cols = Array.compileColspec(tex2, toks)
    except IndexError:
        return [-2, 0]
    return [0, [col_triple(c) for c in cols]]


def run_impl(case):
    if case['kind'] == 'doc':
        return impl_doc(case)
    if case['kind'] == 'raw':
        return impl_raw(case)
    return impl_spec(case)


# =====================================================================================================
# canonical form of the Model's observations

class Unmodelled(Exception):
    pass


def drop_blank_paragraphs(kids):
    """Macro.paragraphs(): the children are grouped into paragraphs (a \\par or a block-level element -- table, list -- starts a new
    one) and a paragraph that holds nothing but blanks is removed"""
    out, seg = [], []

    def flush():
        if not all(c[0] == [1] for c in seg):
            out.extend(seg)
        del seg[:]
    for c in kids:
        kk = c[0]
        if kk[0] == 2 or (kk[0] in (3, 4) and kk[1] in (0, 1)):
            flush()
            out.append(c)
        else:
            seg.append(c)
    flush()
    return out


def canon_model_tree(o):
    """Model obs: [kindcodes, arr, children] -> the same canonical form as canon_node (a list of nodes)"""
    k, arr, kids = o
    if k[0] == 2:                               # \par: transparent (the implementation turns it into a container)
        return [x for c in kids for x in canon_model_tree(c)]
    info = []
    if k[0] == 3 and k[1] == 0:
        if arr[0] == 0:
            raise Unmodelled()
        keep = [r[0] == 1 for r in arr[2]]
        info = [arr[1], [[[c[0], c[1]] for c in r[1]] for r in arr[2] if r[0] == 1]]
        kids = [c for c, kp in zip(kids, keep) if kp]
    if k[0] in (6, 12) or (k[0] in (13, 3) and any(c[0][0] == 2 for c in kids)):
        kids = drop_blank_paragraphs(kids)
    ck = [x for c in kids for x in canon_model_tree(c)]
    if k[0] == 12:
        k = k[:2] + [k[2] if k[1] else []]
    return [[k, info, ck]]


def canon_model_digest(o):
    """obs_digest -> [0, tree-nodes, rest] or a marker"""
    if o == [-3]:
        return ['model-out-of-fuel']
    try:
        for r in o[2]:
            canon_model_tree(r[1])          # a pushed-back table the border code cannot handle makes the case unmodelled
        return [0, canon_model_tree(o[1]), [r[0] for r in o[2]]]
    except Unmodelled:
        return ['unmodelled']


def strip_blanks(nodes):
    return [[n[0], n[1], strip_blanks(n[2])] for n in nodes if n[0] != [1]]


# =====================================================================================================
# judge

def tables_in(c):
    k = c[0]
    if k in ('g', 'm'):
        for x in c[1]:
            yield from tables_in(x)
    elif k == 'd':
        for x in c[2]:
            yield from tables_in(x)
    elif k == 't':
        yield c
        for row in c[3]:
            for cell in row:
                for x in cell:
                    yield from tables_in(x)
    elif k == 'l':
        for it in c[2]:
            for x in it[1]:
                yield from tables_in(x)


def has_partial_overlap(doc):
    """some \\cline{a-b} meets a multi-column cell of its table without containing it: what marking such a cell means is a
    convention (the Model marks a cell iff it covers a ruled column), so a difference there is not held against the code"""
    for t in tables_in(doc):
        clines = [x for row in t[3] for cell in row for x in cell if x[0] == 'cl']
        if not clines:
            continue
        for row in t[3]:
            col = 1
            for cell in row:
                sp = 1
                for x in cell:
                    if x[0] == 'mc':
                        sp = x[1]
                for cl in clines:
                    if sp > 1 and cl[1] <= col + sp - 1 and col <= cl[2] and not (cl[1] <= col and col + sp - 1 <= cl[2]):
                        return True
                col += sp
    return False


def decl_in_item(c):
    k = c[0]
    if k in ('g', 'm'):
        return any(decl_in_item(x) for x in c[1])
    if k == 'd':
        return any(decl_in_item(x) for x in c[2])
    if k == 't':
        return any(decl_in_item(x) for row in c[3] for cell in row for x in cell)
    if k == 'l':
        return any(x[0] == 'd' or decl_in_item(x) for it in c[2] for x in it[1])
    return False


def strip_styles(nodes):
    return [[n[0][:3] if n[0][0] == 3 else n[0], [], strip_styles(n[2])] for n in nodes]


def mask_rules(nodes):
    """the trees with the top/bottom flags blanked: what remains differs only if spans or column styles differ"""
    out = []
    for n in nodes:
        info = n[1]
        if info:
            info = [info[0], [[[c[0], [0, 0] + c[1][2:]] for c in row] for row in info[1]]]
        out.append([n[0], info, mask_rules(n[2])])
    return out


def first_diff(a, b, path='top'):
    if type(a) != type(b):
        return '%s: %r vs %r' % (path, a, b)
    if isinstance(a, list):
        for i, (x, y) in enumerate(zip(a, b)):
            d = first_diff(x, y, '%s.%d' % (path, i))
            if d:
                return d
        if len(a) != len(b):
            return '%s: length %d vs %d (%r | %r)' % (path, len(a), len(b), a[len(b):][:2], b[len(a):][:2])
        return None
    return None if a == b else '%s: %r vs %r' % (path, a, b)


def judge(case, io, mo):
    kind = case['kind']
    impl_raises = isinstance(io, list) and io[:1] in (['raise'], ['hang'])
    if kind == 'spec':
        if mo == [-4]:
            return None                       # an argument runs into the end of the specification: outside the Model
        if mo == [-3]:
            return dict(violation=False, key='C10:model-fuel', what='model out of fuel on a column specification')
        if io == mo:
            return None
        return dict(violation=bool(case.get('wf')), key='C10:colspec' + (':raises' if impl_raises or io[:1] == [-2] else ''), expected=mo,
                    what='compileColspec gives %s, the specification means %s' % (io, mo))
    if kind == 'raw':
        m = canon_model_digest(mo) if isinstance(mo, list) and mo[:1] == [0] else mo
        if m == ['unmodelled']:
            return None
        if impl_raises:
            # the border code raises on tables whose rows are not rows of cells; anything else is reported
            return dict(violation=False, key='C10:raw:impl-raises', expected=m, what='implementation raises on a raw item stream: %s' % (io[:3],))
        if io == m:
            return None
        if m[:1] == [0] and io[2] == m[2] and strip_blanks(io[1]) == strip_blanks(m[1]):
            # an element digested twice has had its blank paragraphs removed in between (Macro.paragraphs is not modelled)
            return None
        return dict(violation=False, key='C10:raw', expected=m, what='raw item stream digested differently: ' + str(first_diff(io, m)))
    # abstract documents
    if not (isinstance(mo, list) and mo[:1] == [0] and len(mo) == 4):
        if mo in ([-2, 0], [-4], [-3]) or mo == [-1]:
            return dict(violation=False, key='C10:doc:model-rejects', expected=mo, what='the Model does not accept this document: %s' % (mo,))
        return dict(violation=False, key='C10:doc:model', expected=mo, what='unexpected Model answer')
    m_items = mo[1]
    m_dig = canon_model_digest(mo[2])
    try:
        spec_tree = canon_model_tree(mo[3])
    except Unmodelled:
        spec_tree = None
    if impl_raises:
        return dict(violation=True, key='C10:doc:raises', expected=spec_tree, what='implementation raises: %s' % (io[:3],))
    i_items, i_tree = io[1], io[2]
    if spec_tree is not None and i_tree != spec_tree:
        shape_ok = strip_styles(i_tree) == strip_styles(spec_tree)
        d = first_diff(i_tree, spec_tree)
        if not shape_ok:
            if decl_in_item(case['doc']):
                return dict(violation=True, key='C10:list:declaration-in-item', expected=spec_tree,
                            what='a declaration written in a list item swallows the following items: ' + str(d))
            cls = 'list' if case['doc'][0] == 'l' else 'table'
            return dict(violation=True, key='C10:shape:' + cls, expected=spec_tree, what='rows/cells/items differ from what was written: ' + str(d))
        if has_partial_overlap(case['doc']):
            return dict(violation=False, key='C10:borders:partial-overlap', expected=spec_tree,
                        what='borders differ only in a table where a \\cline partly overlaps a \\multicolumn cell: ' + str(d))
        sub = 'rules' if mask_rules(i_tree) == mask_rules(spec_tree) else 'colspec'
        return dict(violation=True, key='C10:borders:' + sub, expected=spec_tree, what='spans/borders/column styles differ: ' + str(d))
    if m_dig[:1] != [0] or i_tree != m_dig[1] or m_dig[2] != []:
        return dict(violation=False, key='C10:doc:digest', expected=m_dig, what='Model digests differently: ' + str(first_diff([0, i_tree, []], m_dig)))
    if i_items != m_items:
        return dict(violation=False, key='C10:doc:expansion', expected=m_items,
                    what='the item stream the source expands to differs from the printed one: ' + str(first_diff(i_items, m_items)))
    return None


def count_nodes(c):
    k = c[0]
    if k in ('g', 'm'):
        return 1 + sum(count_nodes(x) for x in c[1])
    if k == 'd':
        return 1 + sum(count_nodes(x) for x in c[2])
    if k == 't':
        return 1 + sum(1 + sum(count_nodes(x) for x in cell) for row in c[3] for cell in row)
    if k == 'l':
        return 1 + sum(1 + sum(count_nodes(x) for x in it[1]) for it in c[2])
    return 1


def depth_of(c):
    k = c[0]
    if k in ('g', 'm'):
        return max([0] + [depth_of(x) for x in c[1]])
    if k == 'd':
        return max([0] + [depth_of(x) for x in c[2]])
    if k == 't':
        return 1 + max([0] + [depth_of(x) for row in c[3] for cell in row for x in cell])
    if k == 'l':
        return 1 + max([0] + [depth_of(x) for it in c[2] for x in it[1]])
    return 0


def lists_with_pre(c, depth=1):
    """nesting depths of the lists that have blank material before their first \\item"""
    k = c[0]
    out = []
    if k in ('g', 'm'):
        for x in c[1]:
            out += lists_with_pre(x, depth)
    elif k == 'd':
        for x in c[2]:
            out += lists_with_pre(x, depth)
    elif k == 't':
        for row in c[3]:
            for cell in row:
                for x in cell:
                    out += lists_with_pre(x, depth)
    elif k == 'l':
        if list_pre(c):
            out.append(depth)
        for it in c[2]:
            for x in it[1]:
                out += lists_with_pre(x, depth + 1)
    return out


def nontrivial(case, io):
    if case['kind'] == 'doc':
        d = case['doc']
        if d[0] == 't':
            return sum(len(r) for r in d[3]) >= 2
        if d[0] == 'l':
            return len(d[2]) >= 2
        return count_nodes(d) >= 4
    if case['kind'] == 'raw':
        return len(case['items']) >= 4
    return sum(1 for ch in case['text'] if ch.isalpha()) >= 2


def tags(case, io):
    t = [case['kind']]
    if isinstance(io, list) and io[:1] in (['raise'], [-2]):
        t.append('impl-raises')
    if case['kind'] == 'doc':
        d = case['doc']
        txt = latex(d)
        t.append('top=' + {'t': 'table', 'l': 'list', 'm': 'math'}.get(d[0], d[0]))
        t.append('nesting=%d' % min(depth_of(d), 5))
        for name, pat in (('multicolumn', '\\multicolumn'), ('cline', '\\cline'), ('hline', '\\hline'), ('star', '*{'), ('at', '@{'),
                          ('p-column', 'p{'), ('declaration', '\\bfseries'), ('math', '$'), ('par', '\\par'), ('term', '\\item[')):
            if pat in txt:
                t.append('has-' + name)
        pres = lists_with_pre(d)
        if pres:
            t.append('blank-before-first-item')
            t.append('blank-before-first-item-depth=%d' % min(max(pres), 4))
        if d[0] == 't':
            t.append('rows=%d' % min(len(d[3]), 7))
    return t


def well_formed_spec(text):
    """balanced braces, every @ > p d followed by a brace group, every * by two"""
    depth = 0
    for ch in text:
        depth += {'{': 1, '}': -1}.get(ch, 0)
        if depth < 0:
            return False
    if depth:
        return False
    import re
    t = text
    while True:
        t2 = re.sub(r'\*\{\d+\}\{[^{}]*\}', 'S', t)
        t2 = re.sub(r'[@>pd]\{[^{}]*\}', 'A', t2)
        if t2 == t:
            break
        t = t2
    return not any(ch in t for ch in '{}*@><pdPD')


def shrink(case):
    if case['kind'] == 'spec':
        s = case['text']
        for i in range(len(s)):
            for j in (i + 1, i + 3, i + 5, i + 8):
                t = s[:i] + s[j:]
                if j <= len(s) and (not case.get('wf') or well_formed_spec(t)):
                    yield dict(case, text=t)
        return
    if case['kind'] == 'raw':
        its = case['items']
        for i in range(1, len(its)):
            yield dict(case, items=its[:i] + its[i + 1:])
        return

    def subs_list(b):
        for i in range(len(b)):
            yield b[:i] + b[i + 1:]
        for i in range(len(b)):
            for s in subs(b[i]):
                yield b[:i] + [s] + b[i + 1:]

    def subs(c):
        k = c[0]
        if k in ('g', 'm'):
            for s in subs_list(c[1]):
                yield [k, s]
        elif k == 'd':
            for s in subs_list(c[2]):
                yield ['d', c[1], s]
        elif k == 't':
            rows = c[3]
            for i in range(len(rows)):
                if len(rows) > 1:
                    yield ['t', c[1], c[2], rows[:i] + rows[i + 1:]]
            for i, row in enumerate(rows):
                for j in range(len(row)):
                    if len(row) > 1:
                        yield ['t', c[1], c[2], rows[:i] + [row[:j] + row[j + 1:]] + rows[i + 1:]]
                    for s in subs_list(row[j]):
                        yield ['t', c[1], c[2], rows[:i] + [row[:j] + [s] + row[j + 1:]] + rows[i + 1:]]
            for i in range(len(c[2])):
                if c[2][i][0] not in ('col', 'arg'):
                    yield ['t', c[1], c[2][:i] + c[2][i + 1:], rows]
        elif k == 'l':
            its = c[2]
            ext = list(c[3:])
            if list_pre(c) or list_opt(c):
                yield ['l', c[1], its]
                if list_opt(c):
                    yield ['l', c[1], its, list_pre(c), False]
                if list_pre(c) > 1:
                    yield ['l', c[1], its, 1, list_opt(c)]
            for i in range(len(its)):
                yield ['l', c[1], its[:i] + its[i + 1:]] + ext
            for i, it in enumerate(its):
                for s in subs_list(it[1]):
                    yield ['l', c[1], its[:i] + [[it[0], s]] + its[i + 1:]] + ext
        elif k == 'mc' and c[1] > 1:
            yield ['mc', c[1], [['col', 'c']], 'x']
    for s in subs(case['doc']):
        n = norm(s)
        if n is not None and n != case['doc']:
            yield dict(case, doc=n)
