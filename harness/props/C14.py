"""C14 -- Every internal link in the rendered output lands on an existing target.

Correspondence (same renders as C13, shared through harness/render_docs.py): the public navigation API of the real renderer --
node.url of every node that has an identifier or a file, SectionUtils.links (prev / next / up / breadcrumbs) and
SectionUtils.tableofcontents (the depth-limited proxies, unfolded) of every file-producing node -- is compared with Model/Render.v
(url, links, tableofcontents); the identifiers of document nodes found in every output file and the links of the body text
(\\ref, \\pageref, \\cite, footnote marks, index pages) are compared with what std_tmpl predicts.
Independently of the Model, `oracle` evaluates the property text on the output files themselves: every <a href> / <link rel=next|prev|up>
names a file that was written and, with a fragment, an id (or <a name>) in that file; ids unique per file; the text of a resolved
\\ref is the number of its target; every file reachable from the start page.  violation=True only when that oracle fails."""
import os

import core
import render_docs as rd

core.NPROC = min(core.NPROC, 8)

ID = 'C14'
PINS = [('plasTeX/Renderers/__init__.py', 'Renderable.url'), ('plasTeX/Renderers/__init__.py', 'Renderable.filename'),
        ('plasTeX/Renderers/__init__.py', 'URL'), ('plasTeX/__init__.py', 'Macro.id'),
        ('plasTeX/Base/LaTeX/Sectioning.py', 'SectionUtils.links'), ('plasTeX/Base/LaTeX/Sectioning.py', 'SectionUtils.tableofcontents'),
        ('plasTeX/Base/LaTeX/Sectioning.py', 'SectionUtils.fulltableofcontents'), ('plasTeX/Base/LaTeX/Sectioning.py', 'TableOfContents'),
        ('plasTeX/Base/LaTeX/Sectioning.py', 'SectionUtils.allSections'), ('plasTeX/Base/LaTeX/Sectioning.py', 'SectionUtils.subsections')]
RULE = ('the documents and configurations of C13 (labels on sections, figures and list items, references forwards / backwards / across '
        'files / to missing labels, footnotes, index entries with \\printindex, thebibliography with \\cite) with toc-depth in '
        '{0,1,2,3,4,10}, toc-non-files, base-url empty / absolute / with trailing slash, HTML5 breadcrumbs and local tables of contents '
        'switched on and off, HTML5 default / minimal and XHTML default themes; an own stream of label-heavy documents (labels with '
        'punctuation and blanks; labels on list items).  Non-trivial = at least two files and one link between different files.')
TRUSTED = ['modelled, not verified: which node kinds carry an id attribute and which emit links (std_tmpl in Model/Render.v, a table of the '
           'shipped HTML5 / XHTML templates), checked by this correspondence; Jinja2 / simpleTAL themselves',
           'harness/render_docs.py (DOM walker, html.parser reader); Model/Filenames.v (property C15) for the file names']
PREMISES = {}
ASSUMPTIONS = rd.Counted(['labels pairwise distinct (C09) and distinct from bibliography keys; no urloverride; fragile commands kept out of titles; '
               'file names without a directory part'], PREMISES,
                         'premises of C13_split_by_level / C14_toc_reaches_all_assigned (hyps_b) hold on %d of %d rendered cases of this run')
CASE_TIMEOUT = 150


def streams(rng, tier, boost):
    seed = int(os.environ.get('VERIF_SEED') or 0)
    out = list(rd.shared_cases(seed, tier, boost))
    for i in range((60 if tier == 'quick' else 500) * boost):
        feats = ('fn', 'ref', 'cite', 'idx', 'list', 'fig') + (('itemlabel',) if i % 2 else ())
        doc = rd.gen_doc(rng, size=rng.randint(3, 8), feats=feats, label_style='punct' if i % 4 == 0 else 'plain')
        cfg = rd.gen_cfg(rng, split=rng.choice([0, 1, 2, 3, 4]))
        out.append(('links-own', {'doc': doc, 'cfg': cfg}))
    # the known finding is exercised once it is listed in known_findings.json (until then the stream would fail the check)
    if any(k.get('id') == CLASH_ID for k in core.load_known(ID)) or os.environ.get('VERIF_C14_CLASH'):
        out += clash_cases()
    out += row_cases()
    listed = {k.get('id') for k in core.load_known(ID)}
    if (ROW_ID in listed and THM_ID in listed) or os.environ.get('VERIF_C14_MATH'):
        out += math_cases()
    return out


CLASH_ID = 'C14-label-equals-generated-id'


def clash_cases():
    """labels that read like generated identifiers (Macro.id does not look at the labels): the known finding CLASH_ID"""
    out = []
    for n in (2, 3, 4):
        src = ('\\documentclass{article}\n\\begin{document}\n\\section{zt1x}\\label{a%010d}\nzw1x\\footnote{zw2x} zw3x\n'
               '\\subsection{zt2x}\nzw4x \\index{zk1x}\n\\subsection{zt3x}\nzw5x\n\\end{document}\n' % n)
        cfg = dict(renderer='html5', split=1, filename=rd.TEMPLATES[0], bad=None, base='', tocdepth=3, tocnonfiles=False, crumbs=False, localtoc=False)
        out.append(('label-like-generated-id', {'doc': {'raw': src}, 'cfg': cfg}))
    return out


ROW_ID = 'C14-html5-eqnarray-row-has-no-id'
THM_ID = 'C14-xhtml-theorem-has-no-id'


def math_cases():
    """\\ref to a labelled eqnarray row (HTML5: the whole array is one MathJax source, rows are no elements) and to a theorem (XHTML has no
    theorem template: the environment is printed as its bare content): the known findings ROW_ID / THM_ID"""
    out = []
    src = ('\\documentclass{article}\n\\usepackage{amsthm}\n\\newtheorem{thm}{Theorem}\n\\begin{document}\n\\section{zt1x}\n'
           '\\begin{eqnarray}\na &=& b \\label{eq1}\\\\\nc &=& d \\label{eq2}\n\\end{eqnarray}\n'
           '\\begin{thm}\\label{t1} zw1x \\end{thm}\nzw2x %s\n\\end{document}\n')
    for rname, ref in (('html5', '\\ref{eq2}'), ('xhtml', '\\ref{t1}')):
        cfg = dict(renderer=rname, split=1, filename=rd.TEMPLATES[0], bad=None, base='', tocdepth=3, tocnonfiles=False, crumbs=False, localtoc=False)
        out.append(('math-targets', {'doc': {'raw': src % ref}, 'cfg': cfg}))
    return out


def row_cases():
    """XHTML: \\ref to labelled rows of multi-row eqnarray environments (the XHTML template prints <tr id=...> per row)"""
    out = []
    src = ('\\documentclass{article}\n\\begin{document}\nzw1x \\ref{eq2}\n\\section{zt1x}\n'
           '\\begin{eqnarray}\na &=& b \\label{eq1}\\\\\nc &=& d \\label{eq2}\\\\\ne &=& f \\label{eq3}\n\\end{eqnarray}\n'
           'zw2x \\ref{eq3} \\ref{eq1}\n\\section{zt2x}\n\\begin{eqnarray}\ng &=& h \\label{eq4}\\\\\ni &=& j \\label{eq5}\n\\end{eqnarray}\nzw3x \\ref{eq5} \\ref{eq2}\n\\end{document}\n')
    for split in (1, -10, 0):
        cfg = dict(renderer='xhtml', split=split, filename=rd.TEMPLATES[0], bad=None, base='', tocdepth=3, tocnonfiles=False, crumbs=False, localtoc=False)
        out.append(('math-rows-xhtml', {'doc': {'raw': src}, 'cfg': cfg}))
    return out


def search_streams(rng, tier):
    return [('search', {'doc': rd.gen_doc(rng), 'cfg': rd.gen_cfg(rng)}) for _ in range(60)]


def model_input(case):
    return rd.model_input(case, 14)


def describe(case):
    return rd.describe(case)


def shrink(case):
    return rd.shrink(case)


def doc_ids(tree):
    """identifiers that belong to nodes of the document (list items excluded: the shipped list templates may or may not print them)"""
    # (mathematics is outside the template table of the Model: its identifiers are checked by the oracle only)
    return {n[4] for n, _ in rd.tree_nodes(tree) if n[4] is not None and n[1] != rd.K_ITEM and n[8] not in ('ArrayRow', 'eqnarray', 'ArrayCell')}


def observe(rec):
    if rec is None:
        return ['harness-error']
    st = rec.get('status')
    if st == 'hang':
        return ['hang']
    if st == 'harness-error':
        return ['harness-error', rec.get('msg', '')[-300:]]
    if st == 'raise':
        import props.C13 as c13
        k = c13.crash_code(rec)
        return [-2, k] if k is not None else ['raise', rec.get('exc'), rec.get('msg')]
    dids = doc_ids(rec['tree'])
    files = []
    for name in sorted(rec['files']):
        f = rec['files'][name]
        files.append([rd.S(name), sorted(rd.S(i) for i in f['ids'] + f['names'] if i in dids),
                      [[rd.S(h), rd.S(t)] for k, h, t in f['links']]])
    return [0, [[s, rd.S(u)] for s, u in rec['urls']], rec['nav'], rec['toc'], files]


def run_impl(case):
    return observe(rd.record(case))


def unS(l):
    return ''.join(chr(c) for c in l)


def compare(io, mo):
    """None when the Model's answer and the observation agree, else a short description"""
    if not (isinstance(mo, list) and mo[:1] == [0] and len(mo) == 5 and io[:1] == [0]):
        return None if io == mo else 'outcome'
    if io[1] != mo[1]:
        a, b = dict((s, unS(u)) for s, u in io[1]), dict((s, unS(u)) for s, u in mo[1])
        d = [(s, a.get(s), b.get(s)) for s in sorted(set(a) | set(b)) if a.get(s) != b.get(s)]
        return 'url: (node, implementation, Model) %s' % d[:4]
    if io[2] != mo[2]:
        return 'links (prev/next/up/breadcrumbs): implementation %s, Model %s' % (io[2][:6], mo[2][:6])
    if io[3] != mo[3]:
        return 'tableofcontents: implementation %s, Model %s' % (io[3][:4], mo[3][:4])
    mf = sorted(mo[4], key=lambda f: f[0])
    if [f[0] for f in mf] != [f[0] for f in io[4]]:
        return 'files: implementation %s, Model %s' % ([unS(f[0]) for f in io[4]], [unS(f[0]) for f in mf])
    for fi, fm in zip(io[4], mf):
        if fi[1] != sorted(fm[1]):
            return 'identifiers of document nodes in %s: implementation %s, Model %s' % (unS(fi[0]), [unS(x) for x in fi[1]], sorted(unS(x) for x in fm[1]))
        pool = [(unS(h), unS(t)) for h, t in fi[2]]
        want = [(unS(h), unS(t)) for h, t in fm[2]]
        for h, t in sorted(want, key=lambda x: (x[1] == '',)):      # links with a predicted text first
            hit = next((p for p in pool if p[0] == h and (t == '' or p[1] == t)), None)
            if hit is None:
                return 'the Model expects the link <a href=%r>%s</a> in %s; links there: %s' % (h, t, unS(fi[0]), pool[:12])
            pool.remove(hit)
    return None


def split_href(href, base):
    """-> None (external) or (file part, fragment)"""
    b = base[:-1] if base.endswith('/') else base
    if href.startswith('#'):
        return '', href[1:]
    if b and href.startswith(b + '/'):
        rel = href[len(b) + 1:]
    elif b and href == b:
        return None
    elif '://' in href or href.startswith('mailto:'):
        return None
    else:
        rel = href
    f, _, frag = rel.partition('#')
    return f, frag


def oracle(case, rec):
    eff = rd.effective_config(case)
    base = eff['base']
    files = rec['files']
    tree = rec['tree']
    by_id = {}
    for n, chain in rd.tree_nodes(tree):
        if n[4] is not None:
            by_id.setdefault(n[4], n)
    # (b) identifiers unique within each file
    deferred = None
    for name in sorted(files):
        f = files[name]
        allids = f['ids'] + f['names']
        dup = sorted(x for x in set(allids) if allids.count(x) > 1)
        if dup:
            holders = [n for n, _ in rd.tree_nodes(tree) if n[4] == dup[0]]
            if any(n[5] for n in holders) and any(not n[5] for n in holders):
                # a known finding: reported only when nothing else is wrong with the case, so that it cannot hide another violation
                deferred = deferred or ('C14:duplicate-id:label-equals-generated-id',
                        'the identifier %r occurs %d times in %s: it is the label of the %s and the identifier generated for the %s' % (
                            dup[0], allids.count(dup[0]), name, next(n[8] for n in holders if not n[5]), next(n[8] for n in holders if n[5])))
                continue
            return ('C14:duplicate-id', 'the identifier %r occurs %d times in %s' % (dup[0], allids.count(dup[0]), name))
    # (a) every link names a produced file and an identifier in it
    graph = {}
    for name in sorted(files):
        for kind, href, text in files[name]['links']:
            sp = split_href(href, base)
            if sp is None:
                continue
            fpart, frag = sp
            target = fpart or name
            if target not in files:
                return ('C14:link-to-missing-file', 'in %s: href=%r names the file %r, which was not produced (files: %s)' % (name, href, target, sorted(files)))
            graph.setdefault(name, set()).add(target)
            if frag and frag not in files[target]['ids'] and frag not in files[target]['names']:
                n = by_id.get(frag)
                what = ('the %s' % n[8]) if n is not None else 'nothing in the document'
                key = 'C14:dangling-fragment:' + (n[8] if n is not None else 'unknown')
                if n is not None and n[8] in ('ArrayRow', 'thmenv'):
                    # narrow keys for two known findings: they hold for one renderer family each
                    key += ':' + ('xhtml' if case['cfg']['renderer'] == 'xhtml' else 'html5')
                return (key, 'in %s: href=%r, but %s has no element with id %r (the identifier belongs to %s)' % (name, href, target, frag, what))
    # (c) a resolved reference shows the number of its target
    urls = dict((s, u) for s, u in rec['urls'])
    assigned = {s: fn for s, fn in rec['assign'] if fn is not None}
    by_ser = {n[0]: n for n, _ in rd.tree_nodes(tree)}
    docenv = rd.docenv_of(tree)
    if docenv is not None:
        for n, chain in rd.tree_nodes(docenv, (tree,)):
            if n[1] == rd.K_REF and n[10] and n[9]:
                t = by_ser[n[9][0]]
                own = next((a[0] for a in chain if a[0] in assigned), None)
                if own is None or t[0] not in urls:
                    continue
                hidden = any(a[1] in (rd.K_HIDDEN,) for a in chain)
                if hidden:
                    continue
                want = (urls[t[0]], t[7] or '')
                got = [(h, x) for k, h, x in files[assigned[own]]['links']]
                if want not in got:
                    return ('C14:ref-text', 'the \\ref to %r (number %s, url %s) in %s is rendered as %s' % (
                        t[4], t[7], want[0], assigned[own], [g for g in got if g[0] == want[0]] or 'no link to that url'))
    # (d) every file reachable from the start page (themes with navigation / a table of contents)
    # ("with a table of contents": toc-depth >= 1; without one the XHTML layout may lose a next-link, see notes/C14/REPORT.md)
    if case['cfg']['renderer'] not in rd.NO_NAVIGATION and eff['tocdepth'] >= 1 and docenv is not None and docenv[0] in assigned:
        start = assigned[docenv[0]]
        seen, todo = {start}, [start]
        while todo:
            x = todo.pop()
            for y in graph.get(x, ()):
                if y not in seen:
                    seen.add(y)
                    todo.append(y)
        if seen != set(files):
            return ('C14:unreachable-file', 'following links from %s does not reach %s' % (start, sorted(set(files) - seen)))
    return deferred


def judge(case, io, mo):
    mo, flag = rd.unwrap(mo)
    if flag is not None and io[:1] == [0]:
        PREMISES[flag] = PREMISES.get(flag, 0) + 1
    rec = rd.record(case, render_if_missing=False)
    if io[:1] in (['hang'], ['harness-error']) or rec is None:
        return dict(violation=False, key='C14:no-render', what='no render record: %s' % (io,))
    if io[:1] == [-2] or io[:1] == ['raise']:
        if mo == io:
            return None                      # a render that raises is property C13's (and C15's) business
        return dict(violation=False, key='C14:render-raises:%s' % rec.get('exc'), expected=mo, what='Renderer.render raises %s: %s' % (rec.get('exc'), rec.get('msg')))
    v = oracle(case, rec)
    if v is not None:
        return dict(violation=True, key=v[0], expected='every href names a produced file and an identifier in it; identifiers unique per file', what=v[1])
    if mo == [-4]:
        return dict(violation=False, key='C14:template-unmodelled', what='the filename template is outside the modelled grammar')
    d = compare(io, mo)
    if d is None:
        return None
    return dict(violation=False, key='C14:model-mismatch:' + d.split(':')[0].split(' ')[0], expected=None,
                what='the output satisfies the property on this input but differs from the Model: ' + d)


def nontrivial(case, io):
    if not (isinstance(io, list) and io[:1] == [0] and len(io[4]) >= 2):
        return False
    names = {unS(f[0]) for f in io[4]}
    for f in io[4]:
        me = unS(f[0])
        for h, t in f[2]:
            h = unS(h)
            if '#' in h and not h.startswith('#') and h.split('#')[0].split('/')[-1] in names - {me}:
                return True
    return False


def tags(case, io):
    c = case['cfg']
    t = ['renderer=' + c['renderer'], 'tocdepth=%s' % c.get('tocdepth'), 'base=' + ('set' if c.get('base') else 'empty')]
    if c.get('tocnonfiles'):
        t.append('toc-non-files')
    if io[:1] == [0]:
        n = len(io[4])
        t.append('files=%s' % (n if n < 4 else '4-7' if n < 8 else '8+'))
        nl = sum(len(f[2]) for f in io[4])
        t.append('links=%s' % ('0' if nl == 0 else '1-20' if nl <= 20 else '21-100' if nl <= 100 else '100+'))
    else:
        t.append('impl-raises' if io[:1] == [-2] else 'impl-other')
    return t
