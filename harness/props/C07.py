"""C07 -- Parsing loses, duplicates or reorders no text and yields a well-formed tree.

Tie (DESIGN section 8, C07): the item stream given to the Model is taken from the implementation itself.
For every generated document the worker
  (a) iterates the TeX object (`for item in tex`: expansion WITHOUT digestion, public API) in a fresh TeXDocument and records,
      for every yielded item, exactly the attributes the digest methods look at (level, contextDepth, macroMode, blockType,
      forcePars, isElementContentWhitespace, which digest()/normalize() function its class resolves to, the isinstance tests
      used by the digest methods, context.isMathMode right after the item was produced, argument words, existing children);
  (b) runs TeX.parse() on the same source in another fresh TeXDocument and canonicalises the tree.
The extracted Model (Model/Digest.v: parse_doc) digests the stream of (a); its forest must equal the tree of (b), node for node and
text node for text node (after Node.normalize and the character substitutions).  So the digestion Model is validated independently of
expansion.  End to end, on the tree of (b): marker words in depth-first order (arguments before children) against the source order,
parentNode chains, levels of the children of sectioning nodes, paragraphs in paragraphs, and the substitution sites (quotes, dashes)
in running text / verbatim / mathematics.  The Spec functions extracted from Coq (words o flatten, wf_sections_b) are evaluated on the
implementation's own tree as well.
"""
import json
import os
import random
import re

ID = 'C07'
PINS = [('plasTeX/TeX.py', 'bufferediter'), ('plasTeX/TeX.py', 'TeX.parse'), ('plasTeX/TeX.py', 'TeX.__iter__'),
        ('plasTeX/__init__.py', 'Macro.digest'), ('plasTeX/__init__.py', 'Macro.digestUntil'), ('plasTeX/__init__.py', 'Macro.paragraphs'),
        ('plasTeX/__init__.py', 'Environment.digest'), ('plasTeX/__init__.py', 'NoCharSubEnvironment.normalize'),
        ('plasTeX/Base/LaTeX/Sectioning.py', 'SectionUtils.digest'), ('plasTeX/Base/TeX/Text.py', 'bgroup.digest'),
        ('plasTeX/Base/TeX/Text.py', 'egroup.digest'), ('plasTeX/Base/TeX/Primitives.py', 'par.digest'),
        ('plasTeX/Base/LaTeX/Lists.py', 'List.digest'), ('plasTeX/Base/LaTeX/Lists.py', 'List.item.digest'),
        ('plasTeX/Base/LaTeX/Arrays.py', 'Array.digest'), ('plasTeX/Base/LaTeX/Arrays.py', 'Array.applyBorders'),
        ('plasTeX/Base/LaTeX/Arrays.py', 'Array.ArrayRow.digest'), ('plasTeX/Base/LaTeX/Arrays.py', 'Array.ArrayRow.isBorderOnly'),
        ('plasTeX/Base/LaTeX/Arrays.py', 'Array.ArrayCell.digest'), ('plasTeX/Base/LaTeX/Arrays.py', 'Array.ArrayCell.isBorderOnly'),
        ('plasTeX/Base/LaTeX/Verbatim.py', 'verb.digest'), ('plasTeX/Base/LaTeX/Verbatim.py', 'verb.normalize'),
        ('plasTeX/Base/LaTeX/Floats.py', 'Float.digest'), ('plasTeX/DOM/__init__.py', 'Node.normalize'),
        ('plasTeX/DOM/__init__.py', 'Node.appendText'), ('plasTeX/DOM/__init__.py', 'Node.append'),
        ('plasTeX/DOM/__init__.py', 'Text.isElementContentWhitespace')]
RULE = ('stream "doc": whole documents of the property\'s grammar (article/book, four sectioning levels starred or not with optional toc '
        'argument, paragraphs, font commands and declarations, groups, nested itemize/enumerate/description, tabular (rules, empty cells, '
        'nested), quote/center/quotation/flushleft, footnotes, \\mbox/\\fbox, inline and display mathematics, \\verb and verbatim, labels '
        'and references, table floats with captions, nesting depth <= 4); every text leaf is a unique marker word W[a-z]+, and '
        'substitution sites (``W\'\', `W\', W--W, W---W, W\'W) are placed in running text, in verbatim material and in mathematics. '
        'stream "small": every sequence of at most 3 (quick) / 4 (thorough) atoms of three alphabets (text, blank line, braces, \\bf, '
        'section/subsection, itemize/item, quote | tabular, &, \\\\, \\hline, $, \\[ \\], \\verb, \\footnote, \\mbox | text, blank line, '
        'section, nested \\begin{document}, \\end{document}: up to 4 / 5 atoms; the 5-atom sequence that reaches the break of Macro.paragraphs is in the corpus) inside the document '
        'body, ill-nested ones included (exhaustive). stream "malformed": random atom sequences over a larger alphabet and generated '
        'documents with a line deleted. A case is non-trivial when the parsed tree has a node at depth >= 3 below the document '
        'and the stream contains at least one item that a digest method absorbs into another node.')
TRUSTED = ['modelled, not verified: expansion (the item stream is recorded from the implementation, one TeXDocument per run); the contents of '
           'argument fragments (built by TeX.parse in a sub-process: they enter the Model as opaque word lists / as existing children); '
           'the class of the paragraph node created by Macro.paragraphs (createElement(parname): level PAR_LEVEL, \\par-like); '
           'str.strip()/str.replace of Python (Model: is_space, replace); Array.digest beyond the removal of border-only rows '
           '(applyBorders/linkCells only write styles and attributes); Float.digest beyond Environment.digest (caption attachment)',
           'MathShift.inEnv and List.depth are class-level cells (C17 known finding): the worker resets them before every run']
ASSUMPTIONS = ['well-formed LaTeX of the property grammar (NF-doc): every environment and group closed, sectioning commands only at the top '
               'level of the document body, \\verb / verbatim not inside macro arguments, no footnotes in titles',
               'parent chains: nodes of an argument fragment may name the fragment or the fragment\'s owner as parentNode '
               '(Node.append makes fragments transparent by design)']
CASE_TIMEOUT = 30

MARK = re.compile(r'W[a-z]+')

SUBS = [('``', '\u201c'), ("''", '\u201d'), ('"`', '\u201e'), ('"\'', '\u201c'), ('`', '\u2018'), ("'", '\u2019'),
        ('---', '\u2014'), ('--', '\u2013')]


def spec_subst(s):
    """what the property demands at a substitution site in running text (TeX's ligatures on these strings)"""
    for a, b in SUBS:
        s = s.replace(a, b)
    return s


# ------------------------------------------------------------------------------------------------
# generator: the property's document grammar

class G:
    def __init__(self, rng, cls=None, maxdepth=4):
        self.rng = rng
        self.n = 0
        self.sites = []      # [raw, ctx]   ctx: 'text' | 'verb' | 'math'
        self.labels = 0
        self.cls = cls or rng.choice(['article', 'book'])
        self.maxdepth = maxdepth
        self.feat = set()

    def w(self):
        n = self.n
        self.n += 1
        s = ''
        while True:
            s = 'abcdefghijklmnopqrstuvwxyz'[n % 26] + s
            n = n // 26 - 1
            if n < 0:
                break
        return 'W' + s

    def site(self, ctx):
        r = self.rng.random()
        if r < 0.25:
            raw = '``' + self.w() + "''"
        elif r < 0.4:
            raw = '`' + self.w() + "'"
        elif r < 0.65:
            a = self.w()
            raw = a + '--' + self.w()
        elif r < 0.85:
            a = self.w()
            raw = a + '---' + self.w()
        else:
            a = self.w()
            raw = a + "'" + self.w()
        self.sites.append([raw, ctx])
        self.feat.add('charsub-' + ctx)
        return raw

    def math_body(self, d):
        parts = []
        for _ in range(self.rng.randint(1, 3)):
            r = self.rng.random()
            if r < 0.3:
                parts.append(self.w())
            elif r < 0.5:
                parts.append(self.site('math'))
            elif r < 0.65:
                a = self.w()
                parts.append(a + '^{' + self.w() + '}')
            elif r < 0.8:
                parts.append('{' + self.site('math') + '}')
            elif r < 0.9:
                parts.append('\\mbox{' + self.w() + '}')
            else:
                a = self.w()
                parts.append(a + '_{' + self.w() + '}+' + self.w())
        return ' '.join(parts)

    def inline(self, d, arg=False, title=False):
        """one inline construct; arg: inside a macro argument (no \\verb); title: inside a title (no footnote, label)"""
        r = self.rng.random()
        deep = d >= self.maxdepth
        if r < 0.38 or deep and r < 0.8:
            return self.w()
        if r < 0.48 or deep:
            return self.site('text')
        if r < 0.56:
            self.feat.add('fontcmd')
            c = self.rng.choice(['textbf', 'emph', 'textit', 'texttt', 'textsc', 'underline'])
            return '\\%s{%s}' % (c, self.inlines(d + 1, arg=True, title=title))
        if r < 0.63:
            self.feat.add('fontdecl')
            c = self.rng.choice(['bf', 'it', 'em', 'bfseries', 'itshape', 'small', 'large', 'sffamily'])
            return '{\\%s %s}' % (c, self.inlines(d + 1, arg=arg, title=title))
        if r < 0.67:
            self.feat.add('group')
            return '{%s}' % self.inlines(d + 1, arg=arg, title=title)
        if r < 0.73:
            self.feat.add('math')
            return '$%s$' % self.math_body(d + 1)
        if r < 0.76:
            self.feat.add('math')
            return '\\(%s\\)' % self.math_body(d + 1)
        if r < 0.81 and not title:
            self.feat.add('footnote')
            if self.rng.random() < 0.2:
                a = self.inlines(d + 1, arg=True)
                return '\\footnote{%s\n\n%s}' % (a, self.inlines(d + 1, arg=True))
            return '\\footnote{%s}' % self.inlines(d + 1, arg=True)
        if r < 0.86:
            self.feat.add('box')
            return '\\%s{%s}' % (self.rng.choice(['mbox', 'fbox']), self.inlines(d + 1, arg=True, title=title))
        if r < 0.91 and not arg and not title:
            self.feat.add('verb')
            delim = self.rng.choice('|!+/')
            star = '*' if self.rng.random() < 0.2 else ''
            body = self.w() if self.rng.random() < 0.5 else self.site('verb')
            return '\\verb%s%s%s%s' % (star, delim, body, delim)
        if r < 0.95 and not title:
            self.labels += 1
            self.feat.add('label')
            return '\\label{lab%d}' % self.labels
        if not title:
            self.feat.add('ref')
            return '\\ref{lab%d}' % self.rng.randint(1, max(1, self.labels + 1))
        return self.w()

    def inlines(self, d, arg=False, title=False, lo=1, hi=3):
        return ' '.join(self.inline(d, arg=arg, title=title) for _ in range(self.rng.randint(lo, hi)))

    def para(self, d):
        self.feat.add('par')
        return self.inlines(d, lo=1, hi=5) + '\n\n'

    def block(self, d):
        r = self.rng.random()
        if d >= self.maxdepth or r < 0.45:
            return self.para(d)
        if r < 0.58:
            return self.list(d)
        if r < 0.65:
            return self.description(d)
        if r < 0.75:
            return self.tabular(d)
        if r < 0.83:
            env = self.rng.choice(['quote', 'center', 'quotation', 'flushleft'])
            self.feat.add('quote/center')
            return '\\begin{%s}\n%s\\end{%s}\n' % (env, self.blocks(d + 1, 1, 2), env)
        if r < 0.89:
            self.feat.add('displaymath')
            k = self.rng.random()
            if k < 0.4:
                return '\\[%s\\]\n' % self.math_body(d + 1)
            if k < 0.7:
                return '$$%s$$\n' % self.math_body(d + 1)
            return '\\begin{equation}%s\\end{equation}\n' % self.math_body(d + 1)
        if r < 0.95:
            self.feat.add('verbatim')
            lines = [self.w() if self.rng.random() < 0.5 else self.site('verb') for _ in range(self.rng.randint(1, 2))]
            return '\\begin{verbatim}\n%s\n\\end{verbatim}\n' % '\n'.join(lines)
        self.feat.add('float')
        if self.rng.random() < 0.25:
            f = self.item_formula(d + 1)
            cap = '\\caption{%s}' % self.inlines(d + 1, arg=True, title=True)
            return '\\begin{table}%s%s\n\\end{table}\n' % (f, cap)
        if self.rng.random() < 0.5:
            cap = '\\caption{%s}' % self.inlines(d + 1, arg=True, title=True)
            return '\\begin{table}\n%s\n%s\\end{table}\n' % (cap, self.tabular(d + 1))
        tab = self.tabular(d + 1)
        cap = '\\caption{%s}' % self.inlines(d + 1, arg=True, title=True)
        return '\\begin{table}\n%s%s\n\\end{table}\n' % (tab, cap)

    def blocks(self, d, lo, hi):
        return ''.join(self.block(d) for _ in range(self.rng.randint(lo, hi)))

    def list(self, d):
        env = self.rng.choice(['itemize', 'enumerate'])
        self.feat.add('list' if d == 0 else 'nested-list')
        out = ['\\begin{%s}\n' % env]
        for _ in range(self.rng.randint(1, 3)):
            out.append('\\item ')
            if self.rng.random() < 0.2:
                out.append(self.item_formula(d + 1))
            if self.rng.random() < 0.7:
                out.append(self.inlines(d + 1) + '\n')
                if self.rng.random() < 0.3:
                    out.append('\n' + self.inlines(d + 1) + '\n')
            if d + 1 < self.maxdepth and self.rng.random() < 0.35:
                out.append(self.rng.choice([self.list, self.description, self.tabular])(d + 1))
                if self.rng.random() < 0.4:
                    out.append(self.inlines(d + 1) + '\n')
        out.append('\\end{%s}\n' % env)
        return ''.join(out)

    def item_formula(self, d):
        """a \\[ ... \\] (or \\( ... \\)) formula as the very first thing after a command whose next argument is optional
        (\\item, \\begin{table}): the control symbols \\[ \\] are not the brackets of an optional argument"""
        self.feat.add('formula-after-optarg')
        body = self.math_body(d) + ' ' + self.site('math')
        o, c = ('\\[', '\\]') if self.rng.random() < 0.75 else ('\\(', '\\)')
        return self.rng.choice(['', ' ', '\n']) + o + body + c + '\n'

    def description(self, d):
        self.feat.add('description')
        out = ['\\begin{description}\n']
        for _ in range(self.rng.randint(1, 3)):
            if self.rng.random() < 0.15:
                f = self.item_formula(d + 1)
                out.append('\\item%s%s\n' % (f, self.inlines(d + 1)))
            else:
                term = self.inlines(d + 1, arg=True, title=True, hi=2)
                out.append('\\item[%s] %s\n' % (term, self.inlines(d + 1)))
            if d + 1 < self.maxdepth and self.rng.random() < 0.2:
                out.append(self.list(d + 1))
        out.append('\\end{description}\n')
        return ''.join(out)

    def tabular(self, d):
        self.feat.add('tabular')
        cols = self.rng.randint(1, 3)
        rows = self.rng.randint(1, 3)
        spec = ''.join(self.rng.choice('lcr') for _ in range(cols))
        if self.rng.random() < 0.3:
            spec = '|' + '|'.join(spec) + '|'
        out = ['\\begin{tabular}{%s}\n' % spec]
        hl = self.rng.random() < 0.3
        if hl:
            out.append('\\hline\n')
        for r in range(rows):
            cells = []
            for c in range(cols):
                k = self.rng.random()
                if k < 0.1:
                    cells.append('')
                elif k < 0.2 and d + 1 < self.maxdepth:
                    cells.append(self.rng.choice([self.list, self.tabular])(d + 1))
                else:
                    cells.append(self.inlines(d + 1, hi=2))
            last = r == rows - 1
            out.append(' & '.join(cells) + ('' if last and self.rng.random() < 0.5 else ' \\\\') + ('\\hline' if hl else '') + '\n')
        out.append('\\end{tabular}\n')
        return ''.join(out)

    def levels(self):
        if self.cls == 'book':
            return ['chapter', 'section', 'subsection', 'subsubsection']
        return ['section', 'subsection', 'subsubsection', 'paragraph']

    def section(self, li):
        names = self.levels()
        self.feat.add('sec-level-%d' % li)
        star = '*' if self.rng.random() < 0.25 else ''
        if star:
            self.feat.add('starred')
        toc = '[%s]' % self.w() if not star and self.rng.random() < 0.15 else ''
        out = ['\\%s%s%s{%s}\n' % (names[li], star, toc, self.inlines(1, arg=True, title=True, hi=2))]
        out.append(self.blocks(0, 0, 2))
        if li + 1 < len(names):
            for _ in range(self.rng.choice([0, 0, 1, 1, 2])):
                nxt = li + 1 if self.rng.random() < 0.85 or li + 2 >= len(names) else li + 2
                out.append(self.section(nxt))
        return ''.join(out)

    def document(self):
        out = ['\\documentclass{%s}\n\\begin{document}\n' % self.cls]
        out.append(self.blocks(0, 0, 2))
        for _ in range(self.rng.randint(0, 3)):
            out.append(self.section(0 if self.rng.random() < 0.85 else 1))
        out.append('\\end{document}\n')
        return ''.join(out)


def gen_doc(rng):
    g = G(rng)
    src = g.document()
    return dict(kind='doc', src=src, sites=g.sites, feat=sorted(g.feat))


# --- small scope: atoms inside the document body ----------------------------------------------------

ALPHA_A = ['W ', '\n\n', '{', '}', '\\bf ', '\\section{W}', '\\subsection{W}', '\\begin{itemize}', '\\item ', '\\end{itemize}',
           '\\begin{quote}', '\\end{quote}', '\\[W--W\\]']
ALPHA_B = ['W ', '\\begin{tabular}{ll}', '&', '\\\\', '\\end{tabular}', '\\hline ', '$', '\\verb|W|', '\\footnote{W}', '\\mbox{W}']
# a nested document environment is the only modelled item below PAR_LEVEL that is not digested by SectionUtils.digest: closed, it
# leaves something behind a lower-level item in a child list, which is what the "break" of Macro.paragraphs is about
# (theindex / \\printindex have a digest of their own, IndexUtils.digest, which the Model does not have)
ALPHA_C = ['W ', '\n\n', '\\section{W}', '\\begin{document}', '\\end{document}']
ALPHA_M = ALPHA_A + ALPHA_B[1:] + ['\\[', '\\]', '\\par ', '\\begingroup ', '\\endgroup ', '\\end{document}', '\\textbf{W}', '\\item[W] ',
                                   '\\begin{description}', '\\end{description}', ' ', '\\begin{verbatim}\nW--W\n\\end{verbatim}', '\\begin{table}',
                                   '\\end{table}', '\\caption{W}', '\\multicolumn{2}{l}{W}', '\\begin{enumerate}', '\\end{enumerate}',
                                   '\\chapter{W}', '\\paragraph{W}', '\\begin{equation}', '\\end{equation}', '\\(', '\\)', '$$', '\\small ',
                                   '\\mbox{$W$}', '``', "''", '--', '\\label{a}', '\\begin{center}', '\\end{center}', '\\begin{figure}',
                                   '\\end{figure}', '\\setcounter{enumi}{3}', '\\subsubsection*{W}', '\\emph{W \\textit{W}}', '\\begin{document}']


def atoms_source(atoms, close=True):
    n = [0]

    def fresh(m):
        k = n[0]
        n[0] += 1
        s = ''
        while True:
            s = 'abcdefghijklmnopqrstuvwxyz'[k % 26] + s
            k = k // 26 - 1
            if k < 0:
                break
        return 'W' + s
    body = re.sub(r'W', fresh, ''.join(atoms))
    return '\\documentclass{article}\\begin{document}' + body + ('\\end{document}' if close else '')


def atoms_wellformed(atoms):
    """NF-doc for an atom sequence: everything closed, sections at top level only, \\item directly in a list,
    & and \\\\ and \\hline directly in a tabular, $ balanced and not spanning anything else"""
    stack = []
    for a in atoms:
        a = a.strip(' ') if a not in (' ',) else a
        if a in ('W', '', ' ', '\\verb|W|', '\\footnote{W}', '\\mbox{W}', '\\[W--W\\]'):
            if stack and stack[-1] in ('itemize0',):
                return False        # text in a list before the first \item
            continue
        if a == '\n\n':
            if stack and stack[-1] in ('$', 'itemize0'):
                return False
            continue
        if a == '{':
            if stack and stack[-1] == 'itemize0':
                return False
            stack.append('{')
        elif a == '}':
            if not stack or stack[-1] not in ('{', '{bf'):
                return False
            stack.pop()
        elif a == '\\bf':
            if not stack or stack[-1] != '{':
                return False        # a declaration outside a group runs to the end of the enclosing construct: keep it grouped
            stack[-1] = '{bf'
        elif a in ('\\section{W}', '\\subsection{W}'):
            if stack:
                return False
        elif a in ('\\begin{itemize}', '\\begin{quote}', '\\begin{tabular}{ll}'):
            if stack and stack[-1] in ('$', 'itemize0'):
                return False
            stack.append({'\\begin{itemize}': 'itemize0', '\\begin{quote}': 'quote', '\\begin{tabular}{ll}': 'tabular'}[a])
        elif a == '\\item':
            if not stack or stack[-1] not in ('itemize0', 'itemize'):
                return False
            stack[-1] = 'itemize'
        elif a in ('\\end{itemize}', '\\end{quote}', '\\end{tabular}'):
            want = {'\\end{itemize}': ('itemize',), '\\end{quote}': ('quote',), '\\end{tabular}': ('tabular',)}[a]
            if not stack or stack[-1] not in want:
                return False
            stack.pop()
        elif a in ('&', '\\\\', '\\hline'):
            if not stack or stack[-1] != 'tabular':
                return False
        elif a == '$':
            if stack and stack[-1] == '$':
                stack.pop()
            else:
                if stack and stack[-1] == 'itemize0':
                    return False
                stack.append('$')
        else:
            return False
    return not stack


def enum_atoms(alpha, maxlen):
    import itertools
    for n in range(1, maxlen + 1):
        for t in itertools.product(range(len(alpha)), repeat=n):
            yield [alpha[i] for i in t]


def streams(rng, tier, boost):
    out = []
    quick = tier == 'quick'
    maxlen = 3 if quick else 4
    # a changed pin (boost) quadruples the generated streams and makes the nested-document alphabet one atom longer; the two big
    # alphabets stay at their size (one atom more is 13x the cases: the quick tier would take > 10 min)
    for alpha in (ALPHA_A, ALPHA_B, ALPHA_C):
        for atoms in enum_atoms(alpha, (4 if quick and boost == 1 else 5) if alpha is ALPHA_C else maxlen):
            out.append(('small', dict(kind='atoms', atoms=atoms, close=True)))
    ndoc = (600 if quick else 5000) * boost
    for _ in range(ndoc):
        out.append(('doc', gen_doc(rng)))
    nmal = (900 if quick else 6000) * boost
    for i in range(nmal):
        if i % 4 == 3:
            d = gen_doc(rng)
            lines = d['src'].split('\n')
            k = rng.randrange(2, max(3, len(lines) - 1))
            del lines[k]
            out.append(('malformed', dict(kind='raw', src='\n'.join(lines))))
        else:
            n = rng.randint(1, 16)
            out.append(('malformed', dict(kind='atoms', atoms=[rng.choice(ALPHA_M) for _ in range(n)], close=rng.random() < 0.7, mal=1)))
    return out


def search_streams(rng, tier):
    return [('search', gen_doc(rng)) for _ in range(1500)]


def source(case):
    if case['kind'] == 'atoms':
        return atoms_source(case['atoms'], case.get('close', True))
    return case['src']


def is_structured(case):
    """is the property's statement applicable (a well-formed document of the grammar)?"""
    if case['kind'] == 'doc':
        return True
    if case['kind'] == 'atoms' and not case.get('mal') and case.get('close', True):
        return atoms_wellformed(case['atoms'])
    return False


def describe(case):
    return source(case)


# ------------------------------------------------------------------------------------------------
# implementation side

K_TEXT, K_LEAF, K_ENV, K_SEC, K_BGROUP, K_LIST, K_ITEM, K_ROW, K_CELL, K_VERB, K_ARRAY, K_UNKNOWN = range(12)

_IMPL = {}


def worker_init():
    import texrun
    texrun.quiet()


def _impl():
    """references to the implementation's own classes and functions (resolved once per worker)"""
    if _IMPL:
        return _IMPL
    from plasTeX import Macro, Environment, NoCharSubEnvironment
    from plasTeX.DOM import Node
    from plasTeX.Base.LaTeX.Sectioning import SectionUtils
    from plasTeX.Base.TeX.Text import bgroup, egroup, endgroup
    from plasTeX.Base.TeX.Primitives import par as parcls, MathShift
    from plasTeX.Base.LaTeX.Lists import List
    from plasTeX.Base.LaTeX.Arrays import Array
    from plasTeX.Base.LaTeX.Verbatim import verb
    from plasTeX.Base.LaTeX.Floats import Float

    def fn(cls, name):
        f = cls.__dict__[name] if name in cls.__dict__ else getattr(cls, name)
        return getattr(f, '__func__', f)
    _IMPL.update(Macro=Macro, Node=Node, egroup=egroup, endgroup=endgroup, List=List, Array=Array, MathShift=MathShift, parcls=parcls,
                 digest_table=[(fn(Macro, 'digest'), K_LEAF), (fn(Environment, 'digest'), K_ENV), (fn(SectionUtils, 'digest'), K_SEC),
                               (fn(bgroup, 'digest'), K_BGROUP), (fn(egroup, 'digest'), K_LEAF), (fn(parcls, 'digest'), K_LEAF),
                               (fn(List, 'digest'), K_LIST), (fn(List.item, 'digest'), K_ITEM), (fn(Array, 'digest'), K_ARRAY),
                               (fn(Array.ArrayRow, 'digest'), K_ROW), (fn(Array.ArrayCell, 'digest'), K_CELL), (fn(verb, 'digest'), K_VERB),
                               (fn(Float, 'digest'), K_ENV), (fn(Array.multicolumn, 'digest'), K_LEAF)],
                 norm_plain=fn(Node, 'normalize'), norm_nosub=(fn(NoCharSubEnvironment, 'normalize'), fn(verb, 'normalize')),
                 par_ws=parcls.__dict__['isElementContentWhitespace'])
    return _IMPL


def _cls_attr(cls, name):
    for c in cls.__mro__:
        if name in c.__dict__:
            return c.__dict__[name]
    return None


def _digest_kind(it):
    d = getattr(type(it), 'digest')
    d = getattr(d, '__func__', d)
    for f, k in _impl()['digest_table']:
        if d is f:
            return k
    return K_UNKNOWN


def _nosub_kind(n):
    f = getattr(type(n), 'normalize')
    f = getattr(f, '__func__', f)
    im = _impl()
    if f is im['norm_plain']:
        return 0
    if f in im['norm_nosub']:
        return 1
    return 2


def _wsk(n):
    a = _cls_attr(type(n), 'isElementContentWhitespace')
    if a is False:
        return 0
    if a is _impl()['par_ws']:
        return 1
    return 3


class Names:
    def __init__(self):
        self.t = {}

    def __call__(self, s):
        s = ''.join(str(s))      # nodeName may be a Token (a str subclass that does not pickle)
        return self.t.setdefault(s, len(self.t))


def _arg_text(v, out):
    Node = _impl()['Node']
    if v is None:
        return
    if isinstance(v, Node):
        out.append('\0')
        _frag_text(v, out)
        out.append('\0')
    elif isinstance(v, (list, tuple)):
        for x in v:
            _arg_text(x, out)
    elif isinstance(v, dict):
        for x in v.values():
            _arg_text(x, out)
    elif isinstance(v, str):
        out.append('\0' + v + '\0')


def _frag_text(n, out):
    """depth-first text of a node: attributes (except self, which IS the child list) before children"""
    Node = _impl()['Node']
    if n.nodeType == Node.TEXT_NODE:
        out.append(str(n))
        return
    attrs = getattr(n, 'attributes', None)
    if attrs:
        for k, v in attrs.items():
            if k != 'self':
                _arg_text(v, out)
    for c in n.childNodes:
        _frag_text(c, out)
    out.append('\0')


def _arg_words(it):
    out = []
    attrs = getattr(it, 'attributes', None)
    if attrs:
        for k, v in attrs.items():
            if k != 'self':
                _arg_text(v, out)
    return [[ord(c) for c in w] for w in MARK.findall(''.join(out))]


def _lvl(x):
    """DOCUMENT_LEVEL = -sys.maxsize does not fit the driver's native integers: clamp (DigestSpec.DOC_LEVEL)"""
    return max(int(x), -1000000)


def _wire_tree(n, names, unknown):
    """a node that already hangs in a tree (existing children of a stream item, or the parsed tree), in the Model's input format"""
    im = _impl()
    Node = im['Node']
    if n.nodeType == Node.TEXT_NODE:
        return [1, 0, 1 if n.isElementContentWhitespace else 0, -1, 0, [ord(c) for c in str(n)]]
    ns, wk = _nosub_kind(n), _wsk(n)
    if ns == 2 or wk == 3:
        unknown.append(n.nodeName)
    Array = im['Array']
    fs = [K_LEAF, names(n.nodeName), _lvl(n.level), 0, 0, 1 if n.blockType else 0, 0, 1 if wk == 1 else 0, 1 if ns == 1 else 0, -1,
          0, 0, 0, 0, 0, int(isinstance(n, Array.BorderCommand)), int(isinstance(n, Array.ArrayRow)), 0]
    return [0, fs, _arg_words(n), [_wire_tree(c, names, unknown) for c in n.childNodes]]


def _wire_item(it, ctx, names, types, unknown):
    im = _impl()
    Node = im['Node']
    mm = 1 if ctx.isMathMode else 0
    if it.nodeType != Node.ELEMENT_NODE:
        cat = getattr(it, 'catcode', None)
        return [1, it.contextDepth, 1 if it.isElementContentWhitespace else 0, int(cat) if cat is not None else -1, mm, [ord(c) for c in str(it)]]
    k, ns, wk = _digest_kind(it), _nosub_kind(it), _wsk(it)
    if k == K_UNKNOWN or ns == 2 or wk == 3:
        unknown.append(it.nodeName)
    Array, List = im['Array'], im['List']
    fs = [k, names(it.nodeName), _lvl(it.level), it.contextDepth, it.macroMode, 1 if it.blockType else 0, 1 if it.forcePars else 0,
          1 if wk == 1 else 0, 1 if ns == 1 else 0, types(type(it)),
          int(isinstance(it, (im['egroup'], im['endgroup']))), int(isinstance(it, List.item)), int(isinstance(it, Array.CellDelimiter)),
          int(isinstance(it, Array.EndRow)), int(it.nodeName == 'setcounter'), int(isinstance(it, Array.BorderCommand)),
          int(isinstance(it, Array.ArrayRow)), mm]
    return [0, fs, _arg_words(it), [_wire_tree(c, names, unknown) for c in it.childNodes]]


def _canon(w):
    """Model input format -> comparison format (what the Model prints): [1, chars] | [0, name, args, children]"""
    if w[0] == 1:
        return [1, w[5]]
    return [0, w[1][1], w[2], [_canon(c) for c in w[3]]]


def _reset_class_cells():
    im = _impl()
    del im['MathShift'].inEnv[:]
    im['List'].depth = 0


def _new_tex(src):
    from plasTeX.TeX import TeX, TeXDocument
    _reset_class_cells()
    doc = TeXDocument()
    tex = TeX(doc)
    try:
        tex.disableLogging()
    except Exception:
        pass
    tex.input(src)
    return doc, tex


def _walk(doc):
    """depth-first: attributes (except self) before children; yields (node, container)"""
    Node = _impl()['Node']
    out = []

    def rec(n, cont):
        out.append((n, cont))
        if n.nodeType == Node.TEXT_NODE:
            return
        attrs = getattr(n, 'attributes', None)
        if attrs:
            for k, v in attrs.items():
                if k == 'self':
                    continue
                vals = v if isinstance(v, (list, tuple)) else [v]
                for x in vals:
                    if isinstance(x, Node) and x.nodeType != Node.TEXT_NODE:
                        rec(x, n)
        for c in n.childNodes:
            rec(c, n)
    rec(doc, None)
    return out


def _oracle(doc, case, src):
    """the property's own clauses, evaluated on the implementation's tree"""
    Node = _impl()['Node']
    errs = []
    nodes = _walk(doc)
    txt = []
    for n, cont in nodes:
        if n.nodeType == Node.TEXT_NODE:
            txt.append(str(n))
        else:
            a = getattr(n, 'attributes', None)
            if a:
                for k, v in a.items():
                    if isinstance(v, str) and not isinstance(v, Node):
                        txt.append('\0' + v + '\0')
            txt.append('\0')
    full = ''.join(txt)
    got = MARK.findall(full)
    want = MARK.findall(src)
    if got != want:
        k = 0
        while k < min(len(got), len(want)) and got[k] == want[k]:
            k += 1
        errs.append(['words', k, got[k:k + 4], want[k:k + 4]])
    sites = case.get('sites')
    if sites is None:     # atom sequences: the display-formula atom carries a site
        sites = [[m, 'math'] for m in re.findall(r'\\\[(W[a-z]+--W[a-z]+)\\\]', src)]
    for raw, ctx in sites:
        if raw not in src:
            continue
        exp = spec_subst(raw) if ctx == 'text' else raw
        w0 = MARK.findall(raw)[0]
        i = full.find(w0)
        lead = exp.index(w0)
        seg = full[i - lead: i - lead + len(exp)] if i >= lead else None
        if seg != exp:
            errs.append(['charsub-' + ctx, raw, exp, seg])
    seen = set()
    FRAG = Node.DOCUMENT_FRAGMENT_NODE
    for n, cont in nodes:
        if id(n) in seen:
            errs.append(['reached-twice', str(n.nodeName)])
            continue
        seen.add(id(n))
        p = n.parentNode
        if cont is not None and p is not cont and not (cont.nodeType == FRAG and p is cont.parentNode) \
                and not (p is not None and p.nodeType == FRAG and p.parentNode is cont):
            errs.append(['parent', str(n.nodeName), str(getattr(p, 'nodeName', None)), str(cont.nodeName)])
        # the chain leads back to the document
        q, steps = n, 0
        while q is not None and q is not doc and steps < 10000:
            q = q.parentNode
            steps += 1
        if q is not doc:
            errs.append(['chain', str(n.nodeName)])
    for n, cont in nodes:
        if n.nodeType == Node.ELEMENT_NODE and Node.DOCUMENT_LEVEL < n.level < Node.ENDSECTIONS_LEVEL:
            for c in n.childNodes:
                if c.level == Node.PAR_LEVEL:
                    continue
                if n.level < c.level < Node.ENDSECTIONS_LEVEL:
                    continue
                errs.append(['section-child', str(n.nodeName), str(c.nodeName), c.level])
        if n.nodeType == Node.ELEMENT_NODE and n.level == Node.PAR_LEVEL:
            for c in n.childNodes:
                if c.level == Node.PAR_LEVEL:
                    errs.append(['par-in-par'])
    return errs[:12]


def _nf_fragment(items):
    """is the recorded stream the print of a list of syntax trees satisfying the hypotheses of C07_nf_parse (text, plain commands,
    environments begin ... end: returns 1) or of C07_nf_parse_sections (the same plus sectioning units and \\par inside them,
    mathematics flag off everywhere: returns 2)?  Then the theorem says what the tree must be.  0 otherwise."""
    pos = 0
    n = len(items)
    used = {'sec': False, 'mm': False}

    def level(w):
        return 1001 if w[0] == 1 else w[1][2]

    def depth(w):
        return w[1] if w[0] == 1 else w[1][3]

    def mm(w):
        return w[4] if w[0] == 1 else w[1][17]

    def fits(ph, w, sec):
        if ph is None:
            return True
        if sec:
            return level(w) > ph[2]
        if level(w) == 101 or level(w) < ph[2]:
            return False
        if w[0] == 0 and w[1][4] == 2 and w[1][9] == ph[9]:
            return False
        if ph[2] > -1000000 and depth(w) < ph[3]:
            return False
        return True

    def item(ph, sec):
        nonlocal pos
        w = items[pos]
        if not fits(ph, w, sec):
            return False
        if mm(w):
            used['mm'] = True
        if w[0] == 1 or w[1][0] in (K_LEAF, K_TEXT):
            pos += 1
            return True
        fs = w[1]
        if fs[0] == K_SEC and not w[3]:
            used['sec'] = True
            pos += 1
            while pos < n and level(items[pos]) > fs[2]:
                if not item(fs, True):
                    return False
            return True
        if fs[0] != K_ENV or fs[4] == 2 or fs[6] or w[3]:
            return False
        pos += 1
        while pos < n:
            e = items[pos]
            if e[0] == 0 and e[1][4] == 2 and e[1][9] == fs[9]:
                if e[3] or e[1][2] == 101 or e[1][2] < fs[2]:
                    return False
                if mm(e):
                    used['mm'] = True
                pos += 1
                return True
            if not item(fs, False):
                return False
        return False
    try:
        while pos < n:
            if not item(None, False):
                return 0
    except RecursionError:
        return 0
    if used['sec']:
        return 0 if used['mm'] else 2
    return 1


def _cache_dir(main_pid):
    import core
    return os.path.join(core.BUILD, ID, 'streams-%d' % main_pid)


def _cache_path(case, main_pid):
    import hashlib
    import core
    h = hashlib.sha256((core.REPO + '\0' + json.dumps(case, sort_keys=True)).encode()).hexdigest()[:32]
    return os.path.join(_cache_dir(main_pid), h + '.json')


def _observe(case):
    """-> (observation, model input)"""
    src = source(case)
    names, types, unknown = Names(), Names(), []
    parname = names('par')
    # (a) expansion without digestion
    doc1, tex1 = _new_tex(src)
    items = []
    try:
        for it in tex1:
            items.append(_wire_item(it, doc1.context, names, types, unknown))
    except Exception as e:   # expansion itself fails (ill-formed input): nothing to digest
        return ['expansion-raises', type(e).__name__, str(e)[:120]], None
    # (b) the real parse
    doc2, tex2 = _new_tex(src)
    try:
        tex2.parse()
    except Exception as e:
        import traceback
        minput = [0, [[[ord(c) for c in a], [ord(c) for c in b]] for a, b in doc2.charsubs], parname, items, []]
        return ['parse-raises', type(e).__name__, str(e)[:120], traceback.format_exc()[-400:]], minput
    impl = [_wire_tree(c, names, unknown) for c in doc2.childNodes]
    subs = [[[ord(c) for c in a], [ord(c) for c in b]] for a, b in doc2.charsubs]
    errs = _oracle(doc2, case, src) if is_structured(case) else []
    depth = 0

    def dep(w, d):
        nonlocal depth
        if d > depth:
            depth = d
        if w[0] == 0:
            for c in w[3]:
                dep(c, d + 1)
    for w in impl:
        dep(w, 0)
    inv = sorted(names.t, key=names.t.get)
    obs = ['ok', [_canon(w) for w in impl], errs, sorted(set(unknown)),
           dict(items=len(items), depth=depth, names=inv, nf=_nf_fragment(items))]
    return obs, [0, subs, parname, items, impl]


def run_impl(case):
    obs, minput = _observe(case)
    path = _cache_path(case, os.getppid())
    try:
        os.makedirs(os.path.dirname(path), exist_ok=True)
        with open(path + '.tmp%d' % os.getpid(), 'w') as f:
            json.dump(minput, f)
        os.replace(path + '.tmp%d' % os.getpid(), path)
    except OSError:
        pass
    return obs


_CLEAN = []


def model_input(case):
    """the Model's input is the item stream recorded from the implementation by run_impl (which core runs first)"""
    path = _cache_path(case, os.getpid())
    if not _CLEAN:
        import atexit
        import shutil
        d = _cache_dir(os.getpid())
        atexit.register(lambda: shutil.rmtree(d, ignore_errors=True))
        _CLEAN.append(1)
    m = None
    if os.path.exists(path):
        try:
            m = json.load(open(path))
        except ValueError:
            m = None
    else:
        # not produced by a worker of this run: compute it here (needs plasTeX from $VERIF_REPO)
        import sys
        import core
        if core.REPO not in sys.path:
            sys.path.insert(0, core.REPO)
        worker_init()
        m = _observe(case)[1]
    if m is None:
        return [0, [], 0, [], []]      # expansion failed: empty stream
    return m


# ------------------------------------------------------------------------------------------------
# judge

def _atoms_str(v):
    out = []
    for a in v:
        if a[0] == 0:
            out.append(''.join(chr(c) for c in a[1]))
        else:
            out.append(chr(a[1]))
    return ''.join(out)


def _show(c, names, ind=0, out=None):
    out = [] if out is None else out
    if c[0] == 1:
        out.append(' ' * ind + repr(''.join(chr(x) for x in c[1])))
    else:
        nm = names[c[1]] if 0 <= c[1] < len(names) else str(c[1])
        out.append(' ' * ind + '<%s>%s' % (nm, (' args=' + ','.join(''.join(chr(x) for x in w) for w in c[2])) if c[2] else ''))
        for x in c[3]:
            _show(x, names, ind + 2, out)
    return out


def _first_diff(a, b, path=()):
    if a == b:
        return None
    if a[0] == 0 and b[0] == 0 and a[:3] == b[:3]:
        ca, cb = a[3], b[3]
        for i in range(min(len(ca), len(cb))):
            d = _first_diff(ca[i], cb[i], path + (i,))
            if d:
                return d
        return path, 'children: %d' % len(ca), 'children: %d' % len(cb)
    return path, a if a[0] == 1 else a[:3], b if b[0] == 1 else b[:3]


def judge(case, io, mo):
    structured = is_structured(case)
    if not isinstance(io, list) or not io:
        return dict(violation=False, key='C07:harness', what='no observation: %r' % (io,))
    tag = io[0]
    if tag == 'expansion-raises':
        if structured:
            return dict(violation=True, key='C07:doc:expansion-raises', expected='a parsed document',
                        what='expanding a well-formed document raises %s: %s' % (io[1], io[2]))
        return None
    if tag in ('raise', 'hang'):
        return dict(violation=structured, key='C07:impl-' + tag, expected='a parsed document', what='implementation: %s' % (io[:3],))
    if tag == 'parse-raises':
        if mo[:1] == [-2]:
            return None          # the Model says: the implementation raises here (e.g. \verb with nothing after it)
        return dict(violation=structured, key='C07:parse-raises', expected='a parsed document',
                    what='TeX.parse raises %s: %s' % (io[1], io[2]))
    forest, errs, unknown, info = io[1], io[2], io[3], io[4]
    # 1. the property's clauses on the implementation's own tree
    if structured and errs:
        e = errs[0]
        return dict(violation=True, key='C07:' + e[0], expected=e,
                    what='property clause "%s" fails on the parsed tree: %s' % (e[0], json.dumps(errs[:4], ensure_ascii=True)))
    if unknown:
        if case['kind'] == 'doc':
            return dict(violation=False, key='C07:unmodelled-class', what='classes with a digest/normalize the Model does not have: %s' % unknown)
        return None
    # 2. the Model's digest of the implementation's item stream against the implementation's tree
    if mo == [-3]:
        return dict(violation=False, key='C07:model-fuel', what='the Model ran out of fuel (digest_terminates says it cannot)')
    if mo[:1] == [-2]:
        return dict(violation=False, key='C07:model-crash', what='Model predicts an exception (%s), the implementation returned a tree' % mo)
    if mo[:1] != [0]:
        return dict(violation=False, key='C07:model-bad-input', what='Model: %s' % (mo,))
    if mo[1] != forest:
        d = None
        for i in range(max(len(forest), len(mo[1]))):
            a = mo[1][i] if i < len(mo[1]) else [1, []]
            b = forest[i] if i < len(forest) else [1, []]
            d = _first_diff(a, b, (i,))
            if d:
                break
        return dict(violation=False, key='C07:tree-differs', expected=None,
                    what='digest Model and TeX.parse build different trees from the same item stream; first difference at %s: model %s, implementation %s'
                         % (d[0], d[1], d[2]) if d else 'trees differ')
    # 3. Spec functions extracted from Coq, evaluated on the implementation's tree
    if structured:
        want = ''.join(MARK.findall(source(case)))
        if mo[6] != 1:
            return dict(violation=True, key='C07:section-child', expected='wf_sections_b = true',
                        what='wf_sections_b (Spec) is false on the implementation\'s tree')
        got = _atoms_str(mo[7])
        if got != want:
            return dict(violation=True, key='C07:words', expected=want[:200],
                        what='words (flatten tree) of the implementation\'s tree differs from the source order: %s' % got[:200])
        if _atoms_str(mo[2]):
            return dict(violation=True, key='C07:words', expected='', what='running text in items that the digest drops: %s' % _atoms_str(mo[2])[:200])
        # the hypotheses of the theorems hold on this real stream (M1: dropped items carry no words -- just checked; M2: item_ok_b,
        # no sectioning event; table: neutral_b)
        if mo[8] != 0 or mo[9] != 1 or mo[10] != 1 or mo[11] != 1:
            return dict(violation=False, key='C07:hypothesis',
                        what='a hypothesis of the theorems does not hold on the stream of a well-formed document: sectioning events=%s '
                             'item_ok=%s table neutral=%s dropped items without visible node=%s' % (mo[8], mo[9], mo[10], mo[11]))
    # 4. the theorems' instances on this stream (M1: words preserved when the dropped items carry none)
    if mo[11] == 1 and mo[12] != 1:
        return dict(violation=False, key='C07:M1-instance', what='the visible nodes of digest ts are not those of ts in order (contradicts nodes_once)')
    if not mo[2] and mo[3] != mo[4]:
        return dict(violation=False, key='C07:M1-instance', what='words(flatten(digest ts)) <> words ts on the Model (contradicts digest_flatten)')
    return None


def nontrivial(case, io):
    return isinstance(io, list) and io[:1] == ['ok'] and io[4]['depth'] >= 3 and io[4]['items'] >= 8


def tags(case, io):
    t = [case['kind']]
    if case['kind'] == 'doc':
        t += ['feat:' + f for f in case.get('feat', [])]
    if is_structured(case):
        t.append('structured')
    if isinstance(io, list) and io:
        t.append('impl:' + str(io[0]))
        if io[0] == 'ok':
            t.append('tree-depth=%d' % min(io[4]['depth'], 12))
            if io[3]:
                t.append('unmodelled-class')
            if io[4].get('nf') == 1:
                t.append('nf-fragment (hypotheses of C07_nf_parse hold)')
            if io[4].get('nf') == 2:
                t.append('nf-sections-fragment (hypotheses of C07_nf_parse_sections hold)')
    return t


# ------------------------------------------------------------------------------------------------
# shrinking: delete lines / blocks of the source while it stays balanced

def _balanced(src):
    stack = []
    for m in re.finditer(r'\\begin\{(\w+\*?)\}|\\end\{(\w+\*?)\}|\\verb\*?(.).*?\3|(?<!\\)([{}])|\\\[|\\\]|\\\(|\\\)|\$\$?', src):
        s = m.group(0)
        if s.startswith('\\verb'):
            continue
        if m.group(1):
            stack.append(m.group(1))
        elif m.group(2):
            if not stack or stack.pop() != m.group(2):
                return False
        elif s == '{':
            stack.append('{')
        elif s == '}':
            if not stack or stack.pop() != '{':
                return False
        elif s in ('\\[', '\\('):
            stack.append(s)
        elif s in ('\\]', '\\)'):
            if not stack or stack.pop() != {'\\]': '\\[', '\\)': '\\('}[s]:
                return False
        else:
            if stack and stack[-1] == s:
                stack.pop()
            else:
                stack.append(s)
    return not stack


def shrink(case):
    if case['kind'] == 'atoms':
        a = case['atoms']
        for i in range(len(a)):
            yield dict(case, atoms=a[:i] + a[i + 1:])
        return
    src = case['src']
    lines = src.split('\n')
    n = len(lines)
    seen = set()

    def cand(lo, hi):
        new = '\n'.join(lines[:lo] + lines[hi:])
        if new in seen or new == src:
            return None
        seen.add(new)
        if case['kind'] == 'doc' and not (_balanced(new) and new.startswith('\\documentclass') and '\\end{document}' in new):
            return None
        return dict(case, src=new)
    size = max(1, (n - 3) // 2)
    while size >= 1:
        for lo in range(2, n - 1, size):
            c = cand(lo, min(n - 1, lo + size))
            if c:
                yield c
        size //= 2
    # inside a line: drop one blank-separated chunk
    for i, ln in enumerate(lines):
        parts = ln.split(' ')
        if len(parts) > 1:
            for j in range(len(parts)):
                new = '\n'.join(lines[:i] + [' '.join(parts[:j] + parts[j + 1:])] + lines[i + 1:])
                if new not in seen and (case['kind'] != 'doc' or _balanced(new)):
                    seen.add(new)
                    yield dict(case, src=new)
