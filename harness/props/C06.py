"""C06 -- the document tree stays a consistent tree under any sequence of DOM edits.
Correspondence: plasTeX.DOM (real classes from $VERIF_REPO) vs Model/Dom.v on operation histories; after every
operation the whole object graph (children, parentNode, ownerDocument, attributes) is compared as a delta.

A case is
  {'kind': 'hist', 'ops': [...], 'queries': [...]}     one history, then read-only queries on the final state
  {'kind': 'fan',  'pre': [...], 'exts': [...]}        a prefix, then every extension applied separately to the
                                                       state after the prefix (exhaustive small-scope stream)
Operations are in wire form (lists of ints), see coq/theories/Model/DomWire.v : op_of.
"""
import json
import os
import random

ID = 'C06'
_N = 'plasTeX/DOM/__init__.py'
PINS = [(_N, 'Node.' + m) for m in ('append', 'insert', '__setitem__', 'insertBefore', 'insertAfter', 'replaceChild', 'removeChild',
                                      'pop', 'extend', 'appendText', 'cloneNode', 'normalize', 'textContent', 'childNodes',
                                      'firstChild', 'lastChild', 'allChildNodes')] + \
       [(_N, f) for f in ('_compareDocumentPosition', '_previousSibling', '_nextSibling', '_getElementsByTagName',
                          'NamedNodeMap.__setitem__', 'NamedNodeMap._resetPosition', 'CharacterData.cloneNode',
                          'Document.createElement', 'Document.createTextNode', 'Document.createDocumentFragment')]
RULE = ('operation histories over a pool of documents, elements, text nodes and fragments: (a) exhaustive small scope -- every '
        'operation of a finite alphabet (append, insert, insertBefore, insertAfter, replaceChild, removeChild, pop, item assignment, '
        'extend, normalize, deep cloneNode; indices -2..2 and out of range; element, text and fragment arguments) applied to every '
        'distinct state reachable by admissible operations within the depth bound (states enumerated breadth-first by the Model), '
        'and all read-only views on each of those states; (b) random histories of up to 40 operations over a larger pool (two '
        'documents, attribute-held fragments), mostly admissible; (a\') normalize / cloneNode on and above elements that hold fragments or '
        'elements in their attributes (holders without a child list, with removed children, with children; adjacent and empty text '
        'nodes; nested holders); (c) malformed: histories with a high rate of inadmissible '
        'arguments (listed nodes, ancestors, self, documents, foreign-document nodes, a fragment into itself). '
        'Non-trivial = at least two child-list edits (hist) / a non-empty prefix (fan).')
TRUSTED = ['modelled, not verified: Python object identity as heap positions; Python list.insert/list.pop index conventions; the order in '
           'which cloneNode/normalize create new objects (preorder); textContent\'s throw-away Text objects are not allocated in the Model',
           'not modelled: plain str arguments (converted by createTextNode), slices in item assignment, the "self" attribute aliasing '
           'childNodes, Text nodes as receivers (they share the class-level CharacterData._dummyChildNodes list)']
ASSUMPTIONS = ['"detached or fragment arguments" is read as: the argument (or every item of the fragment) is an element or text node of '
               'the receiver\'s document that no element/document lists, that is not already in the receiver\'s own list, and that is not the receiver '
               'or one of its ancestors (DOM HierarchyRequestErr condition); a fragment is never inserted into itself',
               'parentNode of nodes that are not listed (removed children, clones, spent fragments) is stale by design of the library and '
               'not constrained by the invariant']
CASE_TIMEOUT = 60
OP_TIMEOUT = 0.1     # seconds of CPU time (ITIMER_VIRTUAL); real operations take microseconds

(CDOC, CELEM, CTEXT, CFRAG, APPEND, INSERT, INSBEFORE, INSAFTER, REPLACE, REMOVE, POP, SETITEM, EXTEND, EXTLIST,
 NORMALIZE, CLONE, SETATTR) = range(17)
OPNAMES = ['Document', 'createElement', 'createTextNode', 'createDocumentFragment', 'append', 'insert', 'insertBefore',
           'insertAfter', 'replaceChild', 'removeChild', 'pop', 'setitem', 'extend', 'extend(list)', 'normalize', 'cloneNode',
           'setattr']
EDITS = (APPEND, INSERT, INSBEFORE, INSAFTER, REPLACE, REMOVE, POP, SETITEM, EXTEND, EXTLIST)
KNOWN_STALE = 'C06:compare:stale-parent-cycle'


# ---- implementation side -------------------------------------------------------------------------------------

class OpTimeout(BaseException):
    pass


def _on_alarm(signum, frame):
    raise OpTimeout()


def worker_init():
    import signal
    # CPU-time timer: a loop that never ends burns CPU; a worker that is merely descheduled on a busy machine does not
    signal.signal(signal.SIGVTALRM, _on_alarm)
    # no garbage collection inside a timed operation (a full collection can take longer than the time-out): everything
    # imported so far is frozen, collection is explicit between cases
    import gc
    gc.collect()
    if hasattr(gc, 'freeze'):
        gc.freeze()
    gc.disable()


class Impl(object):
    """the real DOM objects, numbered in creation order"""

    def __init__(self):
        self.nodes = []
        self.idx = {}

    def reg(self, o):
        if id(o) not in self.idx:
            self.idx[id(o)] = len(self.nodes)
            self.nodes.append(o)
        return self.idx[id(o)]

    def ref(self, o):
        if o is None:
            return -1
        return self.idx.get(id(o), -7)

    @staticmethod
    def kids(o):
        if o.nodeType == 3:
            return []
        return list(o.childNodes) if o.hasChildNodes() else []

    def discover(self, o):
        """register unknown objects below o in preorder (the order in which cloneNode / normalize create them)"""
        if o is None or not hasattr(o, 'nodeType'):
            return
        seen = set()
        stack = [o]
        while stack:
            x = stack.pop()
            if id(x) in seen:
                continue
            seen.add(id(x))
            self.reg(x)
            av = [v for v in x.attributes.values() if hasattr(v, 'nodeType')] if x.nodeType == 1 and '_dom_attributes' in x.__dict__ else []
            stack.extend(reversed(av + self.kids(x)))

    def dump_node(self, o):
        t = o.nodeType
        if t == 1:
            k, nm = 0, int(o.nodeName[1:])
            at = [[int(key[1:]), self.ref(v)] for key, v in o.attributes.items()] if '_dom_attributes' in o.__dict__ else []
        elif t == 3:
            k, nm, at = 1, [ord(c) for c in str.__str__(o)], []
        elif t == 11:
            k, nm, at = 2, 0, []
        else:
            k, nm, at = 3, 0, []
        return [k, nm, [self.ref(c) for c in self.kids(o)], self.ref(o.parentNode), self.ref(o.ownerDocument), at]

    def dump(self):
        return [self.dump_node(o) for o in self.nodes]

    def apply(self, op):
        """-> outcome (wire form).  Exceptions are part of the observation."""
        import plasTeX.DOM as D
        n = self.nodes
        k = op[0]
        ids = [x for x in (op[1:] if k not in (CELEM, CTEXT, INSERT, POP, SETITEM, EXTLIST, SETATTR) else
                           [op[1]] + ([op[3]] if k in (INSERT, SETITEM, SETATTR) else []) + (op[2] if k == EXTLIST else []))]
        if any(not (0 <= x < len(n)) for x in ids) or (k > CFRAG and k != CLONE and n[op[1]].nodeType == 3) or \
                (k == EXTEND and n[op[2]].nodeType == 3):       # extend(text node) walks the characters of a str
            return [-1]          # dangling identity / Text receiver: outside the Model (only shrinking produces these)
        try:
            if k == CDOC:
                r = D.Document()
            elif k == CELEM:
                r = n[op[1]].createElement('n%d' % op[2])
            elif k == CTEXT:
                r = n[op[1]].createTextNode(''.join(chr(c) for c in op[2]))
            elif k == CFRAG:
                r = n[op[1]].createDocumentFragment()
            elif k == APPEND:
                r = n[op[1]].append(n[op[2]])
            elif k == INSERT:
                r = n[op[1]].insert(op[2], n[op[3]])
            elif k == INSBEFORE:
                r = n[op[1]].insertBefore(n[op[2]], n[op[3]])
            elif k == INSAFTER:
                r = n[op[1]].insertAfter(n[op[2]], n[op[3]])
            elif k == REPLACE:
                r = n[op[1]].replaceChild(n[op[2]], n[op[3]])
            elif k == REMOVE:
                r = n[op[1]].removeChild(n[op[2]])
            elif k == POP:
                r = n[op[1]].pop(op[2])
            elif k == SETITEM:
                n[op[1]][op[2]] = n[op[3]]
                r = None
            elif k == EXTEND:
                r = n[op[1]].extend(n[op[2]])
            elif k == EXTLIST:
                r = n[op[1]].extend([n[c] for c in op[2]])
            elif k == NORMALIZE:
                r = n[op[1]].normalize()
            elif k == CLONE:
                r = n[op[1]].cloneNode(True)
            elif k == SETATTR:
                n[op[1]].attributes['k%d' % op[2]] = n[op[3]]
                r = None
            else:
                raise ValueError('bad op')
        except D.NotFoundErr:
            return [-2, 1]
        except IndexError:
            return [-2, 2]
        except (AttributeError, TypeError):
            return [-2, 3]
        except RecursionError:
            return [-3]
        if k in (CDOC, CELEM, CTEXT, CFRAG, CLONE):
            self.discover(r)
        elif k == NORMALIZE:
            self.discover(n[op[1]])
        return [0, self.ref(r)]

    def guarded(self, op):
        import signal
        signal.setitimer(signal.ITIMER_VIRTUAL, OP_TIMEOUT)
        try:
            try:
                return self.apply(op)
            finally:
                signal.setitimer(signal.ITIMER_VIRTUAL, 0)
        except OpTimeout:
            return [-3]

    def query(self, q):
        import signal
        signal.setitimer(signal.ITIMER_VIRTUAL, OP_TIMEOUT)
        try:
            try:
                return self._query(q)
            finally:
                signal.setitimer(signal.ITIMER_VIRTUAL, 0)
        except OpTimeout:
            return [-3]
        except RecursionError:
            return [-3]
        except IndexError:
            return [-2, 2]

    def _query(self, q):
        n = self.nodes
        k = q[0]
        if not (0 <= q[1] < len(n)) or (k == 3 and not (0 <= q[2] < len(n))):
            return [-1]
        o = n[q[1]]
        if k == 0:
            return [self.ref(o.firstChild), self.ref(o.lastChild), self.ref(o.previousSibling), self.ref(o.nextSibling)]
        if k == 1:
            return [0, [ord(c) for c in str.__str__(o.textContent)]]
        if k == 2:
            return [0, [self.ref(x) for x in o.getElementsByTagName('n%d' % q[2])]]
        if k == 3:
            return [0, int(o.compareDocumentPosition(n[q[2]]))]
        raise ValueError('bad query')


def delta(g0, g1):
    return [[i, nd] for i, nd in enumerate(g1) if i >= len(g0) or g0[i] != nd]


def apply_delta(g, d):
    g = list(g)
    for i, nd in d:
        if i < len(g):
            g[i] = nd
        else:
            assert i == len(g), (i, len(g))
            g.append(nd)
    return g


def _run_ops(ops):
    st = Impl()
    tr = []
    g = []
    ok = True
    for op in ops:
        out = st.guarded(op)
        if out in ([-3], [-1]):
            tr.append([out, []])
            ok = False
            break
        g1 = st.dump()
        tr.append([out, delta(g, g1)])
        g = g1
    return st, tr, g, ok


def run_impl(case):
    import gc
    try:
        return _run_impl(case)
    finally:
        gc.collect()


def _run_impl(case):
    if case['kind'] == 'hist':
        st, tr, g, ok = _run_ops(case['ops'])
        ans = []
        if ok:
            for q in case['queries']:
                # after the first hang the remaining queries are not asked (each would cost a time-out)
                ans.append([-4] if ans and ans[-1] in ([-3], [-4]) else st.query(q))
        return [tr, ans]
    st, tr, g, ok = _run_ops(case['pre'])
    exts = []
    if ok:
        for e in case['exts']:
            s2 = Impl()
            for op in case['pre']:
                s2.apply(op)
            out = s2.guarded(e)
            exts.append([out, [] if out in ([-3], [-1]) else delta(g, s2.dump())])
    return [tr, exts]


# ---- model side ----------------------------------------------------------------------------------------------

def model_input(case):
    if case['kind'] == 'hist':
        return [0, case['ops'], case['queries']]
    return [1, case['pre'], case['exts']]


def _model_exe():
    import core
    return os.path.join(core.BUILD, ID, 'model')


def _oracle(graph, creators):
    """wf_b (the extracted Spec invariant) on a graph dumped from the implementation -> flags or None"""
    import core
    exe = _model_exe()
    if not os.path.exists(exe):
        return None
    nodes = []
    for i, nd in enumerate(graph):
        cr = creators[i] if i < len(creators) else (nd[4] if nd[4] >= 0 else 0)
        if any(c < 0 for c in nd[2]) or nd[3] < -1 or nd[4] < -1:
            return [0, 0, 0, 0, 0, 0, 0]    # refers to an object that was never created by the history
        nodes.append([nd[0], nd[1], nd[2], nd[3], nd[4], [], cr])
    r = core.run_model(exe, [[2, nodes]])[0]
    return r if isinstance(r, list) and len(r) == 7 else None


FLAGS = ['', 'a listed child is a fragment/document/unknown object', "a child's parentNode is not the node that lists it",
         'a node is listed twice', "a node's ownerDocument is not the document that created it", 'a node is its own ancestor',
         'a text node has children']


def _tree_children(g):
    return {i: nd[2] for i, nd in enumerate(g) if nd[0] in (0, 3)}


def _text_below(g, n, depth=0):
    if depth > len(g) + 1:
        return None
    nd = g[n]
    if nd[0] == 1:
        return list(nd[1])
    out = []
    for c in nd[2]:
        t = _text_below(g, c, depth + 1) if 0 <= c < len(g) else None
        if t is None:
            return None
        out += t
    return out


def _shape(g, n, depth=0):
    """rose tree below n without identities"""
    if depth > len(g) + 1:
        return None
    nd = g[n]
    return [nd[0], nd[1], [_shape(g, c, depth + 1) if 0 <= c < len(g) else None for c in nd[2]]]


def _below(g, n, acc=None, depth=0):
    acc = set() if acc is None else acc
    if n in acc or depth > len(g) + 1:
        return acc
    acc.add(n)
    for c in g[n][2]:
        if 0 <= c < len(g):
            _below(g, c, acc, depth + 1)
    return acc


def _adjacent_text(g, n, seen=None, attrs=False):
    seen = set() if seen is None else seen
    if n in seen:
        return False
    seen.add(n)
    ks = [c for c in g[n][2] if 0 <= c < len(g)]
    for a, b in zip(ks, ks[1:]):
        if g[a][0] == 1 and g[b][0] == 1:
            return True
    below = [c for c in ks if g[c][0] != 1]
    if attrs:
        below += [v for _, v in g[n][5] if 0 <= v < len(g) and g[v][0] != 1]
    return any(_adjacent_text(g, c, seen, attrs) for c in below)


def _judge_step(op, g_before, gi, gm, creators, iout, mout):
    """the histories agreed and were admissible up to here; now the graphs (or outcomes) differ.
    -> (violation, what): does the implementation's own result break a clause of the property?"""
    flags = _oracle(gi, creators)
    if flags is not None and flags[0] == 0:
        bad = [FLAGS[i] for i in range(1, 7) if flags[i] == 0]
        return True, 'the graph after the operation is not a consistent tree: ' + '; '.join(bad)
    if op[0] in EDITS or op[0] in (CDOC, CELEM, CTEXT, CFRAG):
        ci, cm = _tree_children(gi), _tree_children(gm)
        for n in sorted(cm):
            if ci.get(n) != cm[n]:
                return True, 'children of node %d are %s, the list model gives %s' % (n, ci.get(n), cm[n])
    if op[0] == NORMALIZE and iout[0] == 0:
        p = op[1]
        if _text_below(gi, p) != _text_below(g_before, p):
            return True, 'normalize changed the text content of node %d' % p
        if _adjacent_text(gi, p):
            return True, 'adjacent text nodes remain after normalize'
    if op[0] == CLONE and iout[0] == 0 and iout[1] >= 0:
        c = iout[1]
        if c < len(g_before) or _below(gi, c) & set(range(len(g_before))):
            return True, 'the deep clone shares nodes with the existing graph'
        if _shape(gi, c) != _shape(gi, op[1]):
            return True, 'the deep clone is not equal to the original'
    return False, 'the implementation differs from the Model but no clause of the property is broken by its result'


_FAN_BAD = {}


def _verdict(violation, key, what, expected=None):
    return dict(violation=violation, key=key, what=what, expected=expected)


def _numbering_defined(op, mentry, iout, mout):
    """Objects are identified by their creation order.  That order is defined for everything but two situations, both
    of which only arise outside the property's precondition: normalize calling itself twice on one node (a node
    reachable twice through child lists / attribute values: the texts created the first time become unreachable) and a
    normalize / cloneNode that raises half-way (what it created so far is unreachable).  The Model reports the first
    (norm_walk_ok); the outcomes show the second."""
    if op[0] == NORMALIZE:
        return len(mentry) > 4 and mentry[4] == 1 and iout[0] == 0 and mout[0] == 0
    if op[0] == CLONE:
        return iout[0] == 0 and mout[0] == 0
    return True


def _compare_trace(ops, itr, mtr, creators, g, all_adm):
    """-> (verdict or None, graph after (None: the rest of the case cannot be compared), all_adm)"""
    for k, op in enumerate(ops):
        if k >= len(mtr) or k >= len(itr):
            if len(mtr) != len(itr):
                return _verdict(False, 'C06:trace-length', 'traces end at different steps (%d vs %d)' % (len(itr), len(mtr))), g, all_adm
            return None, g, all_adm
        adm, mout, md = mtr[k][:3]
        iout, idl = itr[k]
        all_adm = all_adm and bool(adm)
        if mout == [-3] or iout == [-3]:
            if mout != iout:
                v = _verdict(bool(all_adm), 'C06:hang', 'step %d %s: implementation %s, Model %s' % (k, describe_op(op), iout, mout), mout)
                return v, g, all_adm
            return None, g, all_adm
        if mout == [-1] or iout == [-1]:
            if mout != iout:
                return _verdict(False, 'C06:outside-model', 'step %d is outside the Model' % k), g, all_adm
            return None, g, False
        if iout != mout or idl != md:
            if iout == mout and not _numbering_defined(op, mtr[k], iout, mout):
                return None, None, all_adm
            gi, gm = apply_delta(g, idl), apply_delta(g, md)
            if not all_adm:
                viol, what = False, 'the operation or an earlier one is outside "detached or fragment arguments": the property makes no claim'
                key = 'C06:unclaimed-divergence'
                if (op[0] == NORMALIZE and iout[0] == 0 and len(mtr[k]) > 4 and mtr[k][4] == 1
                        and _adjacent_text(gi, op[1], attrs=True) and not _adjacent_text(gm, op[1], attrs=True)):
                    # normalize was called exactly once on every node below (through child lists and attribute values),
                    # it returned, and one of those nodes still has two adjacent text children: the clause "normalization
                    # merges adjacent text" is broken on the implementation's own result, whatever happened before
                    viol, key = True, 'C06:normalize:attribute'
                    what = 'adjacent text nodes remain below the normalized node (in a fragment or element held in an attribute)'
                return _verdict(viol, key,
                                'step %d %s: the implementation and the Model part ways; %s (implementation %s %s, Model %s %s)' % (
                                    k, describe_op(op), what, iout, idl, mout, md)), g, all_adm
            viol, what = _judge_step(op, g, gi, gm, creators, iout, mout)
            return _verdict(viol, 'C06:%s' % OPNAMES[op[0]], 'step %d %s: %s (implementation %s %s, Model %s %s)' % (
                k, describe_op(op), what, iout, idl, mout, md), [mout, md]), g, all_adm
        if op[0] == NORMALIZE and len(mtr[k]) > 3 and all_adm and mtr[k][3] == 0:
            # the two sides agree, and the tree they agree on is not the normalized tree the Spec (norm_tree) prescribes
            return _verdict(True, 'C06:normalize:spec', 'step %d %s: the tree below the node is not the normalized tree '
                            '(adjacent text merged, text content kept) of the tree before' % (k, describe_op(op))), g, all_adm
        g = apply_delta(g, md)
    return None, g, all_adm


QNAMES = ['first/last/previous/next', 'textContent', 'getElementsByTagName', 'compareDocumentPosition']


def judge(case, io, mo):
    if not (isinstance(io, list) and len(io) == 2 and isinstance(io[0], list)):
        return _verdict(False, 'C06:runner', 'the implementation runner failed: %s' % (io,))
    if not (isinstance(mo, list) and len(mo) >= 3):
        return _verdict(False, 'C06:model-output', 'unexpected Model output %s' % (mo,))
    creators = mo[2]
    if case['kind'] == 'hist':
        v, g, all_adm = _compare_trace(case['ops'], io[0], mo[0], creators, [], True)
        if v is not None:
            return v
        if g is None:
            return None         # not judged beyond an inadmissible operation
        if len(io[1]) != len(mo[1]):
            return _verdict(False, 'C06:trace-length', 'different number of answers')
        pending = None
        for q, ia, ma in zip(case['queries'], io[1], mo[1]):
            mval, sval = ma[0], ma[1]
            if ia == [-4]:
                break
            if ia == [-1]:
                continue
            kind = QNAMES[q[0]]
            if q[0] == 0:
                claim = sval != -9
                ispec = ia == sval
            else:
                claim = sval != -9
                ispec = ia == sval
            if claim and all_adm and not ispec:
                stale = len(ma) > 2 and ma[2] == 1
                key = 'C06:view:%s' % kind
                if q[0] == 3 and stale:
                    key = KNOWN_STALE
                v = _verdict(True, key, '%s = %s, the tree says %s%s' % (
                    describe_query(q), ia, sval, ' (the parentNode links above run in a circle through the stale link of a root)' if stale else ''), sval)
                if key != KNOWN_STALE:
                    return v
                pending = pending or v      # keep looking: anything else in this case is reported first
            if q[0] == 3 and all_adm and len(ma) > 3 and ma[3] == 0:
                return _verdict(False, 'C06:spec-formulations', 'document order by position paths and by preorder index differ for %s' % describe_query(q))
            if ia != mval:
                return _verdict(False, 'C06:view-divergence', '%s = %s, Model %s' % (describe_query(q), ia, mval), mval)
        return pending
    v, g, all_adm = _compare_trace(case['pre'], io[0], mo[0], creators, [], True)
    if v is not None:
        return v
    if g is None:
        return None
    if len(io[1]) != len(mo[1]):
        return _verdict(False, 'C06:trace-length', 'different number of extensions')
    for j, e in enumerate(case['exts']):
        v, _, _ = _compare_trace([e], [io[1][j]], [mo[1][j]], creators, g, all_adm)
        if v is not None:
            _FAN_BAD[json.dumps(case, sort_keys=True)] = j
            v['what'] = 'extension %d: ' % j + v['what']
            return v
    return None


# ---- descriptions --------------------------------------------------------------------------------------------

def describe_op(op):
    k = op[0]
    a = op[1:]
    if k == CDOC:
        return 'Document()'
    if k == CELEM:
        return 'n%d.createElement("n%d")' % (a[0], a[1])
    if k == CTEXT:
        return 'n%d.createTextNode(%r)' % (a[0], ''.join(chr(c) for c in a[1]))
    if k == CFRAG:
        return 'n%d.createDocumentFragment()' % a[0]
    if k == APPEND:
        return 'n%d.append(n%d)' % tuple(a)
    if k == INSERT:
        return 'n%d.insert(%d, n%d)' % tuple(a)
    if k in (INSBEFORE, INSAFTER, REPLACE):
        return 'n%d.%s(n%d, n%d)' % (a[0], OPNAMES[k], a[1], a[2])
    if k == REMOVE:
        return 'n%d.removeChild(n%d)' % tuple(a)
    if k == POP:
        return 'n%d.pop(%d)' % tuple(a)
    if k == SETITEM:
        return 'n%d[%d] = n%d' % tuple(a)
    if k == EXTEND:
        return 'n%d.extend(n%d)' % tuple(a)
    if k == EXTLIST:
        return 'n%d.extend([%s])' % (a[0], ', '.join('n%d' % c for c in a[1]))
    if k == NORMALIZE:
        return 'n%d.normalize()' % a[0]
    if k == CLONE:
        return 'n%d.cloneNode(True)' % a[0]
    if k == SETATTR:
        return 'n%d.attributes["k%d"] = n%d' % tuple(a)
    return str(op)


def describe_query(q):
    if q[0] == 0:
        return 'n%d.firstChild/lastChild/previousSibling/nextSibling' % q[1]
    if q[0] == 1:
        return 'n%d.textContent' % q[1]
    if q[0] == 2:
        return 'n%d.getElementsByTagName("n%d")' % (q[1], q[2])
    return 'n%d.compareDocumentPosition(n%d)' % (q[1], q[2])


def describe(case):
    if case['kind'] == 'hist':
        s = '; '.join(describe_op(o) for o in case['ops'])
        if case['queries']:
            qs = case['queries']
            s += '  ??  ' + '; '.join(describe_query(q) for q in qs[:6]) + (' ... (%d queries)' % len(qs) if len(qs) > 6 else '')
        return '(nodes are numbered n0, n1, ... in creation order) ' + s
    return '(n0, n1, ... in creation order) ' + '; '.join(describe_op(o) for o in case['pre']) + \
           '  then each of %d operations separately, e.g. ' % len(case['exts']) + '; '.join(describe_op(o) for o in case['exts'][:3])


def nontrivial(case, io):
    if case['kind'] == 'hist':
        return sum(1 for o in case['ops'] if o[0] in EDITS or o[0] in (NORMALIZE, CLONE)) >= 2
    return any(o[0] > CFRAG for o in case['pre']) or len(case['exts']) > 10


def tags(case, io):
    t = [case['kind']]
    ops = case['ops'] if case['kind'] == 'hist' else case['exts']
    for k in sorted({o[0] for o in ops if o[0] > CFRAG}):
        t.append('op=' + OPNAMES[k])
    if isinstance(io, list) and len(io) == 2 and isinstance(io[0], list):
        outs = [e[0] for e in io[0]] + ([e[0] for e in io[1]] if case['kind'] == 'fan' else [])
        for name, pat in (('impl-raises-NotFoundErr', [-2, 1]), ('impl-raises-IndexError', [-2, 2]), ('impl-raises-AttributeError', [-2, 3]),
                          ('impl-hangs', [-3])):
            if pat in outs:
                t.append(name)
    if case['kind'] == 'hist':
        n = sum(1 for o in case['ops'] if o[0] > CFRAG)
        t.append('len=%s' % ('0' if n == 0 else '1-5' if n <= 5 else '6-20' if n <= 20 else '21-40'))
        for k in sorted({q[0] for q in case['queries']}):
            t.append('view=' + QNAMES[k])
    else:
        t.append('fan-depth=%d' % sum(1 for o in case['pre'] if o[0] > CFRAG))
    return t


# ---- generation ----------------------------------------------------------------------------------------------

def pool_ops(n_elem, n_text, n_frag, doc=0, first=1):
    """creation prefix; returns (ops, elems, texts, frags)"""
    ops, ids = [], first
    elems, texts, frags = [], [], []
    for i in range(n_elem):
        ops.append([CELEM, doc, i % 3])
        elems.append(ids)
        ids += 1
    for i in range(n_text):
        ops.append([CTEXT, doc, [97 + i]])
        texts.append(ids)
        ids += 1
    for i in range(n_frag):
        ops.append([CFRAG, doc])
        frags.append(ids)
        ids += 1
    return ops, elems, texts, frags


def alphabet(elems, texts, frags, idx):
    """the finite operation alphabet of the exhaustive stream (self-insertions and ref = new are left to the malformed stream)"""
    recv = elems + frags
    args = elems + texts + frags
    refs = elems + texts
    out = []
    for p in recv:
        for c in args:
            if c == p:
                continue
            out.append([APPEND, p, c])
            for i in idx:
                out.append([INSERT, p, i, c])
                out.append([SETITEM, p, i, c])
            for r in refs:
                if r in (c, p):
                    continue
                out.append([INSBEFORE, p, c, r])
                out.append([INSAFTER, p, c, r])
                out.append([REPLACE, p, c, r])
        for r in refs:
            if r != p:
                out.append([REMOVE, p, r])
        for i in idx:
            out.append([POP, p, i])
        for f in frags:
            if f != p:
                out.append([EXTEND, p, f])
        out.append([NORMALIZE, p])
    for c in args:
        out.append([CLONE, c])
    return out


def all_queries(nnodes, names=(0, 1)):
    qs = []
    for n in range(nnodes):
        qs.append([0, n])
        qs.append([1, n])
    for n in range(nnodes):
        for nm in names:
            qs.append([2, n, nm])
    for a in range(nnodes):
        for b in range(nnodes):
            qs.append([3, a, b])
    return qs


def explore(rng, pre0, alpha, depth, cap, stream, out, qcap):
    """breadth-first over the distinct states the Model reaches by admissible operations; every state gets the whole alphabet"""
    import core
    exe = _model_exe()
    frontier = [[]]
    seen = set()
    have_model = os.path.exists(exe)
    qstates = []
    for level in range(depth):
        cases = [dict(kind='fan', pre=pre0 + pre, exts=alpha) for pre in frontier]
        out.extend((stream, c) for c in cases)
        if level == depth - 1 and level > 0:
            break
        if not have_model:
            # no Model to enumerate states with: fall back to plain sequences (one more level only)
            if level == 0:
                frontier = [[e] for e in alpha]
                continue
            break
        outs = core.run_model(exe, [model_input(c) for c in cases])
        nxt = []
        for pre, mo in zip(frontier, outs):
            if not (isinstance(mo, list) and len(mo) >= 3):
                continue
            g = []
            for e in mo[0]:
                g = apply_delta(g, e[2])
            if level == 0:
                seen.add(json.dumps(g))
                qstates.append((pre, len(g)))
            for e, ent in zip(alpha, mo[1]):
                if ent[0] == 1 and ent[1][0] == 0 and ent[2]:
                    g1 = apply_delta(g, ent[2])
                    key = json.dumps(g1)
                    if key not in seen:
                        seen.add(key)
                        nxt.append(pre + [e])
                        qstates.append((pre + [e], len(g1)))
        if len(nxt) > cap:
            nxt = rng.sample(nxt, cap)
        frontier = nxt
        if level == depth - 1:
            break
    if len(qstates) > qcap:
        qstates = rng.sample(qstates, qcap)
    for pre, n in qstates:
        out.append((stream + '-views', dict(kind='hist', ops=pre0 + pre, queries=all_queries(n))))


class Sim(object):
    """generator-side bookkeeping (which nodes are free to insert) so that random histories are mostly admissible.
    Only steers generation; the Model decides admissibility."""

    def __init__(self):
        self.kind = []       # 'd' 'e' 't' 'f'
        self.kids = []
        self.doc = []
        self.text = []

    def new(self, kind, doc, text=None):
        self.kind.append(kind)
        self.kids.append([])
        self.doc.append(len(self.kind) - 1 if doc is None else doc)
        self.text.append(text)
        return len(self.kind) - 1

    def lister(self, x):
        for p, ks in enumerate(self.kids):
            if self.kind[p] in 'de' and x in ks:
                return p
        return None

    def ancestors(self, p):
        out = [p]
        while True:
            q = self.lister(out[-1])
            if q is None or q in out:
                return out
            out.append(q)

    def free(self, p, x):
        return (self.kind[x] in 'et' and self.doc[x] == self.doc[p] and self.lister(x) is None and x not in self.kids[p]
                and x not in self.ancestors(p))

    def items(self, c):
        return list(self.kids[c]) if self.kind[c] == 'f' else [c]

    def adm(self, p, c):
        its = self.items(c)
        return c != p and self.doc[c] == self.doc[p] and len(set(its)) == len(its) and all(self.free(p, x) for x in its)

    def clone(self, c):
        n = self.new(self.kind[c], self.doc[c], self.text[c])
        for x in list(self.kids[c]):
            self.kids[n].append(self.clone(x))
        return n

    def normalize(self, p):
        old = self.kids[p]
        self.kids[p] = []
        buf = []
        for x in old:
            if self.kind[x] == 't':
                buf.append(self.text[x])
                continue
            if buf:
                self.kids[p].append(self.new('t', self.doc[p], [c for s in buf for c in s]))
                buf = []
            self.kids[p].append(x)
            self.normalize(x)
        if buf:
            self.kids[p].append(self.new('t', self.doc[p], [c for s in buf for c in s]))


def rand_history(rng, nops, p_bad, two_docs, attrs):
    sim = Sim()
    ops = []

    def create(kind, doc, name=None):
        if kind == 'd':
            ops.append([CDOC])
            return sim.new('d', None)
        if kind == 'e':
            ops.append([CELEM, doc, name])
            return sim.new('e', doc)
        if kind == 't':
            s = [rng.choice([97, 98, 32, 233])] * rng.randint(0, 2)
            ops.append([CTEXT, doc, s])
            return sim.new('t', doc, s)
        ops.append([CFRAG, doc])
        return sim.new('f', doc)

    docs = [create('d', None)]
    if two_docs:
        docs.append(create('d', None))
    for d in docs:
        for i in range(rng.randint(2, 5)):
            create('e', d, rng.randint(0, 2))
        for i in range(rng.randint(1, 3)):
            create('t', d)
        for i in range(rng.randint(1, 2)):
            create('f', d)
    for _ in range(nops):
        n = len(sim.kind)
        recv = [i for i in range(n) if sim.kind[i] in 'ef' or (sim.kind[i] == 'd' and rng.random() < 0.3)]
        p = rng.choice(recv)
        bad = rng.random() < p_bad
        if rng.random() < 0.08:
            d = sim.doc[p]
            create(rng.choice('eetf'), d, rng.randint(0, 2))
            continue
        k = rng.choice([APPEND, APPEND, INSERT, INSERT, INSBEFORE, INSAFTER, REPLACE, REMOVE, POP, SETITEM, SETITEM, EXTEND, EXTLIST,
                        NORMALIZE, CLONE] + ([SETATTR] if attrs else []))
        cands = list(range(n)) if bad else [c for c in range(n) if sim.kind[c] != 'd' and sim.adm(p, c) and (sim.kind[c] != 'f' or sim.kids[c] or rng.random() < 0.3)]
        if bad and rng.random() < 0.7:
            cands = [c for c in cands if not (sim.kind[c] == 'f' and c == p and sim.kids[c])] or cands
        if k in (APPEND, INSERT, INSBEFORE, INSAFTER, REPLACE, SETITEM) and not cands:
            k = rng.choice([REMOVE, POP, NORMALIZE])
        ln = len(sim.kids[p])
        i = rng.choice([0, -1, 1, ln, ln - 1, -ln, -ln - 1, ln + 1, rng.randint(-3, 6)])
        ref = rng.choice(sim.kids[p]) if sim.kids[p] and rng.random() < 0.9 else rng.randrange(n)
        if k == APPEND:
            c = rng.choice(cands)
            ops.append([APPEND, p, c])
            if sim.adm(p, c):
                sim.kids[p] += sim.items(c)
        elif k == INSERT:
            c = rng.choice(cands)
            ops.append([INSERT, p, i, c])
            if sim.adm(p, c):
                j = max(i + ln, 0) if i < 0 else min(i, ln)
                sim.kids[p][j:j] = sim.items(c)
        elif k in (INSBEFORE, INSAFTER, REPLACE):
            c = rng.choice(cands)
            ops.append([k, p, c, ref])
            if sim.adm(p, c) and ref in sim.kids[p]:
                j = sim.kids[p].index(ref)
                if k == INSBEFORE:
                    sim.kids[p][j:j] = sim.items(c)
                elif k == INSAFTER:
                    sim.kids[p][j + 1:j + 1] = sim.items(c)
                else:
                    sim.kids[p][j:j + 1] = sim.items(c)
        elif k == REMOVE:
            ops.append([REMOVE, p, ref])
            if ref in sim.kids[p]:
                sim.kids[p].remove(ref)
        elif k == POP:
            ops.append([POP, p, i])
            if -ln <= i < ln:
                sim.kids[p].pop(i)
        elif k == SETITEM:
            c = rng.choice(cands)
            ops.append([SETITEM, p, i, c])
            if sim.adm(p, c) and -ln <= i < ln:
                j = i + ln if i < 0 else i
                sim.kids[p][j:j + 1] = sim.items(c)
        elif k == EXTEND:
            fr = [c for c in (range(n) if bad else cands) if sim.kind[c] in ('f' if not bad else 'fe')]
            if not fr:
                continue
            c = rng.choice(fr)
            if sim.kind[c] == 'f' and c == p and sim.kids[c] and rng.random() < 0.9:
                continue
            ops.append([EXTEND, p, c])
            if sim.kind[c] == 'f' and sim.adm(p, c):
                sim.kids[p] += sim.items(c)
        elif k == EXTLIST:
            cs = []
            for c in rng.sample(cands, min(len(cands), rng.randint(0, 3))):
                if sim.kind[c] != 'f' or bad:
                    cs.append(c)
            ops.append([EXTLIST, p, cs])
            if all(sim.kind[c] in 'et' and sim.free(p, c) for c in cs) and len(set(cs)) == len(cs):
                sim.kids[p] += cs
        elif k == NORMALIZE:
            ops.append([NORMALIZE, p])
            try:
                sim.normalize(p)
            except RecursionError:
                pass
        elif k == CLONE:
            c = rng.choice([x for x in range(n) if sim.kind[x] != 'd' or bad])
            ops.append([CLONE, c])
            if sim.kind[c] != 'd':
                try:
                    sim.clone(c)
                except RecursionError:
                    pass
        elif k == SETATTR:
            el = [x for x in range(n) if sim.kind[x] == 'e']
            vs = [c for c in range(n) if sim.kind[c] == 'f' and all(sim.lister(x) is None for x in sim.kids[c])] or \
                 [c for c in range(n) if sim.kind[c] == 'f']
            if el and vs:
                ops.append([SETATTR, rng.choice(el), rng.randint(0, 1), rng.choice(vs)])
    n = len(sim.kind)
    qs = []
    for x in rng.sample(range(n), min(n, 12)):
        qs.append([0, x])
    for x in rng.sample(range(n), min(n, 6)):
        qs.append([1, x])
        qs.append([2, x, rng.randint(0, 2)])
    for _ in range(24):
        qs.append([3, rng.randrange(n), rng.randrange(n)])
    return dict(kind='hist', ops=ops, queries=qs)


def attr_history(rng):
    """normalize on (and above) elements that hold fragments / elements in their attributes: holders that never had a
    child list, holders whose children were removed again, holders with children; runs of adjacent and empty text nodes
    inside the held fragments; nesting (a fragment in an attribute of an element inside an attribute-held fragment).
    Every node is used once, so the graph is a tree through child lists and attribute values."""
    ops = [[CDOC]]
    count = [1]

    def new(op):
        ops.append(op)
        count[0] += 1
        return count[0] - 1

    def elem():
        return new([CELEM, 0, rng.randint(0, 2)])

    def text():
        return new([CTEXT, 0, rng.choice([[], [97], [98], [32], [97, 98]])])

    def content(depth):
        items = []
        for _ in range(rng.randint(1, 5)):
            r = rng.random()
            if r < 0.65:
                items.append(text())
            elif r < 0.85 or depth <= 0:
                e = elem()
                for _ in range(rng.randint(0, 3)):
                    ops.append([APPEND, e, text()])
                items.append(e)
            else:
                items.append(holder(depth - 1))
        return items

    def frag(depth):
        f = new([CFRAG, 0])
        its = content(depth)
        if rng.random() < 0.3:
            ops.append([EXTLIST, f, its])
        else:
            for x in its:
                ops.append([APPEND, f, x])
        return f

    def holder(depth):
        e = elem()
        state = rng.choice(['never', 'never', 'removed', 'one', 'two', 'later'])
        if state == 'removed':
            ops.append([APPEND, e, elem()])
            ops.append([POP, e, -1])
        elif state == 'one':
            ops.append([APPEND, e, text()])
        elif state == 'two':
            ops.append([APPEND, e, text()])
            ops.append([APPEND, e, text()])
        for key in rng.sample([0, 1], rng.randint(1, 2)):
            if rng.random() < 0.8:
                v = frag(depth)
            else:
                v = elem()
                for _ in range(rng.randint(0, 3)):
                    ops.append([APPEND, v, text()])
            ops.append([SETATTR, e, key, v])
        if state == 'later':
            for x in content(0):
                ops.append([APPEND, e, x])
        return e

    top = holder(rng.randint(0, 2))
    for _ in range(rng.randint(0, 2)):
        parent = elem()
        before = content(0) if rng.random() < 0.5 else []
        for x in before:
            ops.append([APPEND, parent, x])
        ops.append([APPEND, parent, top])
        if rng.random() < 0.5:
            ops.append([APPEND, parent, text()])
        top = parent
    ops.append([NORMALIZE, top])
    r = rng.random()
    if r < 0.4:
        ops.append([NORMALIZE, top])
    elif r < 0.6:
        ops.append([CLONE, top])
    n = count[0]
    qs = []
    for x in rng.sample(range(n), min(n, 8)):
        qs.append([1, x])
        qs.append([2, x, rng.randint(0, 2)])
        qs.append([0, x])
    return dict(kind='hist', ops=ops, queries=qs)


HAND = [
    # the design-time probes and the shapes the statement names
    ('p[-1] = x', [[SETITEM, 1, -1, 5]]),
    ('p[5] = x', [[SETITEM, 1, 5, 5]]),
    ('insert(-1, fragment)', [[APPEND, 7, 5], [APPEND, 7, 6], [INSERT, 1, -1, 7]]),
    ('p[-1] = fragment', [[APPEND, 7, 5], [APPEND, 7, 6], [SETITEM, 1, -1, 7]]),
    ('insert after a removal at a shifted index', [[REMOVE, 1, 2], [INSERT, 1, 1, 5], [INSAFTER, 1, 2, 3]]),
    ('fragment into fragment', [[APPEND, 7, 5], [APPEND, 8, 6], [APPEND, 8, 7], [INSBEFORE, 1, 8, 3]]),
    ('insertBefore(a, a)', [[INSBEFORE, 1, 2, 2]]),
    ('fragment into itself', [[APPEND, 7, 5], [APPEND, 7, 7]]),
    ('node into itself, then normalize', [[APPEND, 5, 5], [NORMALIZE, 5]]),
    ('normalize merges', [[APPEND, 1, 9], [APPEND, 1, 10], [INSERT, 2, 0, 11], [NORMALIZE, 1], [NORMALIZE, 1]]),
    ('deep clone', [[APPEND, 2, 9], [CLONE, 1], [CLONE, 2]]),
    ('document as argument', [[APPEND, 1, 0]]),
    ('stale parentNode of a removed node leads back into its own tree',
     [[APPEND, 5, 6], [REMOVE, 5, 6], [APPEND, 6, 5], [APPEND, 5, 9], [APPEND, 5, 10], [APPEND, 5, 11]], [[3, 9, 11]]),
    ('deep order', [[APPEND, 2, 5], [APPEND, 5, 9], [APPEND, 5, 6], [APPEND, 5, 10], [APPEND, 3, 11]]),
    ('a fragment with a Document among its items put into itself: the endless walk ends with the AttributeError of the document',
     [[APPEND, 7, 5], [APPEND, 7, 0], [APPEND, 7, 7], [EXTEND, 7, 7], [INSERT, 7, 2, 7], [INSERT, 7, 0, 7]]),
     ('... with the document first', [[APPEND, 8, 0], [INSERT, 8, 0, 8], [SETITEM, 8, 0, 8], [SETITEM, 8, -1, 8], [APPEND, 8, 8]]),
    ('normalize reaches a fragment held in an attribute of an element that never had a child list',
     [[APPEND, 7, 9], [APPEND, 7, 10], [SETATTR, 5, 0, 7], [NORMALIZE, 5]]),
    ('... and from an ancestor, through a holder whose children were removed again, nested',
     [[APPEND, 8, 10], [APPEND, 8, 11], [SETATTR, 6, 1, 8], [APPEND, 7, 9], [APPEND, 7, 6], [SETATTR, 5, 0, 7],
      [APPEND, 5, 2], [POP, 5, -1], [APPEND, 4, 5], [NORMALIZE, 1], [NORMALIZE, 1]]),
]


def hand_cases():
    # n0 doc, n1 p, n2 a, n3 b, n4 c, n5 x, n6 y, n7 f, n8 g, n9 t, n10 u, n11 v
    pre = [[CDOC]] + [[CELEM, 0, i % 3] for i in range(6)] + [[CFRAG, 0], [CFRAG, 0]] + [[CTEXT, 0, [97 + i]] for i in range(3)]
    pre += [[APPEND, 1, 2], [APPEND, 1, 3], [APPEND, 1, 4]]
    return [dict(kind='hist', ops=pre + h[1], queries=h[2] if len(h) > 2 else all_queries(12)) for h in HAND]


def streams(rng, tier, boost):
    out = [('hand', c) for c in hand_cases()]
    thorough = tier != 'quick'
    # (a) exhaustive small scope, two pools
    pre_s, es, ts, fs = pool_ops(2, 1, 1)
    alpha_s = alphabet(es, ts, fs, [-2, -1, 0, 1, 2])
    explore(rng, [[CDOC]] + pre_s, alpha_s, (5 if thorough else 4) + (1 if boost > 1 and not thorough else 0), 4000 if thorough else 1500,
            'exhaustive-tiny', out, 3000 if thorough else 400)
    pre_m, em, tm, fm = pool_ops(3, 2, 1)
    alpha_m = alphabet(em, tm, fm, [-3, -1, 0, 1, 2, 4])
    # quick: every state after one operation and a sample of 250 of the states after two (all of them in the thorough tier)
    explore(rng, [[CDOC]] + pre_m, alpha_m, 4 if thorough else 3, 2500 if thorough else 250 * boost, 'exhaustive-small', out,
            1500 if thorough else 200)
    # (a') attribute-held fragments under normalize
    for i in range((150 if not thorough else 1500) * boost):
        out.append(('attr-normalize', attr_history(rng)))
    # (b) random histories
    n = (1200 if not thorough else 12000) * boost
    for i in range(n):
        out.append(('random', rand_history(rng, rng.choice([3, 6, 10, 20, 30, 40]), 0.02, rng.random() < 0.3, rng.random() < 0.3)))
    # (c) malformed
    for i in range((300 if not thorough else 3000) * boost):
        out.append(('malformed', rand_history(rng, rng.choice([2, 4, 8, 16]), 0.35, rng.random() < 0.5, rng.random() < 0.3)))
    return out


def search_streams(rng, tier):
    return [('search', rand_history(rng, rng.choice([3, 6, 10, 20]), 0.0, False, False)) for _ in range(4000)]


# ---- shrinking -----------------------------------------------------------------------------------------------

def shrink(case):
    if case['kind'] == 'fan':
        j = _FAN_BAD.get(json.dumps(case, sort_keys=True))
        if j is not None:
            yield dict(kind='hist', ops=case['pre'] + [case['exts'][j]], queries=[])
        else:
            for e in case['exts'][:40]:
                yield dict(kind='hist', ops=case['pre'] + [e], queries=[])
        return
    ops, qs = case['ops'], case['queries']
    if len(qs) > 1:
        for q in qs[:40]:
            yield dict(kind='hist', ops=ops, queries=[q])
    # drop one non-creation operation (creations keep the numbering stable); last ones first
    idx = [i for i, o in enumerate(ops) if o[0] > CFRAG]
    for i in reversed(idx):
        yield dict(kind='hist', ops=ops[:i] + ops[i + 1:], queries=qs)
