"""C16 -- Configuration values come from defaults, files and command line in that order.
Correspondence: plasTeX.client.main (real defaultConfig() + renderer sections, real ini files on disk, real argparse) with
plasTeX.client.run replaced by a function that captures the ConfigManager   vs   Model/Config.v at Gen/ConfigOptions.v."""
import configparser
import io
import os
import random

import core

ID = 'C16'
PINS = [('plasTeX/ConfigManager.py', 'ConfigOption'), ('plasTeX/ConfigManager.py', 'BooleanOption'),
        ('plasTeX/ConfigManager.py', 'MultiStringOption'), ('plasTeX/ConfigManager.py', 'DictOption'),
        ('plasTeX/ConfigManager.py', 'ConfigSection.__getitem__'), ('plasTeX/ConfigManager.py', 'ConfigSection.updateFromDict'),
        ('plasTeX/ConfigManager.py', 'ConfigManager.read'), ('plasTeX/ConfigManager.py', 'ConfigManager.updateFromDict'),
        ('plasTeX/ConfigManager.py', 'ConfigManager.registerArgparse'), ('plasTeX/ConfigManager.py', 'InterpolationWrapper'),
        ('plasTeX/client.py', 'main'), ('plasTeX/client.py', 'collect_renderer_config'), ('plasTeX/Config.py', 'defaultConfig')]
RULE = ('layerings over the shipped option table (every section, renderer sections included): each option independently absent or '
        'given a type-appropriate value in each of 0-3 ini files and on the command line (booleans yes/no true/false on/off 1/0 in '
        'any case in files, --x/--no-x flags; lists; dictionaries through unknown keys, key=value lists and --counter/--link/... '
        'occurrences; --opt=value and unique-prefix spellings; %(name)s and %% in string values); an exhaustive stream (one '
        'representative option per class x {absent, value A, value B}^(3 files + command line)); a malformed stream (odd ini '
        'syntax, odd booleans/numbers, quoting, unknown/ambiguous/incomplete options, broken and cyclic % references); a '
        'stream comparing the Model of shlex.split/int/float with the runtime. Non-trivial = an option receives a value from at '
        'least two sources, or a string value carries a % directive, or (malformed) the implementation does not simply succeed.')
TRUSTED = ['modelled, not verified (Model/Config.v follows their documented behaviour on the generated alphabet; compared with the '
           'runtime in the stdlib-model stream): int(), float() (decimal value only; the harness compares floats after correct '
           'rounding by the runtime), str.strip/lower/split on ASCII, shlex.split, "%"-formatting with %%, %(key)s, %(key)d, '
           'argparse (store/store_true/store_false/append with nargs None, 2, *, +, prefix abbreviations, --opt=value, one '
           'positional)',
           'configparser is used at the level of its parsed result: the harness runs the runtime\'s own '
           'ConfigParser(interpolation=None) on each generated file to obtain the sections/items given to the Model',
           'outcome Unmodelled of the Model (inf/nan, non-ASCII digits/blanks, %-directives other than %% %(k)s %(k)d, repr of '
           'floats/lists/dicts inside %(k)s, "--", glued short options) is not compared']
ASSUMPTIONS = ['floats are compared as numbers after correct rounding of the Model\'s decimal by the runtime (-0.0 = 0.0; inf/nan not modelled)',
               'ASCII blanks/digits only in generated values (a few non-ASCII letters appear in the malformed stream)',
               'nested % references at most 40 deep (deeper chains are reported as out of fuel, cyclic ones raise RecursionError)']
CASE_TIMEOUT = 20

_TABLE = None


def table():
    """[(section, [(key, name, flags, cls, default)])] from the source of $VERIF_REPO; when the translator no longer recognises the
    source (the check then reports the broken tie) the generators fall back to the table of the running implementation"""
    global _TABLE
    if _TABLE is None:
        from translate import config_options
        try:
            secs, _ = config_options.extract(core.REPO)
            _TABLE = config_options.table(secs)
        except Exception:
            _TABLE = runtime_table()
    return _TABLE


def runtime_table():
    import plasTeX.client as client
    from plasTeX import ConfigManager as CM
    from plasTeX.Config import defaultConfig
    config = defaultConfig()
    client.collect_renderer_config(config)
    out = []
    for sec in config:
        opts = []
        for key, o in config[sec].data.items():
            if isinstance(o, CM.DictOption):
                try:
                    probe = type(o).entryFromString('1')
                except Exception:
                    probe = ''
                ek = 'EKInt' if isinstance(probe, int) else 'EKFloat' if isinstance(probe, float) else 'EKStr'
                c = '(CDict %s %s)' % (ek, 'DLinks' if 'updateFromDict' in type(o).__dict__ else 'DPairs')
            else:
                c = {CM.StringOption: 'CStr', CM.IntegerOption: 'CInt', CM.FloatOption: 'CFloat', CM.BooleanOption: 'CBool',
                     CM.MultiStringOption: 'CMulti'}.get(type(o), 'CStr')
            opts.append((key, o.name, list(o.options), c, o.value))
        out.append((sec, opts))
    return out


def gen_tables(repo, gen_dir):
    from translate import config_options
    d = config_options.generate(repo, gen_dir, core.write_if_changed)
    # obligations re-proved against the regenerated table: C16_shipped_wf (in Properties/C16.v), counted there
    return dict(obligations=0, file='Gen/ConfigOptions.v', **d)


def options(tbl=None):
    out = []
    for sec, opts in (tbl if tbl is not None else table()):
        for key, name, flags, cls, default in opts:
            out.append(dict(sec=sec, key=key, name=name, flags=flags, cls=cls, default=default,
                            enables=[f for f in flags if not f.startswith('!')], disables=[f[1:] for f in flags if f.startswith('!')]))
    return out


# ---- generation -------------------------------------------------------------------------------------------

WORDS = ['a', 'b', 'xy', 'foo', 'Bar', 'x.css', 'dir/sub', 'v1_2', 'HTML5', 'q-r', '0', 'zz9']
TRUE_W = ['yes', 'true', 'on', '1']
FALSE_W = ['no', 'false', 'off', '0']


def rcase(rng, w):
    r = rng.random()
    if r < 0.5:
        return w
    if r < 0.7:
        return w.upper()
    if r < 0.85:
        return w.capitalize()
    return ''.join(c.upper() if rng.random() < 0.5 else c for c in w)


def word(rng):
    return rng.choice(WORDS)


def str_value(rng, interp=True):
    r = rng.random()
    if interp and r < 0.25:
        return rng.choice(['%(renderer)s', '%(theme)s-x', 'pre-%(split-level)s', '100%%', '%%(theme)s', '%(kpsewhich)s/%(renderer)s', '<%(base-url)s>',
                           '%(title)s|%(input-encoding)s', '%(breadcrumbs-level)d%%', '%(use-mathjax)s',
                           '%(split-level)d:%(xml)s', '%(bad-chars-sub)s%%%(toc-depth)s', 'a%%b%%'])
    if r < 0.4:
        return word(rng) + ' ' + word(rng)
    if r < 0.5:         # a blank followed by # or ; is part of the value (configparser has no inline comments by default)
        return rng.choice(['Issue #5 ; draft', 'a ;b', 'x # y', 'v1 ;', 'C# ; D', ': #$%%^&*!~`"\'=?/{}[]()|<>;\\,.'])
    return word(rng)


def int_value(rng):
    return rng.choice(['0', '1', '2', '7', '10', '-1', '-3', '+4', '007', '123456789', str(rng.randint(-10 ** 6, 10 ** 6)),
                       '-9223372036854775809', '18446744073709551616'])


def float_value(rng):
    return rng.choice(['0', '1', '1.5', '2.25', '-0.5', '.5', '3.', '1e3', '2.5E-2', '+1.25', '0.1', '10', '1e-7', '12345.678',
                       '%d.%d' % (rng.randint(0, 99), rng.randint(0, 999))])


def bool_word(rng, b):
    return rcase(rng, rng.choice(TRUE_W if b else FALSE_W))


def file_value(rng, o):
    """a type-appropriate right-hand side for a `key = value` line"""
    c = o['cls']
    if c == 'CStr':
        return str_value(rng)
    if c == 'CInt':
        return int_value(rng)
    if c == 'CFloat':
        return float_value(rng)
    if c == 'CBool':
        return bool_word(rng, rng.random() < 0.5)
    if c == 'CMulti':
        # words may be quoted (a blank inside a list entry) or carry an escaped blank: shell-like syntax, quotes are not part of the entry
        return ' '.join(rng.choice([word(rng), word(rng), '#' + word(rng), ';' + word(rng), '#', ';', '"%s %s"' % (word(rng), word(rng)),
                                    "'%s'" % word(rng), '%s\\ %s' % (word(rng), word(rng)), 'pre"%s x"' % word(rng), '""'])
                        for _ in range(rng.randint(0, 3))).strip()
    return ', '.join('%s%s=%s%s' % (rng.choice(['', ' ']), dkey(rng), rng.choice(['', ' ']), entry_value(rng, c)) for _ in range(rng.randint(1, 3)))


def dkey(rng):
    return rng.choice(['sec', 'fig', 'n1', 'up', 'next', 'alpha', 'k.l'])


def entry_value(rng, cls):
    if 'EKInt' in cls:
        return int_value(rng)
    if 'EKFloat' in cls:
        return float_value(rng)
    return rng.choice([word(rng), word(rng), word(rng) + ' #' + word(rng), word(rng) + ' ; ' + word(rng)])


def cmd_occurrences(rng, o, eqform=True, abbrev=None):
    """a list of token lists (occurrences of this option on the command line)"""
    c = o['cls']
    n = 1 if rng.random() < 0.75 else 2
    out = []
    for _ in range(n):
        if c == 'CBool':
            if o['disables'] and rng.random() < 0.5:
                out.append([rng.choice(o['disables'])])
            else:
                out.append([rng.choice(o['enables'])])
            continue
        flag = rng.choice(o['flags'])
        if abbrev and flag.startswith('--') and rng.random() < 0.15:
            flag = abbrev.get(flag, flag)
        if c in ('CStr', 'CInt', 'CFloat'):
            v = {'CStr': str_value, 'CInt': lambda r: int_value(r), 'CFloat': lambda r: float_value(r)}[c](rng)
            if eqform and flag.startswith('--') and rng.random() < 0.25:
                out.append([flag + '=' + v])
            elif not v.startswith('-') or c != 'CStr':
                out.append([flag, v])
        elif c == 'CMulti':
            out.append([flag] + [word(rng) for _ in range(rng.randint(0, 3))])
        elif 'DLinks' in c:
            out.append([flag] + [dkey(rng)] + [word(rng) for _ in range(rng.randint(1, 2))])
        else:
            out.append([flag, dkey(rng), entry_value(rng, c)])
    return out


_ABBREV = None


def abbreviations():
    """unique proper prefixes of the long option strings (argparse allow_abbrev)"""
    global _ABBREV
    if _ABBREV is None:
        allflags = ['--help', '--config']
        for o in options():
            allflags += [f for f in o['enables'] + o['disables'] if f.startswith('--')]
        _ABBREV = {}
        for f in allflags:
            for n in range(3, len(f)):
                p = f[:n]
                if sum(1 for g in allflags if g.startswith(p)) == 1:
                    _ABBREV[f] = p
                    break
    return _ABBREV


def print_ini(secs, rng=None):
    lines = []
    for sec, items in secs:
        lines.append('[%s]' % sec)
        for k, v in items:
            d = rng.choice(['=', ' = ', ': ', '=  ']) if rng else ' = '
            lines.append('%s%s%s' % (k, d, v))
        lines.append('')
    return '\n'.join(lines)


def gen_layer(rng, density=None, tbl=None):
    """a mostly-valid layering: files (0-3) and a command line, each option independently present or absent"""
    opts = options(tbl)
    abbr = abbreviations() if tbl is None else {}
    nfiles = rng.choice([0, 1, 1, 2, 2, 3, 3])
    p = density if density is not None else rng.choice([0.03, 0.08, 0.15, 0.3])
    focus = rng.sample(opts, min(len(opts), rng.randint(1, 4)))       # these get a higher presence probability: layering on the same option
    files = []
    for i in range(nfiles):
        secs = {}
        order = []
        for o in opts:
            pp = 0.6 if o in focus else p
            if rng.random() < pp:
                if o['sec'] not in secs:
                    secs[o['sec']] = []
                    order.append(o['sec'])
                secs[o['sec']].append((o['key'], file_value(rng, o)))
            if 'CDict' in o['cls'] and rng.random() < (0.5 if o in focus else p):
                if o['sec'] not in secs:
                    secs[o['sec']] = []
                    order.append(o['sec'])
                for _ in range(rng.randint(1, 2)):
                    k = dkey(rng)
                    if k not in [x for x, _ in secs[o['sec']]]:
                        secs[o['sec']].append((k, entry_value(rng, o['cls'])))
        if rng.random() < 0.2:          # a section plasTeX does not know (say, of a plugin): skipped, the rest of the file still counts
            secs['plugin-x'] = [('level', word(rng)), ('theme', word(rng))][:rng.randint(0, 2)]
            order.append('plugin-x')
        rng.shuffle(order)
        for s in order:
            rng.shuffle(secs[s])
        files.append(['f%d.ini' % i, dict(text=print_ini([(s, secs[s]) for s in order], rng))])
    occs = []
    for i, (name, _) in enumerate(files):
        occs.append([rng.choice(['-c', '--config']), name] if rng.random() < 0.8 else ['--config=' + name])
    if rng.random() < 0.1:
        occs.append(['-c', 'absent.ini'])
    rng.shuffle(occs) if rng.random() < 0.3 else None
    cmd = []
    for o in opts:
        pp = 0.5 if o in focus else p
        if rng.random() < pp:
            cmd += cmd_occurrences(rng, o, abbrev=abbr)
    rng.shuffle(cmd)
    occs = occs + cmd if rng.random() < 0.7 else cmd + occs
    # the positional: anywhere it cannot be swallowed by a greedy option
    greedy = set()
    for o in opts:
        if o['cls'] == 'CMulti' or 'DLinks' in o['cls']:
            greedy |= set(o['flags'])
    pos = [0] + [i + 1 for i, oc in enumerate(occs) if not (oc[0] in greedy or any(oc[0] == a for a in abbr.values()))]
    at = rng.choice(pos)
    occs = occs[:at] + [['doc.tex']] + occs[at:]
    case = dict(kind='layer', files=files, argv=[t for oc in occs for t in oc])
    if tbl is not None:
        case['table'] = tbl
    return case


SYN_KEYS = ['alpha', 'beta', 'gamma', 'up', 'level', 'name', 'k.l', 'theme']
SYN_CLS = ['CStr', 'CStr', 'CInt', 'CFloat', 'CBool', 'CBool', 'CMulti', '(CDict EKStr DPairs)', '(CDict EKInt DPairs)', '(CDict EKFloat DPairs)',
           '(CDict EKStr DLinks)']


def gen_table(rng):
    """a small synthetic option table: dictionary options anywhere in a section (also two of them), the same key in several
    sections, non-empty list defaults, string defaults with references"""
    tbl = []
    n = 0
    for si in range(rng.randint(1, 3)):
        keys = rng.sample(SYN_KEYS, rng.randint(1, 4))
        opts = []
        for k in keys:
            n += 1
            c = rng.choice(SYN_CLS)
            flags = ['--o%d' % n] + (['-%s' % 'xyzuvw'[n % 6]] if rng.random() < 0.15 and n <= 6 else [])
            if c == 'CBool' and rng.random() < 0.6:
                flags.append('!--no-o%d' % n)
            if c == 'CStr':
                d = rng.choice(['', 'dflt', 'd %%', '%(alpha)s', '%(level)s/%(name)s', 'x%(up)sx'])
            elif c == 'CInt':
                d = rng.choice([0, 1, -2, 10])
            elif c == 'CFloat':
                d = rng.choice([0.0, 1.0, 2.5, -0.125])
            elif c == 'CBool':
                d = rng.random() < 0.5
            elif c == 'CMulti':
                d = rng.choice([[], [], ['d0'], ['d0', '%(name)s']])
            else:
                d = {}
            opts.append((k, flags[0].lstrip('-'), flags, c, d))
        tbl.append(('s%d' % si, opts))
    return tbl


def gen_synthetic(rng):
    tbl = gen_table(rng)
    c = gen_layer(rng, density=rng.choice([0.3, 0.5, 0.8]), tbl=tbl)
    # references to the synthetic keys instead of the shipped ones
    def ren(t):
        return (t.replace('%(renderer)s', '%(alpha)s').replace('%(theme)s', '%(theme)s').replace('%(split-level)', '%(level)')
                .replace('%(kpsewhich)s', '%(name)s').replace('%(base-url)s', '%(up)s').replace('%(title)s', '%(beta)s'))
    c['argv'] = [ren(t) for t in c['argv']]
    c['files'] = [[n, dict(text=ren(f['text']))] for n, f in c['files']]
    return c


REFERRERS = [('general', 'theme', 'x-%(renderer)s'), ('document', 'title', '%(theme)s|%(split-level)s'), ('html5', 'theme-css', '%(kpsewhich)s.css'),
             ('general', 'kpsewhich', '%(renderer)s/kp'), ('document', 'base-url', 'http://h/%(split-level)d/%(xml)s'), ('images', 'imager', '%(imager)s'),
             ('files', 'filename', '%(title)s-$num'), ('html5', 'mathjax-url', '<%(base-url)s>%%'), ('images', 'compiler', '%(toc-depth)s:%(theme-css)s')]
REFERRED = [('general', 'renderer', 'CStr'), ('files', 'split-level', 'CInt'), ('general', 'kpsewhich', 'CStr'), ('general', 'xml', 'CBool'),
            ('general', 'theme', 'CStr'), ('document', 'title', 'CStr'), ('images', 'base-url', 'CStr'), ('document', 'toc-depth', 'CInt'),
            ('html5', 'theme-css', 'CStr')]
LIST_REFERRERS = [('html5', 'extra-css', ['%(theme)s.css', 'lvl%(split-level)d.css']), ('general', 'plugins', ['%(renderer)s', 'p'])]


def gen_history(rng):
    """the public API step by step: options that refer to other options are set, everything is read back, the options referred to are
    changed by a later file / a command line / an assignment, everything is read back again (several rounds, several sections)"""
    byk = {(o['sec'], o['key']): o for o in options()}
    files = []
    ops = []

    def change(sec, key, value):
        """one step that gives (sec, key) the value `value` (a string as written in a file / on the command line)"""
        o = byk[(sec, key)]
        how = rng.choice(['file', 'cmd', 'assign'])
        if o['cls'] == 'CBool':
            b = value
            if how == 'cmd' and (b or o['disables']):
                return [['main', ['doc.tex', (o['enables'] if b else o['disables'])[0]]]]
            if how == 'assign':
                return [['assign', sec, key, bool(b)]]
            value = bool_word(rng, b)
            how = 'file'
        if how == 'file' or (how == 'cmd' and str(value).startswith('-') and o['cls'] == 'CStr'):
            name = 'h%d.ini' % len(files)
            files.append([name, dict(text=print_ini([(sec, [(key, value)])]))])
            return [['read', name]] if rng.random() < 0.5 else [['main', ['-c', name, 'doc.tex']]]
        if how == 'cmd':
            return [['main', ['doc.tex', o['flags'][0], str(value)]]]
        py = int(value) if o['cls'] == 'CInt' else float(value) if o['cls'] == 'CFloat' else value
        return [['assign', sec, key, py]]

    def new_value(cls):
        if cls == 'CInt':
            return rng.choice(['0', '1', '4', '7', '-1'])
        if cls == 'CBool':
            return rng.random() < 0.5
        return rng.choice(['XHTML', 'Epub', 'v2', 'w x', 'q%%', 'z'])

    if rng.random() < 0.3:
        ops.append(['observe'])
    for sec, key, tpl in rng.sample(REFERRERS, rng.randint(1, 4)):
        ops += change(sec, key, tpl)
    if rng.random() < 0.5:
        sec, key, l = rng.choice(LIST_REFERRERS)
        ops.append(['assign', sec, key, list(l)])
    ops.append(['observe'])
    for _ in range(rng.randint(1, 3)):
        for sec, key, cls in rng.sample(REFERRED, rng.randint(1, 3)):
            ops += change(sec, key, new_value(cls))
        if rng.random() < 0.3:
            noise = gen_layer(rng, density=0.03)
            for name, f in noise['files']:
                files.append(['n%d-%s' % (len(files), name), f])
                ops.append(['read', files[-1][0]])
        ops.append(['observe'])
    return dict(kind='history', files=files, ops=ops)


def gen_history_synthetic(rng):
    tbl = gen_table(rng)
    opts = options(tbl)
    files, ops = [], [['observe']]
    for _ in range(rng.randint(2, 5)):
        o = rng.choice(opts)
        c = o['cls']
        how = rng.choice(['file', 'assign', 'cmd'])
        if how == 'file' or 'CDict' in c:
            name = 'h%d.ini' % len(files)
            v = file_value(rng, o)
            for a, b in [('%(renderer)s', '%(alpha)s'), ('%(split-level)', '%(level)'), ('%(kpsewhich)s', '%(name)s'), ('%(base-url)s', '%(up)s'), ('%(title)s', '%(beta)s')]:
                v = v.replace(a, b)
            files.append([name, dict(text=print_ini([(o['sec'], [(o['key'], v)])]))])
            ops.append(['read', name])
        elif how == 'assign':
            v = {'CStr': lambda: rng.choice(['n1', '%(alpha)s-%(level)s', 'x%(name)sx', '%(theme)s', 'p%%']), 'CInt': lambda: rng.randint(-3, 9),
                 'CFloat': lambda: rng.choice([0.5, 2.0, -1.25]), 'CBool': lambda: rng.random() < 0.5,
                 'CMulti': lambda: rng.choice([[], ['%(alpha)s', 'b'], ['c']])}[c]()
            ops.append(['assign', o['sec'], o['key'], v])
        else:
            occ = cmd_occurrences(rng, o, eqform=False)
            if occ:
                ops.append(['main', ['doc.tex'] + [t.replace('%(renderer)s', '%(alpha)s').replace('%(split-level)', '%(level)') for t in occ[0]]])
        if rng.random() < 0.7:
            ops.append(['observe'])
    ops.append(['observe'])
    return dict(kind='history', files=files, ops=ops, table=tbl)


REPRESENTATIVES = [('general', 'theme'), ('files', 'split-level'), ('images', 'scale-factor'), ('general', 'xml'),
                   ('general', 'copy-theme-extras'), ('general', 'plugins'), ('counters', 'counters'), ('links', 'links'),
                   ('images', 'scales'), ('html5', 'use-mathjax'), ('document', 'base-url'), ('mathjax-macros', 'macros')]

AB = {'CStr': (['alpha', 'be ta'], [['alpha'], ['%(renderer)s']]), 'CInt': (['5', '-6'], [['5'], ['-6']]),
      'CFloat': (['1.5', '2e1'], [['1.5'], ['-.25']]), 'CMulti': (['p q', 'r'], [['p', 'q'], []])}


def gen_exhaustive(size=3):
    """one representative per option class; each of the 3 files and the command line: absent / value A / value B"""
    import itertools
    out = []
    byk = {(o['sec'], o['key']): o for o in options()}
    for sk in REPRESENTATIVES:
        o = byk.get(sk)
        if o is None:
            continue
        c = o['cls']
        if c == 'CBool':
            fv = ['Yes', 'off']
            cv = [[o['enables'][0]], [o['disables'][0]] if o['disables'] else [o['enables'][0], o['enables'][0]]]
        elif c in AB:
            fv = AB[c][0]
            cv = [[o['flags'][0]] + a for a in AB[c][1]]
        elif 'DLinks' in c:
            fv = ['up=u1, next = n1', 'up=u2']
            cv = [[o['flags'][0], 'up', 'T'], [o['flags'][0], 'next', 'U', 'T2']]
        else:
            num = '2.5' if 'EKFloat' in c else '3'
            num2 = '1e1' if 'EKFloat' in c else '-4'
            if 'EKStr' in c:
                num, num2 = 'INFO', 'DEBUG'
            fv = ['up=%s, next = %s' % (num, num2), 'up=%s' % num2]
            cv = [[o['flags'][0], 'up', num], [o['flags'][0], 'fig', num2]]
        for combo in itertools.product([None, 0, 1], repeat=size + 1):
            files = []
            argv = []
            for i, ch in enumerate(combo[:size]):
                if ch is not None:
                    items = [(o['key'], fv[ch])]
                    if 'CDict' in c and ch == 1:
                        items = [('fig', fv[ch].split('=')[1])] + items     # an unknown key routed to the dictionary
                    files.append(['f%d.ini' % i, dict(text=print_ini([(o['sec'], items)]))])
                    argv += ['-c', 'f%d.ini' % i]
            argv += ['doc.tex']
            if combo[size] is not None:
                argv += cv[combo[size]]
            out.append(dict(kind='layer', files=files, argv=argv))
    return out


ODD_LINES = ['xml = maybe', 'xml =', 'xml', 'XML = no', 'Xml: Off', 'debug = 2', 'debug = YES ', 'log = nope', 'split-level = 1_000',
             'split-level = 0x10', 'split-level = 1.0', 'split-level = 5 ', 'split-level = --1', 'split-level = 1__0', 'split-level =',
             'scale-factor = inf', 'scale-factor = 1e', 'scale-factor = 1_0.5', 'scale-factor = 1._5', 'scale-factor = .', 'scale-factor = -1E+2',
             'scale-factor = nan', 'scale-factor = 1,5', 'plugins = "a b" c', "plugins = 'x", 'plugins = a\\ b \\', "plugins = a'b'\"c\"",
             'plugins = "q\\"r\\s"', 'plugins = a\n  b\n  c', 'extra-css = x.css  y.css', 'links = a', 'links = a=b,,', 'links = =x', 'links = a=b=c',
             'counters = a=x', 'counters = a=1, a=2', 'scales = fig=1.5, fig = 2', 'scales = x', 'theme = 100%', 'theme = %(x', 'theme = %(missing)s',
             'theme = %(theme)s', 'theme = %(renderer)s', 'renderer = %(theme)s', 'theme = %s', 'theme = %(split-level)d', 'theme = %(renderer)d',
             'theme = %(plugins)s', 'theme = %(scale-factor)s', 'theme = %(a(b)c)s', 'theme = %(renderer)', 'title = %(base-url)s|%(title', 'title = café €',
             'base-url = %(nothing)s', 'base-url = http://x/%%7e', 'filename = %(bad-chars)s', 'unknown-key = 1', 'foo = 7', 'foo = x', 'level = %(x)s',
             'theme = a = b', 'theme : c:d', 'title = <%(base-url)s>', 'base-url = %(title)s', 'title = %(theme)s/%(renderer)s', 'theme = %(kpsewhich)s',
             'kpsewhich = %(imager)s', 'imager = %(compiler)s', 'compiler = %(image-compiler)s', 'compiler = deep', 'theme-css = %(theme)s.css',
             'mathjax-url = %(base-url)s/mj.js', 'extra-css = %(theme-css)s.css b.css', 'extra-js = %(nokey)s', 'lang-terms = %(title)s %%', '; comment', '# other', 'kpsewhich = %(kpsewhich)s', 'imager = %(vector-imager)s %(imager)s']
ODD_SECTIONS = ['general', 'files', 'images', 'document', 'links', 'counters', 'logging', 'html5', 'mathjax-macros', 'DEFAULT', 'General', 'nosuch',
                'general', 'images']
ODD_ARGV = [['--xml=1'], ['--xml', 'x'], ['--no-xml'], ['--theme'], ['--theme', 'a', 'b'], ['--split-level', 'x'], ['--split-level', '-1'],
            ['--split-level=-2'], ['--split-level', '1_0'], ['--image-scale-factor', 'nan'], ['--image-scale-factor', '1e2'], ['--nosuch'], ['--co'],
            ['--dis'], ['--no'], ['--counter', 'a'], ['--counter', 'a', '1', '2'], ['--counter', 'a', 'x'], ['--counter=a'], ['--link', 'a'],
            ['--link', 'a', 'b', 'c', 'd'], ['--link'], ['--plugins'], ['--plugins=a', 'b'], ['-d', 'out'], ['-dout'], ['--dir=out'], ['--'], ['-'],
            ['-1'], ['-x'], ['extra.tex'], ['--help'], ['-h'], ['--conf', 'f0.ini'], ['-c'], ['--theme', '%(renderer)s'], ['--theme=%(nope)s'],
            ['--theme', '%'], ['--title', 'a b'], ['--title', ''], [''], ['--scales', 'fig', 'x'], ['--logging', 'a', 'b'], ['--mj-macros', 'R', '\\mathbb{R}'],
            ['--theme', 'café'], ['--image-base-url', '%(zz)s'], ['--base-url', 'http://h/%(title)s'], ['--title', '%(theme)s'], ['--extra-css', '%(theme)s.css', 'x'], ['--renderer', '%(theme)s', '--theme', '%(renderer)s'], ['--xml', '--debug'], ['--no-theme-extras', '--copy-theme-extras']]


def gen_malformed(rng):
    nfiles = rng.choice([0, 1, 1, 2, 3])
    files = []
    for i in range(nfiles):
        lines = []
        r = rng.random()
        if r < 0.08:
            lines.append(rng.choice(ODD_LINES))          # no section header
        for _ in range(rng.randint(1, 3)):
            sec = rng.choice(ODD_SECTIONS)
            lines.append('[%s]' % sec)
            for _ in range(rng.randint(0, 4)):
                lines.append(rng.choice(ODD_LINES))
        files.append(['f%d.ini' % i, dict(text='\n'.join(lines) + '\n')])
    argv = []
    for name, _ in files:
        argv += ['-c', name]
    parts = [rng.choice(ODD_ARGV) for _ in range(rng.choice([0, 1, 1, 2, 3]))]
    if rng.random() < 0.85:
        parts.insert(rng.randint(0, len(parts)), ['doc.tex'])
    for p in parts:
        argv += p
    return dict(kind='layer', files=files, argv=argv, malformed=True)


def gen_unit(rng):
    k = rng.choice(['shlex', 'int', 'float'])
    if k == 'shlex':
        alpha = ['a', 'b', ' ', ' ', '\t', '\n', '"', "'", '\\', 'x', '#', '\r', '=']
        s = ''.join(rng.choice(alpha) for _ in range(rng.randint(0, 9)))
    elif k == 'int':
        alpha = ['0', '1', '9', '_', '-', '+', ' ', 'x', '.', '\t', '5', '\x1f', '\x0b']
        s = ''.join(rng.choice(alpha) for _ in range(rng.randint(0, 6)))
    else:
        alpha = ['0', '1', '9', '_', '-', '+', ' ', 'e', 'E', '.', '.', '5', 'n', 'a', 'i', 'f', '\n']
        s = ''.join(rng.choice(alpha) for _ in range(rng.randint(0, 7)))
    return dict(kind=k, s=s)


def streams(rng, tier, boost):
    out = []
    for c in gen_exhaustive(3):
        out.append(('exhaustive', c))
    n = (1500 if tier == 'quick' else 60000) * boost
    for _ in range(n):
        out.append(('layering', gen_layer(rng)))
    for _ in range((1200 if tier == 'quick' else 30000) * boost):
        out.append(('synthetic-table', gen_synthetic(rng)))
    for _ in range((500 if tier == 'quick' else 12000) * boost):
        out.append(('history', gen_history(rng)))
    for _ in range((400 if tier == 'quick' else 8000) * boost):
        out.append(('history-synthetic', gen_history_synthetic(rng)))
    for _ in range((700 if tier == 'quick' else 25000) * boost):
        out.append(('malformed', gen_malformed(rng)))
    for _ in range((1500 if tier == 'quick' else 40000) * boost):
        out.append(('stdlib-model', gen_unit(rng)))
    return out


def search_streams(rng, tier):
    return [('search', gen_layer(rng, density=0.1)) for _ in range(2000)]


# ---- wire -------------------------------------------------------------------------------------------------

def parse_ini(text):
    """what ConfigManager.read obtains from the runtime's configparser for this text"""
    data = configparser.ConfigParser(interpolation=None)
    try:
        data.read_string(text)
    except configparser.Error:
        return [1]
    return [2, [[core.S(sec), [[core.S(k), core.S(v if v is not None else '')] for k, v in data.items(sec)]] for sec in data.sections()]]


def wire_op(op):
    if op[0] == 'observe':
        return [0]
    if op[0] == 'read':
        return [1, core.S(op[1])]
    if op[0] == 'main':
        return [2, [core.S(t) for t in op[1]]]
    return [3, core.S(op[1]), core.S(op[2]), wire_default(op[3])]


def model_input(case):
    if case['kind'] == 'history':
        fs = [[core.S(name), parse_ini(f['text'])] for name, f in case['files']]
        ops = [wire_op(op) for op in case['ops']]
        if case.get('table') is not None:
            return [6, wire_table(case['table']), fs, ops]
        return [5, fs, ops]
    if case['kind'] != 'layer':
        return [{'shlex': 2, 'int': 3, 'float': 4}[case['kind']], core.S(case['s'])]
    fs = [[core.S(name), parse_ini(f['text'])] for name, f in case['files']]
    if case.get('table') is not None:
        return [1, wire_table(case['table']), fs, [core.S(t) for t in case['argv']]]
    return [0, fs, [core.S(t) for t in case['argv']]]


def wire_cls(c):
    if c in ('CStr', 'CInt', 'CFloat', 'CBool', 'CMulti'):
        return [['CStr', 'CInt', 'CFloat', 'CBool', 'CMulti'].index(c)]
    return [5, ['EKStr', 'EKInt', 'EKFloat'].index(c.split()[1]), 1 if 'DLinks' in c else 0]


def wire_default(d):
    if isinstance(d, bool):
        return [3, 1 if d else 0]
    if isinstance(d, str):
        return [0, core.S(d)]
    if isinstance(d, int):
        return [1, d]
    if isinstance(d, float):
        from translate import config_options
        m, e = config_options.float_me(d)
        return [2, m, e]
    if isinstance(d, list):
        return [4, [core.S(x) for x in d]]
    return [5]


def wire_table(tbl):
    return [[core.S(sec), [[core.S(k), core.S(name), [core.S(f) for f in flags], wire_cls(c), wire_default(d)] for k, name, flags, c, d in opts]]
            for sec, opts in tbl]


def describe(case):
    if case['kind'] == 'history':
        s = 'history: ' + '; '.join({'observe': lambda o: 'read back every option', 'read': lambda o: 'config.read(%r)' % o[1],
                                     'main': lambda o: 'main(%r)' % (o[1],), 'assign': lambda o: 'config[%r][%r] = %r' % (o[1], o[2], o[3])}[op[0]](op)
                                    for op in case['ops'])
        if case.get('table') is not None:
            s = 'option table ' + repr(case['table']) + '\n' + s
        for name, f in case['files']:
            s += '\n--- %s ---\n%s' % (name, f['text'])
        return s
    if case['kind'] != 'layer':
        return '%s(%r)' % (case['kind'], case['s'])
    s = 'plastex ' + ' '.join(repr(t) for t in case['argv'])
    if case.get('table') is not None:
        s = 'option table ' + repr(case['table']) + '\n' + s
    for name, f in case['files']:
        s += '\n--- %s ---\n%s' % (name, f['text'])
    return s


# ---- implementation ---------------------------------------------------------------------------------------

_TMP = None
EXC = {'ValueError': 1, 'KeyError': 2, 'TypeError': 3, 'SystemExit': 4, 'ArgumentTypeError': 5}


_ORIG = {}
_DICT_CLASSES = {}


def build_config(tbl):
    """a ConfigManager for a synthetic table, built through the public API with plasTeX's own option classes"""
    from plasTeX import ConfigManager as CM
    config = CM.ConfigManager()
    for sec, opts in tbl:
        section = config.addSection(sec)
        for k, name, flags, c, d in opts:
            cls = {'CStr': CM.StringOption, 'CInt': CM.IntegerOption, 'CFloat': CM.FloatOption, 'CBool': CM.BooleanOption,
                   'CMulti': CM.MultiStringOption}.get(c) or _DICT_CLASSES[c]
            section[k] = cls('synthetic', ' '.join(flags), {} if isinstance(d, dict) else (list(d) if isinstance(d, list) else d))
    return config


def worker_init():
    import plasTeX.client as client
    from plasTeX.Config import defaultConfig
    _ORIG['defaultConfig'] = client.defaultConfig
    _ORIG['collect'] = client.collect_renderer_config
    cfg = defaultConfig()
    client.collect_renderer_config(cfg)
    # the dictionary option classes are local to defaultConfig(): take them from an instance
    for sec, key, c in [('logging', 'logging', '(CDict EKStr DPairs)'), ('counters', 'counters', '(CDict EKInt DPairs)'),
                        ('images', 'scales', '(CDict EKFloat DPairs)'), ('links', 'links', '(CDict EKStr DLinks)')]:
        _DICT_CLASSES[c] = type(cfg[sec].data[key])
    global _TMP
    import tempfile
    _TMP = tempfile.mkdtemp(prefix='c16-')
    os.chdir(_TMP)
    import atexit
    import shutil
    atexit.register(lambda: shutil.rmtree(_TMP, ignore_errors=True))


def enc_entry(v):
    if isinstance(v, str):
        return [0, core.S(v)]
    if isinstance(v, bool):
        return ['bool-entry', v]
    if isinstance(v, int):
        return [1, core.S(str(v))]
    if isinstance(v, float):
        return [2, repr(v + 0.0)]
    return ['entry', repr(v)]


def enc_value(v):
    if isinstance(v, str):
        return [0, core.S(v)]
    if isinstance(v, bool):
        return [3, 1 if v else 0]
    if isinstance(v, int):
        return [1, core.S(str(v))]
    if isinstance(v, float):
        return [2, repr(v + 0.0)]     # floats are compared as numbers: -0.0 is 0.0
    if isinstance(v, list) and all(isinstance(x, str) for x in v):
        return [4, [core.S(x) for x in v]]
    if isinstance(v, dict):
        return [5, [[core.S(k), enc_entry(e)] for k, e in v.items()]]
    return ['value', repr(v)]


def crash_of(e):
    import argparse
    if isinstance(e, argparse.ArgumentTypeError):
        return [-2, 5]
    if isinstance(e, configparser.Error):
        return [-2, 6]
    if isinstance(e, RecursionError):
        return [-3]
    k = EXC.get(type(e).__name__)
    if k is None and isinstance(e, ValueError):     # UnicodeError etc. are ValueErrors for the caller
        k = 1
    return [-2, k] if k else None


def observe_config(config):
    obs = []
    for sec in config:
        for key in config[sec].keys():
            try:
                obs.append([0, enc_value(config[sec][key])])
            except Exception as e:
                c = crash_of(e)
                if c is None:
                    raise
                obs.append(c)
    return [0, obs]


def run_history(case):
    import contextlib
    import plasTeX.client as client
    for f in os.listdir('.'):
        os.unlink(f)
    for name, f in case['files']:
        with open(name, 'w', encoding='utf8') as fh:
            fh.write(f['text'])
    if case.get('table') is not None:
        config = build_config(case['table'])
    else:
        config = _ORIG['defaultConfig']()
        _ORIG['collect'](config)
    client.run = lambda filename, cfg: None
    client.defaultConfig = lambda: config          # main() on the configuration as it is now
    client.collect_renderer_config = lambda cfg: None
    out = []
    sink = io.StringIO()
    for op in case['ops']:
        try:
            with contextlib.redirect_stdout(sink), contextlib.redirect_stderr(sink):
                if op[0] == 'observe':
                    out.append(observe_config(config)[1])
                elif op[0] == 'read':
                    config.read(op[1])
                elif op[0] == 'main':
                    client.main(list(op[1]))
                else:
                    v = op[3]
                    config[op[1]][op[2]] = list(v) if isinstance(v, list) else v
        except (Exception, SystemExit) as e:
            c = crash_of(e)
            if c is None:
                raise
            out.append(c)
            break
    return [0, out]


def run_impl(case):
    import contextlib
    if case['kind'] == 'history':
        return run_history(case)
    if case['kind'] == 'shlex':
        import shlex
        try:
            return [0, [core.S(x) for x in shlex.split(case['s'])]]
        except ValueError:
            return [-2, 1]
    if case['kind'] == 'int':
        try:
            return [0, core.S(str(int(case['s'])))]
        except ValueError:
            return [-2, 1]
    if case['kind'] == 'float':
        try:
            return [0, repr(float(case['s']) + 0.0)]
        except ValueError:
            return [-2, 1]
    import plasTeX.client as client
    for f in os.listdir('.'):
        os.unlink(f)
    for name, f in case['files']:
        with open(name, 'w', encoding='utf8') as fh:
            fh.write(f['text'])
    captured = []
    client.run = lambda filename, config: captured.append(config)
    if case.get('table') is not None:
        tbl = case['table']
        client.defaultConfig = lambda: build_config(tbl)
        client.collect_renderer_config = lambda config: None
    else:
        client.defaultConfig = _ORIG['defaultConfig']
        client.collect_renderer_config = _ORIG['collect']
    sink = io.StringIO()
    try:
        with contextlib.redirect_stdout(sink), contextlib.redirect_stderr(sink):
            client.main(list(case['argv']))
    except (Exception, SystemExit) as e:
        c = crash_of(e)
        if c is None:
            raise
        return c
    config = captured[0]
    obs = []
    for sec in config:
        for key in config[sec].keys():
            try:
                obs.append([0, enc_value(config[sec][key])])
            except Exception as e:
                c = crash_of(e)
                if c is None:
                    raise
                obs.append(c)
    return [0, obs]


# ---- judge -------------------------------------------------------------------------------------------------

def fl(m, e):
    try:
        return repr(float('%se%s' % (core.unS(m), core.unS(e))) + 0.0)
    except (ValueError, OverflowError):
        return 'float?'


def norm_model_entry(e):
    if isinstance(e, list) and len(e) == 3 and e[0] == 2:
        return [2, fl(e[1], e[2])]
    return e


def norm_model_value(v):
    """Model floats (mantissa, exponent) -> repr of the correctly rounded float"""
    if isinstance(v, list) and len(v) == 2 and v[0] == 0 and isinstance(v[1], list):
        w = v[1]
        if len(w) == 3 and w[0] == 2:
            return [0, [2, fl(w[1], w[2])]]
        if len(w) == 2 and w[0] == 5:
            return [0, [5, [[k, norm_model_entry(e)] for k, e in w[1]]]]
    return v


def option_index(case):
    return [(o['sec'], o['key'], o['cls']) for o in options(case.get('table'))]


def judge(case, io, mo):
    if case['kind'] == 'history':
        if not (isinstance(io, list) and isinstance(mo, list) and io[:1] == [0] and mo[:1] == [0]):
            return None if io == mo else dict(violation=False, key='C16:history:shape', expected=show(mo), what='implementation %s, Model %s' % (show(io), show(mo)))
        for n, (a, b) in enumerate(zip(io[1], mo[1])):
            if b == [-4]:
                return None            # a step the Model does not cover: nothing after it is compared
            wrap = lambda x: x if (x and isinstance(x[0], int)) else [0, x]     # an observation (list of per-option results) or an exception marker
            v = judge(dict(kind='layer', table=case.get('table')), wrap(a), wrap(b))
            if v is not None:
                v['what'] = 'observation %d of the history: %s' % (n + 1, v['what'].replace('layering of defaults, files and command line gives',
                                                                                               'the current values give'))
                v['key'] = v['key'].replace('C16:', 'C16:history:')
                return v
        if len(io[1]) != len(mo[1]):
            return dict(violation=True, key='C16:history:length', expected=None, what='the history stops at different steps: implementation %d observations, Model %d' % (len(io[1]), len(mo[1])))
        return None
    if case['kind'] != 'layer':
        if mo == [-4]:
            return None
        m = mo
        if case['kind'] == 'float' and isinstance(mo, list) and len(mo) == 2 and mo[0] == 0:
            m = [0, fl(mo[1][0], mo[1][1])]
        if io == m:
            return None
        return dict(violation=False, key='C16:stdlib-model:' + case['kind'], expected=m,
                    what='the Model of %s disagrees with the runtime on %r: runtime %s, Model %s' % (case['kind'], case['s'], io, m))
    if mo == [-4]:
        return None
    structured = not case.get('malformed')
    if isinstance(mo, list) and len(mo) == 2 and mo[0] == 0 and isinstance(io, list) and len(io) == 2 and io[0] == 0:
        idx = option_index(case)
        ml = [norm_model_value(x) for x in mo[1]]
        il = io[1]
        if len(ml) != len(il):
            return dict(violation=False, key='C16:option-count', expected=None, what='number of options differs: implementation %d, Model %d' % (len(il), len(ml)))
        for (sec, key, cls), a, b in zip(idx, il, ml):
            if b == [-4] or a == b:
                continue
            kind = 'value'
            if cls == 'CBool':
                kind = 'boolean'
            return dict(violation=structured, key='C16:%s:%s' % (kind, cls.split()[0].strip('(')), expected=b,
                        what='config[%r][%r]: implementation %s, layering of defaults, files and command line gives %s' % (sec, key, show(a), show(b)))
        return None
    if io == mo:
        return None
    return dict(violation=structured, key='C16:outcome', expected=show(mo), what='implementation %s, Model/Spec %s' % (show(io), show(mo)))


def show(v):
    try:
        if isinstance(v, list) and len(v) == 2 and v[0] == 0 and isinstance(v[1], list) and len(v[1]) > 6 and all(isinstance(x, list) for x in v[1]):
            return 'main() returns and the options can be read'
        if isinstance(v, list) and len(v) == 2 and v[0] == 0 and isinstance(v[1], list) and v[1] and isinstance(v[1][0], int):
            w = v[1]
            t = w[0]
            if t == 0:
                return repr(core.unS(w[1]))
            if t == 1:
                return core.unS(w[1])
            if t == 2:
                return w[1] if isinstance(w[1], str) else fl(w[1], w[2])
            if t == 3:
                return str(bool(w[1]))
            if t == 4:
                return repr([core.unS(x) for x in w[1]])
            if t == 5:
                return '{' + ', '.join('%r: %s' % (core.unS(k), show([0, e])) for k, e in w[1]) + '}'
        if isinstance(v, list) and v[:1] == [-2] and len(v) == 2:
            return 'raises ' + {1: 'ValueError', 2: 'KeyError', 3: 'TypeError', 4: 'SystemExit', 5: 'ArgumentTypeError', 6: 'configparser.Error'}.get(v[1], str(v[1]))
        if v == [-3]:
            return 'RecursionError / out of fuel'
    except Exception:
        pass
    s = repr(v)
    return s if len(s) < 300 else s[:300] + '...'


def sources_per_option(case):
    """how many sources (files, command line) mention an option string / key -- a cheap syntactic count"""
    counts = {}
    for name, f in case['files']:
        seen = set()
        for line in f['text'].split('\n'):
            k = line.split('=')[0].split(':')[0].strip().lower()
            if k and not k.startswith('['):
                seen.add(k)
        for k in seen:
            counts[k] = counts.get(k, 0) + 1
    flags = {}
    for o in options(case.get('table')):
        for f in o['enables'] + o['disables']:
            flags[f] = o['key']
    seen = set()
    for t in case['argv']:
        f = t.split('=')[0]
        if f in flags:
            seen.add(flags[f])
    for k in seen:
        counts[k] = counts.get(k, 0) + 1
    return counts


def nontrivial(case, io):
    if case['kind'] == 'history':
        return sum(1 for op in case['ops'] if op[0] == 'observe') >= 2 and any(op[0] != 'observe' for op in case['ops'])
    if case['kind'] != 'layer':
        return len(case['s']) >= 2
    if any(v >= 2 for v in sources_per_option(case).values()):
        return True
    if any('%' in f['text'] for _, f in case['files']) or any('%' in t for t in case['argv']):
        return True
    return not (isinstance(io, list) and io[:1] == [0])


def tags(case, io):
    if case['kind'] == 'history':
        t = ['history', 'history-read-backs=%d' % min(5, sum(1 for op in case['ops'] if op[0] == 'observe'))]
        t += sorted({'history-step:' + op[0] for op in case['ops']})
        if isinstance(io, list) and io[:1] == [0] and io[1] and io[1][-1][:1] == [-2]:
            t.append('history-stops-with-exception')
        return t
    if case['kind'] != 'layer':
        return ['unit:' + case['kind']]
    t = ['files=%d' % len(case['files'])]
    if isinstance(io, list) and io[:1] == [-2]:
        t.append('impl-raises:%s' % io[1])
    elif isinstance(io, list) and io[:1] == [0]:
        t.append('impl-ok')
        if any(isinstance(x, list) and x[:1] in ([-2], [-3]) for x in io[1]):
            t.append('get-raises')
    mx = max(list(sources_per_option(case).values()) + [0])
    t.append('max-sources-on-one-option=%d' % mx)
    return t


def shrink(case):
    if case['kind'] == 'history':
        ops = case['ops']
        used = {op[1] for op in ops if op[0] == 'read'} | {t for op in ops if op[0] == 'main' for t in op[1]}
        if any(name not in used for name, _ in case['files']):
            yield dict(case, files=[[n, f] for n, f in case['files'] if n in used])
        for i in range(len(ops)):
            yield dict(case, ops=ops[:i] + ops[i + 1:])
        for i, (name, f) in enumerate(case['files']):
            lines = f['text'].split('\n')
            for j in range(len(lines)):
                if lines[j].strip() and not lines[j].startswith('['):
                    yield dict(case, files=case['files'][:i] + [[name, dict(text='\n'.join(lines[:j] + lines[j + 1:]))]] + case['files'][i + 1:])
        return
    if case['kind'] != 'layer':
        s = case['s']
        for i in range(len(s)):
            yield dict(case, s=s[:i] + s[i + 1:])
        return
    files, argv = case['files'], case['argv']
    # drop a file together with its -c occurrence
    for i, (name, f) in enumerate(files):
        a = list(argv)
        for j in range(len(a) - 1):
            if a[j] in ('-c', '--config') and a[j + 1] == name:
                del a[j:j + 2]
                break
        else:
            a = [t for t in a if t != '--config=' + name]
        yield dict(case, files=files[:i] + files[i + 1:], argv=a)
    # drop one line of a file
    for i, (name, f) in enumerate(files):
        lines = f['text'].split('\n')
        for j in range(len(lines)):
            if lines[j].strip():
                t = '\n'.join(lines[:j] + lines[j + 1:])
                yield dict(case, files=files[:i] + [[name, dict(text=t)]] + files[i + 1:])
    # drop one option occurrence from the command line (a flag and the arguments after it)
    i = 0
    while i < len(argv):
        if argv[i].startswith('-') and argv[i] not in ('-c', '--config') and not argv[i].startswith('--config='):
            j = i + 1
            while j < len(argv) and not argv[j].startswith('-') and argv[j] != 'doc.tex':
                j += 1
            yield dict(case, argv=argv[:i] + argv[j:])
        i += 1
