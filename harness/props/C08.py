"""C08 -- Counters and automatic numbers follow LaTeX's numbering rules.
Correspondence: real plasTeX (document parsed from generated LaTeX source; node.ref.textContent in document order, final
counter values) vs Model/Counters.v; every case is also run through the Spec (Model/NumberingSpec.v = LaTeX's rules), and
a disagreement between the implementation and the Spec on a document the Spec speaks about is the violation."""
import itertools

ID = 'C08'
PINS = [('plasTeX/__init__.py', 'numToRoman'), ('plasTeX/__init__.py', 'Counter'), ('plasTeX/__init__.py', 'TheCounter.invoke'),
        ('plasTeX/__init__.py', 'Macro.preParse'), ('plasTeX/__init__.py', 'Macro.preArgument'), ('plasTeX/__init__.py', 'Macro.postArgument'),
        ('plasTeX/__init__.py', 'Macro.stepcounter'), ('plasTeX/__init__.py', 'Macro.refstepcounter'), ('plasTeX/__init__.py', 'Macro.postParse'),
        ('plasTeX/Context.py', 'Context.newcounter'), ('plasTeX/Context.py', 'Counters'),
        ('plasTeX/Base/LaTeX/Numbering.py', 'newcounter'), ('plasTeX/Base/LaTeX/Numbering.py', 'setcounter'),
        ('plasTeX/Base/LaTeX/Numbering.py', 'addtocounter'), ('plasTeX/Base/LaTeX/Numbering.py', 'stepcounter'),
        ('plasTeX/Base/LaTeX/Lists.py', 'List.invoke'), ('plasTeX/Base/LaTeX/Lists.py', 'List.item'),
        ('plasTeX/Base/LaTeX/Math.py', 'eqnarray'), ('plasTeX/Base/LaTeX/Math.py', 'nonumber'),
        ('plasTeX/Base/LaTeX/Floats.py', 'Caption'), ('plasTeX/Base/LaTeX/Definitions.py', 'newtheorem'),
        ('plasTeX/Base/LaTeX/Arrays.py', 'Array.EndRow')]
RULE = ('documents in the article and book classes built from an event grammar: sectioning commands of every level (starred or not) '
        'against a configured numbering depth of -1..6, equation, eqnarray rows with \\nonumber, eqnarray*, captions in figure/table and the '
        'starred floats figure*/table* (same counters), '
        '\\newtheorem (own counter, shared counter, numbered within any existing counter, starred) and the environments it makes, '
        '\\newcounter[within], \\setcounter/\\addtocounter/\\stepcounter on class and user counters, enumerate/itemize nesting with items, '
        '\\appendix, and \\arabic/\\roman/\\Roman/\\alph/\\Alph/\\the prints; a random structured stream, an exhaustive stream of all '
        'sequences over a small alphabet up to a length bound, all list shapes up to a size bound, a stream of documents LaTeX rejects but '
        'plasTeX accepts (judged against the Model only), a stream of lists nested 5-6 deep, and the exhaustive representation check of '
        'every value 0..4999 (Alph/alph -56..56); format strings handed to Context.newcounter and expanded by the real TheCounter.invoke: '
        'all strings of up to 3 (thorough: 4) tokens over {$ { } . blank zz alph thesection}, every ASCII code point inside ${..} and after '
        '$name, random token strings.  Non-trivial = at least four events (a representation in its range; a format containing $).')
TRUSTED = ['modelled, not verified: Python str(int) (the decimal conversion in the Model is proved to read back to the value), TeX argument '
           'parsing of the numbering macros (C05), string.ascii_letters; the regular-expression engine itself: the two passes of '
           'TheCounter.invoke are modelled as a deterministic scanner (Model/FormatParse.v, ASCII \\w and \\s) that is compared with the real '
           're.sub calls on every string over a small token alphabet, on every ASCII code point in both character-class positions and on '
           'random strings, and is proved to agree with the translator\'s Python-re parse of every shipped format string',
           'the Spec (Model/NumberingSpec.v) is a hand transcription of the LaTeX kernel / article.cls / book.cls rules; \\thepart and the '
           'decoration of enumerate labels are outside the property and fixed as plasTeX has them']
ASSUMPTIONS = ['in the Spec\'s domain user counter and theorem names consist of ASCII letters and are not LaTeX counter names (the Model itself '
               'takes any name: the format strings built from it go through the modelled scanner); format strings are ASCII',
               'numbering events occur at the top level of the document body or of a list item (sections only outside lists), one caption per float',
               'explicit operations on enumi..enumiv are considered only inside pure enumerate nesting on the counter of an open list; '
               '\\stepcounter on a list counter is outside the claim',
               'list nesting up to 4 (deeper, LaTeX-valid mixed nesting is the known finding C08-deep-lists)']
CASE_TIMEOUT = 20

SECS = ['part', 'chapter', 'section', 'subsection', 'subsubsection', 'paragraph', 'subparagraph', 'subsubparagraph']
REPRS = {'the': -1, 'arabic': 0, 'Roman': 1, 'roman': 2, 'Alph': 3, 'alph': 4, 'fnsymbol': 5}
KINDS = {0: 'section', 1: 'equation', 2: 'eqnarray-row', 3: 'caption', 4: 'theorem', 5: 'item', 6: 'print', 7: 'item'}
ENUMS = ['enumi', 'enumii', 'enumiii', 'enumiv']


def S(s):
    return [ord(c) for c in s]


def opt(s):
    return [] if s is None else [S(s)]


# ---- translation to LaTeX and to the wire -----------------------------------------------------------

def ev_source(e):
    k = e[0]
    if k == 'sec':
        return '\\%s%s{T}\n' % (e[1], '*' if e[2] else '')
    if k == 'eq':
        return '\\begin{equation}x=y\\end{equation}\n'
    if k == 'eqnarray':
        return '\\begin{eqnarray}' + '\\\\ '.join('a&=&b' + ('\\nonumber' if f else '') for f in e[1]) + '\\end{eqnarray}\n'
    if k == 'eqnarray*':
        return '\\begin{eqnarray*}a&=&b\\\\ c&=&d\\end{eqnarray*}\n'
    if k == 'cap':
        # e[2]: the starred (two-column) float: LaTeX numbers figure* / table* with the counters of figure / table
        env = ('table' if e[1] else 'figure') + ('*' if len(e) > 2 and e[2] else '')
        return '\\begin{%s}\\caption{C}\\end{%s}\n' % (env, env)
    if k == 'thm':
        return '\\begin{%s}t\\end{%s}\n' % (e[1], e[1])
    if k == 'newthm':
        _, nm, shared, within, starred = e
        return '\\newtheorem%s{%s}%s{Cap}%s\n' % ('*' if starred else '', nm, '[%s]' % shared if shared is not None else '',
                                                   '[%s]' % within if within is not None else '')
    if k == 'newcounter':
        return '\\newcounter{%s}%s\n' % (e[1], '[%s]' % e[2] if e[2] is not None else '')
    if k == 'set':
        return '\\setcounter{%s}{%d}\n' % (e[1], e[2])
    if k == 'addto':
        return '\\addtocounter{%s}{%d}\n' % (e[1], e[2])
    if k == 'step':
        return '\\stepcounter{%s}\n' % e[1]
    if k == 'begin':
        return '\\begin{%s}\n' % ('enumerate' if e[1] else 'itemize')
    if k == 'end':
        return '\\end{%s}\n' % ('enumerate' if e[1] else 'itemize')
    if k == 'item':
        return '\\item i\n'
    if k == 'appendix':
        return '\\appendix\n'
    if k == 'print':
        return '\\emph{\\the%s}\n' % e[2] if e[1] == 'the' else '\\emph{\\%s{%s}}\n' % (e[1], e[2])
    raise ValueError(e)


def source(case):
    return ('\\documentclass{%s}\n\\begin{document}\n' % ('article' if case['cls'] == 0 else 'book')
            + ''.join(ev_source(e) for e in case['events']) + '\\end{document}\n')


def describe(case):
    if case['kind'] == 'fmt':
        return "book, chapter=2 section=3 equation=12: context.newcounter('zz', format=%r, trimLeft=%r); zz=7; \\thezz" % (case['fmt'], bool(case['trim']))
    if case['kind'] == 'repr':
        return 'Counter(value=%d).%s' % (case['v'], case['r'])
    return 'sec-num-depth=%d\n%s' % (case['depth'], source(case))


def ev_wire(e):
    k = e[0]
    if k == 'sec':
        return [0, S(e[1]), 1 if e[2] else 0]
    if k == 'eq':
        return [1]
    if k == 'eqnarray':
        return [2, [1 if f else 0 for f in e[1]]]
    if k == 'eqnarray*':
        return [3]
    if k == 'cap':
        return [4, 1 if e[1] else 0]
    if k == 'thm':
        return [5, S(e[1])]
    if k == 'newthm':
        return [6, S(e[1]), opt(e[2]), opt(e[3]), 1 if e[4] else 0]
    if k == 'newcounter':
        return [7, S(e[1]), opt(e[2])]
    if k == 'set':
        return [8, S(e[1]), e[2]]
    if k == 'addto':
        return [9, S(e[1]), e[2]]
    if k == 'step':
        return [10, S(e[1])]
    if k == 'begin':
        return [11, 1 if e[1] else 0]
    if k == 'end':
        return [12]
    if k == 'item':
        return [13]
    if k == 'appendix':
        return [14]
    if k == 'print':
        return [15, REPRS[e[1]], S(e[2])]
    raise ValueError(e)


def model_input(case):
    if case['kind'] == 'fmt':
        return [101, 1 if case['trim'] else 0, S(case['fmt'])]
    if case['kind'] == 'repr':
        return [100, REPRS[case['r']], case['v']]
    return [case['cls'], case['depth'], [ev_wire(e) for e in case['events']]]


# ---- implementation side ----------------------------------------------------------------------------

def worker_init():
    import texrun
    texrun.quiet()


def _walk(node, out):
    for ch in node.childNodes:
        nm = ch.nodeName
        kind = None
        if nm in SECS:
            kind = 0
        elif nm == 'equation':
            kind = 1
        elif nm == 'ArrayRow':
            kind = 2
        elif nm == 'caption':
            kind = 3
        elif nm == 'thmenv':
            kind = 4
        elif nm == 'item':
            kind = 5
        elif nm == 'emph':
            out.append([6, [S(ch.textContent)]])
            continue
        if kind is not None:
            r = getattr(ch, 'ref', None)
            out.append([kind, [] if r is None else [S(r.textContent)]])
        if nm == 'eqnarray*':
            continue
        _walk(ch, out)


def run_impl(case):
    import plasTeX
    if case['kind'] == 'repr':
        c = plasTeX.Counter(type('C', (), {'counters': {}})(), 'x', None, case['v'])
        try:
            return [0, S(getattr(c, case['r']))]
        except IndexError:
            return [-2, 1]
        except AttributeError:
            return [-2, 2]
    import texrun
    from plasTeX.Base.LaTeX.Lists import List
    if case['kind'] == 'fmt':
        doc, tex = texrun.parse('\\documentclass{book}\\begin{document}\\setcounter{chapter}{2}\\setcounter{section}{3}'
                                '\\setcounter{equation}{12}\\end{document}')
        doc.context.newcounter('zz', format=case['fmt'], trimLeft=bool(case['trim']))
        doc.context.counters['zz'].setcounter(7)
        try:
            return [0, S(doc.createElement('thezz').expand(tex).textContent)]
        except IndexError:
            return [-2, 1]
        except (AttributeError, TypeError):
            # getattr(counter, attr) for an attr that is not one of the six string properties: AttributeError, or an
            # attribute that is not a string (value, name, a method ...) handed to re.sub: TypeError
            return [-2, 2]
        except RecursionError:
            return [-3]
    List.depth = 0      # class-level state that survives a document (C17's finding): start every case from the initial value
    depth = case['depth']

    def setup(doc, tex):
        doc.config['document']['sec-num-depth'] = depth
    try:
        doc, tex = texrun.parse(source(case), setup)
    except IndexError:
        return [-2, 1]
    except AttributeError:
        return [-2, 2]
    except RecursionError:
        return [-3]
    finally:
        ld = List.depth
        List.depth = 0
    out = []
    _walk(doc, out)
    fin = []
    for k, c in doc.context.counters.items():
        rb = c.resetby
        if rb is not None and not isinstance(rb, str):
            rb = getattr(rb, 'textContent', str(rb))
        fin.append([S(k), opt(rb if rb else None), int(c.value)])
    return [0, out, fin, ld]


# ---- judge ------------------------------------------------------------------------------------------

def unS(l):
    return ''.join(chr(c) for c in l)


def _show_out(o):
    return '%s:%s' % (KINDS.get(o[0], o[0]), unS(o[1][0]) if o[1] else '-')


def max_nesting(case):
    d = m = 0
    for e in case['events']:
        if e[0] == 'begin':
            d += 1
            m = max(m, d)
        elif e[0] == 'end':
            d -= 1
    return m


def spec_diff(io, so):
    """compare the implementation's observation with the Spec's; returns None or (key-suffix, text)"""
    if not (isinstance(io, list) and io[:1] == [0] and len(io) == 4):
        return 'raises', 'implementation %s; LaTeX numbers the document: %s' % (io, ' '.join(_show_out(o) for o in so[1]))
    iouts, souts = io[1], so[1]
    for i, s in enumerate(souts):
        if i >= len(iouts):
            return 'missing', 'numbered object %d (%s) not found in the document tree' % (i, _show_out(s))
        o = iouts[i]
        sk = 5 if s[0] == 7 else s[0]
        if o[0] != sk:
            return 'order', 'object %d is a %s, expected %s' % (i, KINDS.get(o[0]), KINDS.get(sk))
        if s[0] != 7 and o[1] != s[1]:
            return KINDS[sk], 'object %d: %s, LaTeX gives %s  (all: %s | LaTeX: %s)' % (
                i, _show_out(o), _show_out(s), ' '.join(_show_out(x) for x in iouts), ' '.join(_show_out(x) for x in souts))
    if len(iouts) != len(souts):
        return 'extra', 'more numbered nodes than objects'
    fin = {unS(n): v for n, _, v in io[2]}
    for n, v in so[2]:
        nm = unS(n)
        if nm in ENUMS:
            continue
        if fin.get(nm) != v:
            return 'final-' + nm, 'final value of counter %s is %s, LaTeX gives %d' % (nm, fin.get(nm), v)
    return None


def judge(case, io, mo):
    if case['kind'] != 'fmt' and not (isinstance(mo, list) and len(mo) == 2):
        return dict(violation=False, key='C08:model-bad-input', what='model rejected the case: %s' % (mo,))
    m, s = mo if case['kind'] != 'fmt' else (mo, None)
    if case['kind'] == 'fmt':
        if io == m or (m == [-3] and io[:1] == ['hang']):
            return None
        return dict(violation=False, key='C08:format-parse', what='\\thezz: implementation %s, Model %s' % (
            repr(unS(io[1])) if io[:1] == [0] else io, repr(unS(m[1])) if m[:1] == [0] else m))
    if case['kind'] == 'repr':
        if io == m:
            return None
        if s and io != [0, s[0]]:
            got = repr(unS(io[1])) if isinstance(io, list) and io[:1] == [0] else str(io)
            return dict(violation=True, key='C08:repr:' + case['r'], expected=unS(s[0]),
                        what='%s of %d is %s, standard: %r' % (case['r'], case['v'], got, unS(s[0])))
        return dict(violation=False, key='C08:repr-model', what='implementation %s model %s' % (io, m))
    if m == [-3] and io[:1] == ['hang']:
        io = [-3]
    if s:
        d = spec_diff(io, s)
        if d is not None and d[0].startswith('final-'):
            # every printed number is LaTeX's; only an end-of-document counter value differs: no numbered object carries a wrong
            # number in THIS document, so it is not reported as a violation (a document that prints the counter afterwards is)
            return dict(violation=False, key='C08:final-value', expected=d[1], what=d[1])
        if d is not None:
            if len(s) > 3 and s[3] == 0:
                # outside the domain of the proved (strict) theorem: one of the two recorded known findings
                key = 'C08:deep-lists' if max_nesting(case) > 4 else 'C08:appendix-chapter0'
            else:
                key = 'C08:numbering:' + d[0]
            return dict(violation=True, key=key, expected=' '.join(_show_out(o) for o in s[1]), what=d[1])
    if io == m:
        return None
    what = 'implementation and Model differ'
    if isinstance(io, list) and isinstance(m, list) and io[:1] == [0] and m[:1] == [0]:
        if io[1] != m[1]:
            what += ': numbers %s vs %s' % (' '.join(_show_out(o) for o in io[1]), ' '.join(_show_out(o) for o in m[1]))
        elif io[2] != m[2]:
            a = [(unS(n), unS(r[0]) if r else None, v) for n, r, v in io[2]]
            b = [(unS(n), unS(r[0]) if r else None, v) for n, r, v in m[2]]
            what += ': final counters %s vs %s' % ([x for x in a if x not in b], [x for x in b if x not in a])
        else:
            what += ': List.depth %s vs %s' % (io[3], m[3])
    else:
        what += ': %s vs %s' % (str(io)[:200], str(m)[:200])
    return dict(violation=False, key='C08:model-mismatch', what=what + (' (the Spec is silent on this document)' if not s else ''))


def nontrivial(case, io):
    if case['kind'] == 'fmt':
        return '$' in case['fmt']
    if case['kind'] == 'repr':
        return case['v'] >= 1
    return len(case['events']) >= 4


def tags(case, io):
    if case['kind'] == 'fmt':
        return ['fmt'] + (['impl-raises'] if isinstance(io, list) and io[:1] != [0] else [])
    if case['kind'] == 'repr':
        return ['repr:' + case['r']]
    t = ['class=' + ('article' if case['cls'] == 0 else 'book'), 'depth=%d' % case['depth'], 'nesting=%d' % max_nesting(case)]
    t += sorted({'ev:' + e[0] for e in case['events']})
    if any(e[0] == 'sec' and e[2] for e in case['events']):
        t.append('ev:sec*')
    if any(e[0] == 'eqnarray' and any(e[1]) for e in case['events']):
        t.append('ev:nonumber')
    if any(e[0] == 'newthm' and e[3] for e in case['events']):
        t.append('ev:newthm-within')
    if any(e[0] == 'cap' and len(e) > 2 and e[2] for e in case['events']):
        t.append('ev:cap-starred-float')
    if any(e[0] == 'newthm' and e[2] for e in case['events']):
        t.append('ev:newthm-shared')
    if isinstance(io, list) and io[:1] != [0]:
        t.append('impl-raises')
    return t


# ---- generators -------------------------------------------------------------------------------------

THM_NAMES = ['thm', 'lem', 'cor', 'prop', 'defn', 'theorem', 'lemma', 'rem', 'thesis', 'claim']
CNT_NAMES = ['cnta', 'cntb', 'foo', 'bar', 'theory', 'thing']


class Gen:
    """random well-formed document over the event grammar, tracking what LaTeX would accept"""

    def __init__(self, rng, cls, depth, size):
        self.rng, self.cls, self.depth, self.size = rng, cls, depth, size
        self.ev = []
        self.counters = ['part', 'section', 'subsection', 'subsubsection', 'paragraph', 'subparagraph', 'equation', 'figure', 'table']
        if cls == 1:
            self.counters.insert(1, 'chapter')
        self.user = []
        self.envs = []      # (name, numbered)
        self.stack = []
        self.appendix = False
        self.secs = ['section', 'subsection', 'subsubsection', 'paragraph', 'subparagraph'] + (['chapter'] if cls == 1 else [])
        self.level = 0

    def pick_counter(self, user_bias=0.3):
        r = self.rng
        if self.user and r.random() < user_bias:
            return r.choice(self.user)
        return r.choice(self.counters + self.user)

    def declare(self):
        r = self.rng
        free_t = [n for n in THM_NAMES if n not in [e[0] for e in self.envs] and n not in self.user]
        free_c = [n for n in CNT_NAMES if n not in self.user and n not in [e[0] for e in self.envs]]
        if free_t and r.random() < 0.7:
            nm = r.choice(free_t)
            x = r.random()
            numbered_envs = [e[0] for e in self.envs if e[1] == 'own']
            if x < 0.12:
                self.ev.append(['newthm', nm, None, None, True])
                self.envs.append((nm, 'star'))
            elif x < 0.4 and numbered_envs:
                self.ev.append(['newthm', nm, r.choice(numbered_envs), None, False])
                self.envs.append((nm, 'shared'))
            elif x < 0.75:
                w = r.choice([c for c in ['chapter', 'section', 'subsection', 'subsubsection', 'equation'] + self.user if c in self.counters + self.user])
                self.ev.append(['newthm', nm, None, w, False])
                self.envs.append((nm, 'own'))
                self.user.append(nm)
            else:
                self.ev.append(['newthm', nm, None, None, False])
                self.envs.append((nm, 'own'))
                self.user.append(nm)
        elif free_c:
            nm = r.choice(free_c)
            w = self.pick_counter(0.4) if r.random() < 0.6 else None
            if w in ENUMS:
                w = None
            self.ev.append(['newcounter', nm, w])
            self.user.append(nm)

    def one(self):
        r = self.rng
        x = r.random()
        top = not self.stack
        if x < 0.22 and top:
            if self.cls == 1 and r.random() < 0.25:
                s = 'chapter'
            else:
                s = r.choice(['section', 'section', 'subsection', 'subsection', 'subsubsection', 'paragraph', 'subparagraph'] + (['part'] if r.random() < 0.1 else []))
            self.ev.append(['sec', s, r.random() < 0.15])
        elif x < 0.30:
            self.ev.append(['eq'])
        elif x < 0.36:
            self.ev.append(['eqnarray', [r.random() < 0.3 for _ in range(r.randint(1, 4))]])
        elif x < 0.38:
            self.ev.append(['eqnarray*'])
        elif x < 0.45:
            self.ev.append(['cap', r.random() < 0.5, r.random() < 0.35])
        elif x < 0.58:
            if self.envs and r.random() < 0.8:
                self.ev.append(['thm', r.choice(self.envs)[0]])
            else:
                self.declare()
        elif x < 0.66:
            c = self.pick_counter()
            if len(self.stack) < 4 and r.random() < 0.12:
                c = ENUMS[r.randint(len(self.stack), 3)]      # a list counter no open list uses
            y = r.random()
            if c in ENUMS:
                y = y * 0.7
            if y < 0.4:
                self.ev.append(['set', c, r.choice([0, 1, 2, 3, 5, 7, 10])])
            elif y < 0.7:
                self.ev.append(['addto', c, r.choice([1, 2, 3, -1, 4])])
            else:
                self.ev.append(['step', c])
        elif x < 0.72:
            c = self.pick_counter(0.4)
            self.ev.append(['print', r.choice(['the', 'arabic', 'arabic', 'roman', 'Roman', 'alph', 'Alph']), c])
        elif x < 0.80:
            if len(self.stack) < 4:
                b = r.random() < 0.7
                self.stack.append(b)
                self.ev.append(['begin', b])
                self.ev.append(['item'])
        elif x < 0.90:
            if self.stack:
                self.ev.append(['item'])
                if all(self.stack) and r.random() < 0.12:
                    k = r.randint(1, len(self.stack))
                    self.ev.append(r.choice([['set', ENUMS[k - 1], r.choice([0, 3, 6])], ['addto', ENUMS[k - 1], r.choice([1, 2, -1])]]))
        elif x < 0.97:
            if self.stack:
                self.ev.append(['end', self.stack.pop()])
        elif top and not self.appendix and len(self.ev) > self.size // 3:
            self.appendix = True
            self.ev.append(['appendix'])
            self.ev.append(['sec', 'chapter' if self.cls == 1 else 'section', False])

    def run(self):
        r = self.rng
        if self.cls == 1 and r.random() < 0.75:
            self.ev.append(['sec', 'chapter', False])
        for _ in range(r.randint(0, 2)):
            self.declare()
        while len(self.ev) < self.size:
            self.one()
        while self.stack:
            self.ev.append(['end', self.stack.pop()])
        return dict(kind='doc', cls=self.cls, depth=self.depth, events=self.ev)


def rand_depth(rng, cls):
    return rng.choice([2, 2, 2, 3, 3, 1, 0, 4, 5, 6] + ([-1] if cls == 1 else []))


def small_alphabet(cls):
    a = [['sec', 'section', False], ['sec', 'section', True], ['sec', 'subsection', False], ['sec', 'subsubsection', False],
         ['eq'], ['thm', 'thm'], ['thm', 'lem'], ['set', 'section', 3], ['set', 'subsection', 2], ['step', 'section'], ['addto', 'thm', 2],
         ['cap', False], ['cap', True, True], ['cap', True], ['cap', False, True], ['appendix']]
    if cls == 1:
        a += [['sec', 'chapter', False], ['sec', 'chapter', True]]
    return a


def list_shapes(n):
    """all well-formed list event sequences with exactly n begin/item events, nesting <= 4, each list starting with an item"""
    out = []

    def go(seq, stack, left):
        if left == 0:
            out.append(seq + [['end', b] for b in reversed(stack)])
            return
        if stack:
            go(seq + [['item']], stack, left - 1)
            go(seq + [['end', stack[-1]]], stack[:-1], left)
        if len(stack) < 4 and left >= 2:
            for b in (True, False):
                go(seq + [['begin', b], ['item']], stack + [b], left - 2)
    go([], [], n)
    # drop sequences where an 'end' is immediately followed only by ends to avoid duplicates is unnecessary: dedupe by repr
    seen, res = set(), []
    for s in out:
        k = repr(s)
        if k not in seen:
            seen.add(k)
            res.append(s)
    return res


def malformed(rng):
    """documents LaTeX rejects (or that have no LaTeX meaning) but whose treatment by plasTeX is modelled"""
    cls = rng.choice([0, 1])
    g = Gen(rng, cls, rand_depth(rng, cls), rng.randint(3, 10))
    case = g.run()
    ev = case['events']
    for _ in range(rng.randint(1, 3)):
        x = rng.random()
        pos = rng.randint(0, len(ev))
        if x < 0.15:
            ev.insert(pos, ['step', rng.choice(['nosuch', 'volume', 'enumi', 'enumii'])])
        elif x < 0.3:
            ev.insert(pos, ['newthm', rng.choice(['zz', 'thm']), rng.choice(['nothere', 'section']), None, False])
            ev.insert(pos + 1, ['thm', ev[pos][1]])
        elif x < 0.4:
            ev.insert(pos, ['newcounter', rng.choice(['section', 'cyc', 'equation']), rng.choice([None, 'cyc', 'section'])])
        elif x < 0.5:
            ev.insert(pos, ['newcounter', 'cyca', 'cycb'])
            ev.insert(pos + 1, ['newcounter', 'cycb', 'cyca'])
            ev.insert(pos + 2, ['step', rng.choice(['cyca', 'cycb', 'section'])])
        elif x < 0.6:
            ev.insert(pos, ['print', rng.choice(['Alph', 'alph', 'Roman', 'fnsymbol']), rng.choice(['section', 'equation', 'nosuch'])])
        elif x < 0.7:
            ev.insert(pos, ['set', rng.choice(['section', 'chapter', 'equation', 'enumi']), rng.choice([-3, 0, 26, 27, 52, 53, 60])])
        elif x < 0.8:
            # lists left open at the end of the document
            while ev and ev[-1][0] == 'end':
                ev.pop()
        elif x < 0.9:
            ev.insert(pos, ['set', rng.choice(ENUMS), rng.randint(0, 5)])
        else:
            # names that are not \\w+ or not letters: the format built from them is parsed by the same two regular expressions
            nm = rng.choice(['my-thm', 'thm2', 'a_b', 'x.y', 'a b'])
            ev.insert(pos, ['newthm', nm, None, rng.choice([None, 'section', 'equation']), False])
            ev.insert(pos + 1, ['thm', nm])
            ev.insert(pos + 2, ['thm', nm])
    return case


def deep_lists(rng):
    cls = rng.choice([0, 1])
    n = rng.choice([5, 5, 6])
    kinds = [rng.random() < 0.5 for _ in range(n)]
    while sum(kinds) > 4 or n - sum(kinds) > 4:
        kinds = [rng.random() < 0.5 for _ in range(n)]
    ev = []
    for b in kinds:
        ev += [['begin', b], ['item']] + ([['item']] if rng.random() < 0.4 else [])
    for i, b in enumerate(reversed(kinds)):
        ev.append(['end', b])
        if i < n - 1 and rng.random() < 0.6:
            ev.append(['item'])
            if rng.random() < 0.3 and len(kinds) - i - 1 < 6:
                pass
    return dict(kind='doc', cls=cls, depth=2, events=ev)


def streams(rng, tier, boost):
    out = []
    quick = tier == 'quick'
    # structured random documents (first, so that the vm_compute cross-check of the extraction samples whole documents)
    for _ in range((700 if quick else 16000) * boost):
        cls = rng.choice([0, 1])
        out.append(('structured', Gen(rng, cls, rand_depth(rng, cls), rng.choice([6, 10, 16, 24, 40])).run()))
    # representations: exhaustive
    for r in ('arabic', 'Roman', 'roman'):
        for v in range(0, 5000):
            out.append(('repr-exhaustive', dict(kind='repr', r=r, v=v)))
        for v in (-1, -7, -1000, -3999, 5000, 10 ** 4, 123456):
            out.append(('repr-exhaustive', dict(kind='repr', r=r, v=v)))
    for r in ('Alph', 'alph'):
        for v in range(-56, 57):
            out.append(('repr-exhaustive', dict(kind='repr', r=r, v=v)))
    for v in range(0, 12):
        out.append(('repr-exhaustive', dict(kind='repr', r='fnsymbol', v=v)))
    # exhaustive small scope: every sequence over the small alphabet up to a length bound
    bound = (3 if quick else 4) + (1 if boost > 1 and quick else 0)
    pre = [['newthm', 'thm', None, 'section', False], ['newthm', 'lem', 'thm', None, False]]
    for cls in (0, 1):
        alpha = small_alphabet(cls)
        if bound >= 4:
            alpha = [a for a in alpha if a not in (['cap', False], ['cap', True], ['cap', False, True], ['sec', 'chapter', True], ['addto', 'thm', 2], ['set', 'subsection', 2])]
        for n in range(1, bound + 1):
            for seq in itertools.product(alpha, repeat=n):
                if sum(1 for e in seq if e[0] == 'appendix') > 1:
                    continue
                out.append(('exhaustive', dict(kind='doc', cls=cls, depth=2, events=pre + [list(e) for e in seq])))
    for n in range(2, (7 if quick else 9)):
        for shape in list_shapes(n):
            out.append(('exhaustive-lists', dict(kind='doc', cls=0, depth=2, events=shape)))
    for _ in range((250 if quick else 4000) * boost):
        out.append(('malformed', malformed(rng)))
    for _ in range((40 if quick else 300) * boost):
        out.append(('deep-lists', deep_lists(rng)))
    out += format_cases(rng, quick, boost)
    return out


def search_streams(rng, tier):
    out = []
    for _ in range(1500):
        cls = rng.choice([0, 1])
        out.append(('search', Gen(rng, cls, rand_depth(rng, cls), rng.choice([6, 10, 16])).run()))
    return out


def gen_tables(repo, gen_dir):
    from translate import counters
    d = counters.generate(repo, gen_dir)
    d['ignored'] = sorted(set(d['ignored']))
    # obligations re-proved against the regenerated table on every run (they are part of the closure of Properties/C08.v):
    # reset graph acyclic + keys unique for article, report, book (class_counters_wellformed); initial states of article and book
    # related to LaTeX's (init_sim: 16 boolean checks by vm_compute + the format correspondence of every \the macro)
    d['obligations'] = 7    # + class_formats_parse, class_thes_from_source (every shipped format string: Model scanner = Python re)
    return d


def _balanced(ev):
    d = 0
    for e in ev:
        if e[0] == 'begin':
            d += 1
        elif e[0] == 'end':
            d -= 1
            if d < 0:
                return False
    return d == 0


FMT_TOKENS = ['$', '{', '}', '.', ' ', '\t', 'zz', 'section', 'thesection', 'thechapter', 'thezz', 'x', 'Roman', 'roman', 'alph', 'arabic',
              'Alph', 'fnsymbol', 'bogus', 'value', '-', '0.', 'a', '${', '${zz}', '$zz', '_', '9']
FMT_SMALL = ['$', '{', '}', '.', ' ', 'zz', 'alph', 'thesection']


def format_cases(rng, quick, boost):
    out = []
    # exhaustive: every string of up to 3 (4) tokens of the small alphabet
    for n in range(0, (4 if quick else 5)):
        for t in itertools.product(FMT_SMALL, repeat=n):
            out.append(('format-exhaustive', dict(kind='fmt', fmt=''.join(t), trim=0)))
    # the character classes \\w and \\s, every ASCII code point (TeX-special characters excepted: they do not survive
    # textTokens/textContent unchanged and are not part of any format)
    for c in range(1, 128):
        ch = chr(c)
        if ch in '\\%#&~^_{}$\r\n' or c == 0:
            continue
        out.append(('format-exhaustive', dict(kind='fmt', fmt='${' + ch + 'zz}', trim=0)))
        out.append(('format-exhaustive', dict(kind='fmt', fmt='$z' + ch + '|${zz' + ch + '}', trim=0)))
    for _ in range((400 if quick else 6000) * boost):
        k = rng.randint(1, 9)
        out.append(('format-random', dict(kind='fmt', fmt=''.join(rng.choice(FMT_TOKENS) for _ in range(k)), trim=rng.randint(0, 1))))
    return out


def shrink(case):
    """delta-debugging order: drop large chunks first (keeping lists well nested), then single events, then simplify events"""
    if case['kind'] == 'fmt':
        f = case['fmt']
        for i in range(len(f)):
            yield dict(case, fmt=f[:i] + f[i + 1:])
        return
    if case['kind'] != 'doc':
        return
    ev = case['events']
    n = len(ev)
    bal = _balanced(ev)
    k = n // 2
    seen = set()
    while k >= 1:
        for i in range(0, n, k):
            cand = ev[:i] + ev[i + k:]
            key = repr(cand)
            if key in seen or (bal and not _balanced(cand)):
                continue
            seen.add(key)
            yield dict(case, events=cand)
        k //= 2
    # a list with its brackets only (keeping what is inside)
    stack = []
    for i, e in enumerate(ev):
        if e[0] == 'begin':
            stack.append(i)
        elif e[0] == 'end' and stack:
            a = stack.pop()
            inner = [x for x in ev[a + 1:i]]
            yield dict(case, events=ev[:a] + [x for x in inner if x[0] != 'item' or True] + ev[i + 1:])
    for i in range(n):
        e = ev[i]
        if e[0] == 'eqnarray' and len(e[1]) > 1:
            yield dict(case, events=ev[:i] + [['eqnarray', e[1][:-1]]] + ev[i + 1:])
            yield dict(case, events=ev[:i] + [['eqnarray', e[1][1:]]] + ev[i + 1:])
        if e[0] in ('set', 'addto') and abs(e[2]) > 1:
            yield dict(case, events=ev[:i] + [[e[0], e[1], 1]] + ev[i + 1:])
    if case['depth'] != 2:
        yield dict(case, depth=2)
