"""C04 -- grouping restores every local change and leaves the context stack balanced.
(a) API level: histories of push/pop/addLocal/addGlobal/let/catcode/... on a real plasTeX Context vs Model/Context.v,
    observing after every operation: len(contexts), lookups, get_let, whichCode, cells and a dump of every frame;
(b) program level: generated balanced LaTeX (groups, \\begingroup, environments, $..$, \\[..\\], tabular cells and rows, commands with
    arguments) with local/global definitions, \\let, \\catcode, \\makeatletter, \\newif, counters inside, compiled to the history the
    constructs stand for; observed through a logging probe macro and through the expansion of the defined macros themselves."""
import itertools

ID = 'C04'
PINS = [('plasTeX/Context.py', 'ContextItem.__getitem__'), ('plasTeX/Context.py', 'ContextItem.keys'),
        ('plasTeX/Context.py', 'Context.__init__'), ('plasTeX/Context.py', 'Context.__getitem__'),
        ('plasTeX/Context.py', 'Context.push'), ('plasTeX/Context.py', 'Context.pop'), ('plasTeX/Context.py', 'Context.mapMethods'),
        ('plasTeX/Context.py', 'Context.createContext'), ('plasTeX/Context.py', 'Context.addGlobal'),
        ('plasTeX/Context.py', 'Context.addLocal'), ('plasTeX/Context.py', 'Context.let'), ('plasTeX/Context.py', 'Context.get_let'),
        ('plasTeX/Context.py', 'Context.catcode'), ('plasTeX/Context.py', 'Context.setVerbatimCatcodes'),
        ('plasTeX/Context.py', 'Context.whichCode'), ('plasTeX/Context.py', 'Context.newif'), ('plasTeX/Context.py', 'Context.newcounter'),
        ('plasTeX/Context.py', 'Context.newdef'),
        ('plasTeX/Base/TeX/Text.py', 'bgroup.invoke'), ('plasTeX/Base/TeX/Text.py', 'egroup.invoke'),
        ('plasTeX/__init__.py', 'Macro.invoke'), ('plasTeX/__init__.py', 'Environment.invoke'),
        ('plasTeX/Base/TeX/Primitives.py', 'MathShift.invoke'), ('plasTeX/Base/TeX/Primitives.py', 'DefCommand.invoke'),
        ('plasTeX/Base/TeX/Primitives.py', 'let.invoke'), ('plasTeX/Base/TeX/Primitives.py', 'catcode.invoke'),
        ('plasTeX/Base/LaTeX/Math.py', 'BeginDisplayMath.invoke'), ('plasTeX/Base/LaTeX/Math.py', 'EndDisplayMath.invoke'),
        ('plasTeX/Base/LaTeX/Arrays.py', 'Array.invoke'), ('plasTeX/Base/LaTeX/Arrays.py', 'Array.CellDelimiter.invoke'),
        ('plasTeX/Base/LaTeX/Arrays.py', 'Array.EndRow.invoke'),
        ('plasTeX/Base/LaTeX/Environments.py', 'begin.invoke'), ('plasTeX/Base/LaTeX/Environments.py', 'end.invoke'),
        ('plasTeX/__init__.py', 'NewCommand.invoke'), ('plasTeX/Context.py', 'Context.newenvironment'),
        ('plasTeX/TeX.py', 'TeX.createSubProcess'), ('plasTeX/TeX.py', 'TeX.endSubProcess'), ('plasTeX/TeX.py', 'TeX.expandTokens')]
RULE = ('(a) API histories over 8 names x 2 characters x 5 object classes (environment begin/end pairs, a command pushed and popped by '
        'identity, \\foo/\\endfoo, a document-level environment, an environment with class-local macros, objects whose parentNode is '
        'another object): ALL sequences of length <= 6 (quick; 7 thorough) over a core alphabet of 8 operations and of length <= 4 over '
        'the full alphabet of 28 (each case = a prefix + the fan of all last operations, so one case stands for 8 resp. 28 histories, '
        'every one observed after every operation), random balanced histories '
        '(nested to depth 6, with unclosed inner groups closed by the enclosing object) and random unbalanced/malformed ones (pops '
        'without push, mismatched closers, category codes > 15); every history is observed after every operation. '
        '(b) balanced programs: nestings (depth <= 5) of {}, \\begingroup..\\endgroup, center/quote/itemize, $..$, $$..$$, \\[..\\], '
        'Command-class environments (sloppypar, sloppy) and environments unknown to plasTeX (samepage, qunknownenv), '
        'tabular cells and rows, \\newenvironment-defined environments (empty / non-empty begin and end code, with and without an '
        'argument), \\textbf/\\emph/\\mbox/\\footnote/\\underline arguments with \\def, \\gdef, \\newcommand, \\let, \\catcode, '
        '\\makeatletter/\\makeatother, \\newif, \\newcounter/\\setcounter, \\global\\def/\\global\\let, \\global in front of a '
        'non-definition (\\relax, \\footrue, \\setcounter) directly followed by a local \\def/\\let, and uses of the defined macros in '
        'between; all 13 local changes x 14 group kinds x 2 nestings exhaustively; plus environments closed over an unclosed group and '
        'groups closed over an unclosed environment. Non-trivial = the history has a group with a local change inside it and an observation after it closes.')
TRUSTED = ['program level: \\begin{x}/\\end{x} are run by the Model itself (begin_env / end_env: class lookup, kind of class, push/pop), for '
           'the other constructs the translation of a generated program into the operation history its constructs stand for '
           '(harness/props/C04.py compile_prog) is glue; only lookups, category codes, cells and the depth between top-level '
           'constructs are compared there, never the number of frames a construct uses internally',
           'modelled, not verified: Python object identity (`is`) as an integer id, type() as a class index, dict as association list; '
           'ContextItem.parent as "next frame down" (argued in Model/Context.v, exercised by the frame dumps)',
           'category-table algebra (which_code, set_catcode): Model/Tokenizer.v of C01, regenerated tables Gen/Catcodes.v']
ASSUMPTIONS = ['balanced histories do not push a document-level object inside a group (Context.push discards all frames then)',
               'program level, main streams: numbers end with \\relax, a blank, or directly at the next token (only a use of a defined '
               'macro is not placed directly after bare digits while BARE_NUMBER_BEFORE_MACRO_OK is False); a control sequence \\let to a character is not redefined '
               'while the alias is visible (the two excluded classes are generated in the prog-ext-* streams: known findings '
               'C04-number-lookahead, C04-redefine-char-let)']
CASE_TIMEOUT = 20

NAMES = ['qa', 'qb', 'ifqq', 'qqtrue', 'qqfalse', 'theqc', 'qz', 'ql']
CHARS = [64, 33]          # @ !
CELLS = [0, 1]            # 0: state of \ifqq   1: counter qc
# object classes: (nodeName, base, document level, class-local macros [(name index, value id)])
OTYPES = [('qenv', 'env', 0, []), ('qcmd', 'cmd', 0, []), ('endqenv', 'cmd', 0, []), ('qdoc', 'env', 1, []), ('qenvl', 'env', 0, [(0, 900)])]
NAPI = len(OTYPES)
# classes of the real constructs used at program level (only their identity/class/mode matters to Context.pop)
PKINDS = ['verbatim', 'center', 'quote', 'flushleft', 'sloppypar', 'sloppy', 'samepage', 'qunknownenv', 'itemize', 'math', 'displaymath', 'tabular', 'textbf', 'emph', 'mbox', 'footnote', 'underline',
          'ArgumentContext']
OTYPES = OTYPES + [(k, 'x', 0, []) for k in PKINDS]
PT = dict((k, NAPI + i) for i, k in enumerate(PKINDS))
PROBES = [list(range(len(NAMES))), CHARS, CELLS]


def gen_tables(repo, gen_dir):
    from translate import catcodes
    d = catcodes.generate(repo, gen_dir)
    return dict(obligations=0, file='Gen/Catcodes.v (shared with C01)', chain=d['chain'])


# ---- wire ---------------------------------------------------------------------------------------

def wire_obj(objs, oi):
    if oi < 0:
        return 0
    otype, mode, parent = objs[oi]
    nm, _, doc, locs = OTYPES[otype]
    return [oi + 1, otype, mode, [ord(c) for c in nm], (parent + 1) if parent >= 0 else -1, doc, [[k, [0, v]] for k, v in locs]]


def wire_op(objs, op):
    k = op[0]
    if k == 'push':
        return [0, wire_obj(objs, op[1])]
    if k == 'pop':
        return [1, wire_obj(objs, op[1])]
    if k == 'addl':
        return [2, op[1], [0, op[2]]]
    if k == 'addg':
        return [3, op[1], [0, op[2]]]
    if k == 'letm':
        return [4, op[1], op[2]]
    if k == 'gletm':
        return [12, op[1], op[2]]
    if k == 'glett':
        return [13, op[1], op[2]]
    if k == 'lett':
        return [5, op[1], op[2]]
    if k == 'cat':
        return [6, op[1], op[2]]
    if k == 'verb':
        return [7]
    if k == 'get':
        return [8, op[1]]
    if k == 'newif':
        return [9, 2, 3, 4, [0, op[1]], [0, op[1] + 1], [0, op[1] + 2], 0, 0]
    if k == 'newc':
        return [10, 1, 5, [0, op[1]], 0]
    if k == 'set':
        return [11, op[1], op[2]]
    if k == 'benv':     # \begin{x}: Model begin_env (name, kind of class, identity of the instance, nodeName, class-local macros)
        return [14, op[1], op[2], op[3] + 1, [ord(c) for c in op[4]], []]
    if k == 'eenv':     # \end{x}: Model end_env
        return [15, op[1], op[2], op[3] + 1, [ord(c) for c in op[4]]]
    raise ValueError(op)


def probes_for(ops):
    """the names / cells a history mentions (the observation is restricted to them, to keep it small)"""
    names = set([0, 1])
    cells = set()
    for o in ops:
        if o[0] in ('addl', 'addg', 'get', 'lett', 'glett'):
            names.add(o[1])
        elif o[0] in ('letm', 'gletm'):
            names.update(o[1:3])
        elif o[0] == 'newif':
            names.update([2, 3, 4])
            cells.add(0)
        elif o[0] == 'newc':
            names.add(5)
            cells.add(1)
        elif o[0] == 'set':
            cells.add(o[1])
    return [sorted(names), CHARS, sorted(cells)]


def model_input(case):
    if case['kind'] == 'api':
        fan = case.get('fan', [])
        return [probes_for(case['ops'] + fan), [wire_op(case['objs'], o) for o in case['ops']], case.get('dump', 1),
                [wire_op(case['objs'], o) for o in fan]]
    objs, ops, _ = compile_prog(case)
    return [probes_for(ops), [wire_op(objs, o) for o in ops], 0, []]


# ---- (a) implementation runner: a real Context ---------------------------------------------------

_CLASSES = []


class ApiRun(object):
    def __init__(self, objs, probes):
        import plasTeX
        from plasTeX.Context import Context
        from plasTeX import Environment, Command
        from plasTeX.DOM import Node
        self.plasTeX = plasTeX
        self.names = [NAMES[i] for i in probes[0]]
        self.chars = probes[1]
        self.cells = probes[2]
        self.ctx = Context()
        self.ctx.warnOnUnrecognized = False
        self.reg = {}
        self.keep = []
        self.ifclass = None
        if not _CLASSES:     # the object classes are created once per worker process (they are never modified)
            for nm, base, doc, locs in OTYPES[:NAPI]:
                d = {}
                if doc:
                    d['level'] = Node.DOCUMENT_LEVEL
                for k, v in locs:
                    d['loc%d' % k] = self.value(k, v)
                _CLASSES.append(type(nm, (Environment if base == 'env' else Command,), d))
        self.classes = _CLASSES
        self.objs = []
        for otype, mode, parent in objs:
            o = self.classes[otype]()
            o.macroMode = mode
            self.objs.append(o)
        for o, (otype, mode, parent) in zip(self.objs, objs):
            if parent >= 0:
                o.parentNode = self.objs[parent]
        self.objid = dict((id(o), i + 1) for i, o in enumerate(self.objs))

    def value(self, k, vid):
        cls = type(NAMES[k], (self.plasTeX.Command,), {'vid': vid})
        self.keep.append(cls)
        return cls

    def valz(self, cls):
        if cls is None:
            return -1
        v = getattr(cls, 'vid', None)
        if v is not None:
            return 2 * v
        if id(cls) in self.reg:
            return 2 * self.reg[id(cls)]
        if issubclass(cls, self.plasTeX.UnrecognizedMacro) and cls.__name__ in NAMES:
            return 2 * NAMES.index(cls.__name__) + 1
        return -7

    def register(self, pairs):
        b = self.ctx.contexts[0]
        for nm, vid in pairs:
            cls = dict.get(b, nm)
            if cls is not None and getattr(cls, 'vid', None) is None and id(cls) not in self.reg:
                self.reg[id(cls)] = vid
                self.keep.append(cls)

    def apply(self, op):
        from plasTeX.Tokenizer import EscapeSequence, Other
        ctx = self.ctx
        k = op[0]
        if k == 'push':
            ctx.push(self.objs[op[1]] if op[1] >= 0 else None)
        elif k == 'pop':
            ctx.pop(self.objs[op[1]] if op[1] >= 0 else None)
        elif k == 'addl':
            ctx.addLocal(NAMES[op[1]], self.value(op[1], op[2]))
        elif k == 'addg':
            ctx.addGlobal(NAMES[op[1]], self.value(op[1], op[2]))
        elif k == 'letm':
            ctx.let(EscapeSequence(NAMES[op[1]]), EscapeSequence(NAMES[op[2]]))
        elif k == 'lett':
            ctx.let(EscapeSequence(NAMES[op[1]]), Other(chr(op[2])))
        elif k == 'gletm':      # \global\let (Context.let(..., local=False), notes/C04/fix-1.diff)
            ctx.let(EscapeSequence(NAMES[op[1]]), EscapeSequence(NAMES[op[2]]), local=False)
        elif k == 'glett':
            ctx.let(EscapeSequence(NAMES[op[1]]), Other(chr(op[2])), local=False)
        elif k == 'cat':
            ctx.catcode(chr(op[1]), op[2])
        elif k == 'verb':
            ctx.setVerbatimCatcodes()
        elif k == 'get':
            ctx[NAMES[op[1]]]
        elif k == 'newif':
            before = dict.get(ctx.contexts[0], 'ifqq')
            ctx.newif('ifqq', False)
            after = dict.get(ctx.contexts[0], 'ifqq')
            if after is not before:
                self.ifclass = after
            self.register([('ifqq', op[1]), ('qqtrue', op[1] + 1), ('qqfalse', op[1] + 2)])
        elif k == 'newc':
            ctx.newcounter('qc')
            self.register([('theqc', op[1])])
        elif k == 'set':
            if op[1] == 0:
                self.ifclass.state = bool(op[2])       # IfTrue/IfFalse.invoke: self.ifclass.state = ...
            else:
                ctx.counters['qc'].setcounter(op[2])
        else:
            raise ValueError(op)

    def table_codes(self, cats):
        ctx = self.ctx
        saved = ctx.categories
        ctx.categories = cats
        try:
            return [ctx.whichCode(chr(c)) for c in self.chars]
        finally:
            ctx.categories = saved

    def observe(self, crashed, full=True):
        """flat: raised?, len(contexts), lookups, get_lets, whichCodes, cells [, frames top first]"""
        from plasTeX.Tokenizer import EscapeSequence
        ctx = self.ctx
        out = [1 if crashed else 0, len(ctx.contexts)]
        out += [self.valz(ctx.top.get(n)) for n in self.names]
        for n in self.names:
            tok = EscapeSequence(n)
            t = ctx.get_let(tok)
            out.append(-1 if t is tok else ord(t))
        out += [ctx.whichCode(chr(c)) for c in self.chars]
        if 0 in self.cells:
            out.append(-99 if self.ifclass is None else int(self.ifclass.state))
        if 1 in self.cells:
            c = dict.get(ctx.counters, 'qc')
            out.append(-99 if c is None else int(c.value))
        if full:
            frames = []
            for item in reversed(ctx.contexts):
                frames.append([self.objid.get(id(item.obj), -9) if item.obj is not None else -1]
                              + [self.valz(dict.get(item, n)) for n in self.names]
                              + [(-1 if item.lets.get(n) is None else ord(item.lets.get(n))) for n in self.names]
                              + self.table_codes(item.categories))
            out.append(frames)
        return out


def run_ops(r, ops, dump, out):
    n = len(ops)
    crashed = False
    for i, op in enumerate(ops):
        crashed = False
        try:
            r.apply(op)
        except IndexError:
            if op[0] != 'cat' or op[2] < 16:
                raise
            crashed = True
        if out is not None:
            out.append(r.observe(crashed, bool(dump) or i == n - 1))
    return crashed


def run_api(case):
    """observations: initial, after every operation of case['ops'], and -- for every operation f of case['fan'] -- after
    ops + [f] run on a fresh Context (the fan stands for len(fan) histories that share the prefix)"""
    fan = case.get('fan', [])
    probes = probes_for(case['ops'] + fan)
    r = ApiRun(case['objs'], probes)
    out = [r.observe(False)]
    run_ops(r, case['ops'], case.get('dump', 1), out)
    for f in fan:
        r = ApiRun(case['objs'], probes)
        run_ops(r, case['ops'], 0, None)
        crashed = run_ops(r, [f], 0, None)
        out.append(r.observe(crashed, False))
    return out


# ---- balanced? (the premise of the restoration clauses, decided on the history itself) -----------

def closes(objs, oi, pi):
    if oi == pi:
        return True
    ot, om, opar = objs[oi]
    pt, pm, ppar = objs[pi]
    if ppar == oi:
        return False
    return (pt == ot and pm == 2) or OTYPES[pt][0] == 'end' + OTYPES[ot][0]


def strictly_balanced(objs, ops):
    """every push is closed by its own pop, nothing is left open, no document-level push (Spec/Scope.v: Bal Strict, without the
    pop-through forms)"""
    st = []
    for op in ops:
        if op[0] == 'push':
            if op[1] >= 0 and OTYPES[objs[op[1]][0]][2]:
                return False
            st.append(op[1])
        elif op[0] == 'pop':
            if not st:
                return False
            o = st.pop()
            if (o < 0) != (op[1] < 0):
                return False
            if o >= 0 and not closes(objs, o, op[1]):
                return False
        elif op[0] == 'cat' and op[2] > 15:
            return False
    return not st


# ---- generators (a) -------------------------------------------------------------------------------

STD_OBJS = [[0, 1, -1], [0, 2, -1],      # 0,1: \begin{qenv} ... \end{qenv} (two instances of the class, begin / end mode)
            [1, 0, -1],                  # 2: \qcmd pushed and popped by identity
            [2, 0, -1],                  # 3: \endqenv (closes a qenv frame by name)
            [3, 1, -1],                  # 4: document-level environment
            [4, 1, -1], [4, 2, -1],      # 5,6: environment with class-local macro \qa, begin / end
            [0, 2, 0],                   # 7: an \end{qenv} object whose parentNode is object 0
            [1, 0, -1]]                  # 8: another \qcmd (never matches 2)


def core_alphabet():
    return [['push', -1], ['pop', -1], ['push', 0], ['pop', 1], ['addl', 0, None], ['addg', 0, None], ['letm', 1, 0], ['cat', 64, 11]]


def full_alphabet():
    return core_alphabet() + [['addl', 1, None], ['addg', 1, None], ['lett', 0, 120], ['lett', 0, 121], ['gletm', 1, 0], ['glett', 0, 122],
                              ['cat', 33, 13], ['cat', 64, 12], ['verb'],
                              ['get', 1], ['push', 2], ['pop', 2], ['pop', 3], ['push', 4], ['push', 5], ['pop', 6], ['pop', 7],
                              ['newif', None], ['newc', None], ['set', 1, 5]]


def number_ops(ops):
    """give every defining operation a fresh value id"""
    out = []
    for i, o in enumerate(ops):
        o = list(o)
        if o[0] in ('addl', 'addg'):
            o[2] = 10 + 3 * i
        elif o[0] in ('newif', 'newc'):
            o[1] = 10 + 3 * i
        out.append(o)
    return out


def rand_simple(rng, allow_if):
    r = rng.random()
    if r < 0.22:
        return ['addl', rng.choice([0, 0, 1]), None]
    if r < 0.36:
        return ['addg', rng.choice([0, 1, 1]), None]
    if r < 0.46:
        return ['letm', rng.choice([0, 1]), rng.choice([0, 1, 6])]
    if r < 0.50:
        return ['lett', rng.choice([0, 1]), rng.choice([120, 121])]
    if r < 0.52:
        return rng.choice([['gletm', rng.choice([0, 1]), rng.choice([0, 1, 6])], ['glett', rng.choice([0, 1]), rng.choice([122, 123])]])
    if r < 0.72:
        return ['cat', rng.choice(CHARS), rng.choice([11, 12, 13, 11, 12, 0, 14])]
    if r < 0.76:
        return ['verb']
    if r < 0.84:
        return ['get', rng.choice([0, 1, 6])]
    if r < 0.89:
        return ['newif', None]
    if r < 0.93:
        return ['newc', None]
    if r < 0.97 or not allow_if[0]:
        return ['set', 1, rng.randint(0, 9)]
    return ['set', 0, rng.randint(0, 1)]


def rand_balanced(rng, depth, objs, allow_if, loose):
    """a balanced history (Spec/Scope.v Bal): list of ops; fresh objects are appended to objs"""
    out = []
    for _ in range(rng.randint(0, 4)):
        r = rng.random()
        if depth > 0 and r < 0.45:
            kind = rng.random()
            if kind < 0.4:       # anonymous group; inside, objects may stay open (closed by the pop-through of pop(None))
                body = rand_balanced(rng, depth - 1, objs, allow_if, loose)
                if loose and rng.random() < 0.2:
                    t = rng.choice([0, 1, 4])
                    objs.append([t, rng.choice([0, 1]), -1])
                    body = body + [['push', len(objs) - 1]] + rand_balanced(rng, depth - 1, objs, allow_if, False)
                out += [['push', -1]] + body + [['pop', -1]]
            else:
                body = rand_balanced(rng, depth - 1, objs, allow_if, loose)
                if loose and rng.random() < 0.25:    # unclosed anonymous group(s) inside an object
                    body = body + [['push', -1]] + rand_balanced(rng, depth - 1, objs, allow_if, False)
                form = rng.choice(['env', 'env', 'envl', 'ident', 'endname'])
                if form == 'env':
                    objs.append([0, 1, -1])
                    objs.append([0, 2, -1])
                    o, p = len(objs) - 2, len(objs) - 1
                elif form == 'envl':
                    objs.append([4, 1, -1])
                    objs.append([4, 2, -1])
                    o, p = len(objs) - 2, len(objs) - 1
                elif form == 'ident':
                    objs.append([1, 0, -1])
                    o = p = len(objs) - 1
                else:
                    objs.append([0, rng.choice([0, 1]), -1])
                    objs.append([2, 0, -1])
                    o, p = len(objs) - 2, len(objs) - 1
                out += [['push', o]] + body + [['pop', p]]
        else:
            op = rand_simple(rng, allow_if)
            if op[0] == 'newif':
                allow_if[0] = True
            out.append(op)
    return out


def rand_malformed(rng):
    objs = [list(o) for o in STD_OBJS]
    alpha = full_alphabet() + [['cat', 64, 16], ['cat', 33, 20], ['pop', 8], ['push', 8], ['pop', 0], ['push', 1], ['push', 3]]
    n = rng.randint(1, 14)
    ops = []
    has_if = False
    for _ in range(n):
        o = rng.choice(alpha)
        if o[0] == 'newif':
            has_if = True
        ops.append(o)
        if has_if and rng.random() < 0.1:
            ops.append(['set', 0, rng.randint(0, 1)])
    return dict(kind='api', objs=objs, ops=number_ops(ops))


def exhaustive(alpha, n):
    for tup in itertools.product(range(len(alpha)), repeat=n):
        yield [alpha[i] for i in tup]


def fan_cases(alpha, n, std):
    """all sequences of length n over alpha, as |alpha|^(n-1) cases: a prefix of length n-1 and the fan of all last operations"""
    for ops in exhaustive(alpha, n - 1):
        allops = number_ops(ops + [list(alpha[0])])
        pre = allops[:-1]
        fan = [number_ops(ops + [list(a)])[-1] for a in alpha]
        yield dict(kind='api', objs=std, ops=pre, dump=0, fan=fan)


def streams(rng, tier, boost):
    out = []
    quick = tier == 'quick'
    ncore = 6 if quick else 7
    nfull = 4
    if boost > 1 and quick:
        ncore += 1
    std = [list(o) for o in STD_OBJS]
    for c in fan_cases(core_alphabet(), ncore, std):
        out.append(('api-exhaustive-core', c))
    for c in fan_cases(full_alphabet(), nfull, std):
        out.append(('api-exhaustive-full', c))
    for _ in range((3000 if quick else 30000) * boost):      # longer histories over the full alphabet, sampled
        alpha = full_alphabet()
        ops = [rng.choice(alpha) for _ in range(rng.randint(5, 10))]
        seen = False
        for i, o in enumerate(ops):
            if seen and rng.random() < 0.08:
                ops[i] = ['set', 0, rng.randint(0, 1)]
            elif o[0] == 'newif':
                seen = True
        out.append(('api-long-sample', dict(kind='api', objs=std, ops=number_ops(ops), dump=0)))
    for _ in range((4000 if quick else 40000) * boost):
        objs = []
        ops = rand_balanced(rng, rng.choice([2, 3, 4, 6]), objs, [False], True)
        if rng.random() < 0.7:      # the whole history inside one group: nothing local may survive
            ops = [['push', -1]] + ops + [['pop', -1]]
        out.append(('api-balanced', dict(kind='api', objs=objs, ops=number_ops(ops))))
    for _ in range((3000 if quick else 30000) * boost):
        out.append(('api-malformed', rand_malformed(rng)))
    for c in small_progs():
        out.append(('prog-exhaustive', c))
    for _ in range((1500 if quick else 12000) * boost):
        out.append(('prog-random', rand_prog(rng)))
    for _ in range((300 if quick else 2500) * boost):
        out.append(('prog-pop-through', rand_loose(rng)))
    for _ in range(40 if quick else 200):
        out.append(('prog-bare-number', rand_bare(rng)))
        if not BARE_NUMBER_BEFORE_MACRO_OK:
            out.append(('prog-ext-lookahead', rand_lookahead(rng)))
        out.append(('prog-ext-charlet', rand_charlet(rng)))
        out.append(('prog-global-prefix', rand_gprefix(rng)))
    return out


# ---- program level (b) ---------------------------------------------------------------------------
# item := ['def', k, vid] | ['gdef', k, vid] | ['newcommand', k, vid] | ['let', d, s] | ['lettok', d, ch]
#       | ['cat', ch, code, term] | ['atletter'] | ['atother'] | ['newif'] | ['iftrue'] | ['iffalse'] | ['newcounter'] | ['setcounter', z]
#       | ['use', k] | ['probe'] | ['grp', kind, body] | ['tabular', rows] | ['loose-env', env, before, inner] | ['loose-grp', env, before, inner]
#       | ['gprefix', 'def'|'let', ...]   (extended stream: \global\def, \global\let)
# environments: Environment subclasses; Command classes used with \\begin/\\end (sloppypar, sloppy: Macro.invoke's MODE_BEGIN branch
# pushes the context and leaves it open until \\end); names unknown to plasTeX (samepage, qunknownenv: an UnrecognizedMacro class is
# generated and takes the same branch).  \\begin{x} ... \\end{x} of any name is a group.
ENVS = ['center', 'quote', 'flushleft', 'sloppypar', 'sloppy', 'samepage', 'qunknownenv']
MACRO_ENVS = ['sloppypar', 'sloppy', 'samepage', 'qunknownenv']
MATHS = {'math': ('$', '$', 'math'), 'ddollar': ('$$', '$$', 'displaymath'), 'dmath': ('\\[', '\\]', 'displaymath')}
CMDS = ['textbf', 'emph', 'mbox', 'footnote', 'underline']


def print_items(items):
    return ''.join(print_item(i) for i in items)


def envdef(it, n):
    """\\newenvironment{qeN}[nargs]{begin code #1}{end code}"""
    return ('\\newenvironment{qe%s}%s{%s%s}{%s}' % (n, '[1]' if it[1] else '', print_items(it[2]), '#1' if it[1] else '', print_items(it[3])))


def number_envs(items, acc):
    """give every ['useenv', ...] item its environment name, in traversal order (stored as the last element of the item)"""
    for it in items:
        if it[0] == 'useenv':
            while len(it) < 8:
                it.append(None)
            it[7] = 'abcdefghijklmnopqrstuvwxyz'[len(acc) % 26] + 'abcdefghijklmnopqrstuvwxyz'[(len(acc) // 26) % 26]
            acc.append(it)
            for sub in (it[2], it[3], it[4], it[5]):
                number_envs(sub, acc)
        elif it[0] == 'grp':
            number_envs(it[2], acc)
        elif it[0] == 'tabular':
            for r in it[1]:
                for c in r:
                    number_envs(c, acc)
        elif it[0] in ('loose-env', 'loose-grp'):
            number_envs(it[2], acc)
            number_envs(it[3], acc)
    return acc


def print_item(it):
    k = it[0]
    if k in ('def', 'gdef', 'edef', 'xdef'):       # \edef is the local twin of \def, \xdef the global one of \gdef
        return '\\%s\\%s{\\logv{%d}}' % (k, NAMES[it[1]], it[2])
    if k == 'verbcmd':      # command form of the verbatim environment: \verbatim ... \endverbatim
        return '\\verbatim x%%y\\endverbatim '
    if k == 'newcommand':
        return '\\newcommand{\\%s}{\\logv{%d}}' % (NAMES[it[1]], it[2])
    if k == 'let':
        return '\\let\\%s\\%s ' % (NAMES[it[1]], NAMES[it[2]])
    if k == 'lettok':
        return '\\let\\%s=%s' % (NAMES[it[1]], chr(it[2]))
    if k == 'cat':
        return '\\catcode`\\%s=%d%s' % (chr(it[1]), it[2], {'relax': '\\relax ', '': '', ' ': ' '}[it[3]])
    if k == 'atletter':
        return '\\makeatletter '
    if k == 'atother':
        return '\\makeatother '
    if k == 'newif':
        return '\\newif\\ifqq '
    if k == 'iftrue':
        return '\\qqtrue '
    if k == 'iffalse':
        return '\\qqfalse '
    if k == 'newcounter':
        return '\\newcounter{qc}'
    if k == 'setcounter':
        return '\\setcounter{qc}{%d}' % it[1]
    if k == 'use':
        return '\\%s ' % NAMES[it[1]]
    if k == 'probe':
        return '\\probe '
    if k == 'gnondef':
        # \global in front of something that is not a definition: the prefix is used up by it (one shot) - whatever follows
        # directly (no character token in between) is an ordinary, local assignment
        return {'relax': '\\global\\relax', 'iftrue': '\\global\\qqtrue', 'iffalse': '\\global\\qqfalse',
                'setcounter': '\\global\\setcounter{qc}{%s}' % (it[2] if len(it) > 2 else 0)}[it[1]]
    if k == 'gprefix':
        if it[1] == 'def':
            return '\\global\\def\\%s{\\logv{%d}}' % (NAMES[it[2]], it[3])
        if it[1] == 'longdef':
            return '\\global\\long\\def\\%s{\\logv{%d}}' % (NAMES[it[2]], it[3])
        if it[1] == 'lettok':
            return '\\global\\let\\%s=%s' % (NAMES[it[2]], chr(it[3]))
        return '\\global\\let\\%s\\%s ' % (NAMES[it[2]], NAMES[it[3]])
    if k == 'useenv':
        # ['useenv', nargs, begin code, end code, argument, body, 'here'|'top', name]
        return ((envdef(it, it[7]) if it[6] == 'here' else '') + '\\begin{qe%s}' % it[7] + ('{' + print_items(it[4]) + '}' if it[1] else '')
                + print_items(it[5]) + '\\end{qe%s}' % it[7])
    if k == 'grp':
        kind, body = it[1], print_items(it[2])
        if kind == 'brace':
            return '{' + body + '}'
        if kind == 'begingroup':
            return '\\begingroup ' + body + '\\endgroup '
        if kind in ENVS:
            return '\\begin{%s}' % kind + body + '\\end{%s}' % kind
        if kind == 'itemize':
            return '\\begin{itemize}\\item ' + body + '\\end{itemize}'
        if kind in MATHS:
            return MATHS[kind][0] + body + MATHS[kind][1]
        if kind in CMDS:
            return '\\%s{' % kind + body + '}'
        raise ValueError(kind)
    if k == 'tabular':
        return '\\begin{tabular}{%s}' % ('l' * max(len(r) for r in it[1])) + ' \\\\ '.join(' & '.join(print_items(c) for c in row) for row in it[1]) + '\\end{tabular}'
    if k == 'loose-env':
        return '\\begin{%s}' % it[1] + print_items(it[2]) + '{' + print_items(it[3]) + '\\end{%s}' % it[1]
    if k == 'loose-grp':
        return '{' + print_items(it[2]) + '\\begin{%s}' % it[1] + print_items(it[3]) + '}'
    raise ValueError(it)


def source(case):
    import copy
    prog = copy.deepcopy(case['prog'])
    envs = number_envs(prog, [])
    return ''.join(envdef(it, it[7]) for it in envs if it[6] == 'top') + print_items(prog)


def compile_prog(case):
    """the history the constructs of the program stand for (in program order = TeX's order of execution), and the places where
    the program observes: marks = [('probe', obs index, top-level?) | ('use', obs index, k)]"""
    objs, ops, marks = [], [], []
    envno = [0]

    def newobj(kind, mode):
        objs.append([PT[kind], mode, -1])
        return len(objs) - 1

    def pair(kind, body, depth):
        o, p = newobj(kind, 1), newobj(kind, 2)
        ops.append(['push', o])
        body(depth + 1)
        ops.append(['pop', p])

    def envpair(kind, body, depth):
        # \begin{kind} ... \end{kind}: the Model's begin_env / end_env decide what is pushed and popped, from the kind of class
        # the name has (0 Environment subclass, 1 Command class or unknown name: Macro.invoke, 2 \newenvironment: NewCommand.invoke)
        o, p = newobj(kind, 1), newobj(kind, 2)
        ck = 1 if kind in MACRO_ENVS else 0
        ops.append(['benv', 100 + PT[kind], ck, o, kind])
        body(depth + 1)
        ops.append(['eenv', 100 + PT[kind], ck, p, kind])

    def items(l, depth):
        for it in l:
            item(it, depth)

    def item(it, depth):
        k = it[0]
        if k in ('def', 'edef'):
            ops.append(['addl', it[1], it[2]])
        elif k in ('gdef', 'xdef', 'newcommand'):
            ops.append(['addg', it[1], it[2]])
        elif k == 'verbcmd':       # VerbatimEnvironment.invoke: push(self); setVerbatimCatcodes(); read to \endverbatim; pop(self)
            o = newobj('verbatim', 0)
            ops.append(['push', o])
            ops.append(['verb'])
            ops.append(['pop', o])
        elif k == 'let':
            ops.append(['letm', it[1], it[2]])
        elif k == 'lettok':
            ops.append(['lett', it[1], it[2]])
        elif k == 'cat':
            ops.append(['cat', it[1], it[2]])
        elif k == 'atletter':
            ops.append(['cat', 64, 11])
        elif k == 'atother':
            ops.append(['cat', 64, 12])
        elif k == 'newif':
            ops.append(['newif', 800])
        elif k in ('iftrue', 'iffalse'):
            ops.append(['set', 0, 1 if k == 'iftrue' else 0])
        elif k == 'newcounter':
            ops.append(['newc', 810])
        elif k == 'setcounter':
            ops.append(['set', 1, it[1]])
        elif k == 'use':
            ops.append(['get', it[1]])
            marks.append(('use', len(ops), it[1]))
        elif k == 'probe':
            marks.append(('probe', len(ops), depth == 0))
        elif k == 'gnondef':       # the switch / counter is interpreter-wide anyway; \global\relax does nothing
            if it[1] in ('iftrue', 'iffalse'):
                ops.append(['set', 0, 1 if it[1] == 'iftrue' else 0])
            elif it[1] == 'setcounter':
                ops.append(['set', 1, it[2]])
        elif k == 'gprefix':       # what TeX does: a global definition / a global \let
            if it[1] in ('def', 'longdef'):
                ops.append(['addg', it[2], it[3]])
            elif it[1] == 'lettok':
                ops.append(['glett', it[2], it[3]])
            else:
                ops.append(['gletm', it[2], it[3]])
        elif k == 'useenv':
            # NewCommand.invoke: \begin{env} = arguments, a begin-group token, the begin code; \end{env} = the end code, an
            # end-group token: an anonymous group around begin code, body and end code
            envno[0] += 1
            ops.append(['benv', 200 + envno[0], 2, len(objs), 'qe'])
            items(it[2], depth + 1)
            if it[1]:
                items(it[4], depth + 1)
            items(it[5], depth + 1)
            items(it[3], depth + 1)
            ops.append(['eenv', 200 + envno[0], 2, len(objs), 'qe'])
        elif k == 'grp':
            kind = it[1]
            if kind in ('brace', 'begingroup'):
                ops.append(['push', -1])
                items(it[2], depth + 1)
                ops.append(['pop', -1])
            elif kind in ENVS or kind == 'itemize':
                envpair(kind, lambda d: items(it[2], d), depth)
            elif kind in MATHS:
                pair(MATHS[kind][2], lambda d: items(it[2], d), depth)
            else:               # \cmd{...}: push(self); argument expanded in a sub-process (push/pop ArgumentContext); pop(self)
                c, a = newobj(kind, 0), newobj('ArgumentContext', 0)
                ops.append(['push', c])
                ops.append(['push', a])
                items(it[2], depth + 1)
                ops.append(['pop', a])
                ops.append(['pop', c])
        elif k == 'tabular':
            def body(d):
                ops.append(['push', -1])            # first cell
                first = True
                for row in it[1]:
                    for j, cell in enumerate(row):
                        if not first:
                            ops.append(['pop', -1])     # & or \\ : pop(); push()
                            ops.append(['push', -1])
                        first = False
                        items(cell, d + 1)
            pair('tabular', body, depth)            # \end{tabular}: pop(self) closes the open cell and the table
        elif k == 'loose-env':
            o, p = newobj(it[1], 1), newobj(it[1], 2)
            ck = 1 if it[1] in MACRO_ENVS else 0
            ops.append(['benv', 100 + PT[it[1]], ck, o, it[1]])
            items(it[2], depth + 1)
            ops.append(['push', -1])
            items(it[3], depth + 2)
            ops.append(['eenv', 100 + PT[it[1]], ck, p, it[1]])
        elif k == 'loose-grp':
            o = newobj(it[1], 1)
            ops.append(['push', -1])
            items(it[2], depth + 1)
            ops.append(['benv', 100 + PT[it[1]], 1 if it[1] in MACRO_ENVS else 0, o, it[1]])
            items(it[3], depth + 2)
            ops.append(['pop', -1])
        else:
            raise ValueError(it)
    items(case['prog'], 0)
    return objs, ops, marks


PROG_NAMES = [0, 1, 6, 2, 5]      # names whose meaning a probe records: qa qb qz (value ids) ifqq theqc (defined or not)


def expected_events(case, mo):
    """what the lexical semantics (= the Model, by C04_balanced_lexical / C04_balanced_restores) says the program observes"""
    objs, ops, marks = compile_prog(case)
    probes = probes_for(ops)
    if not well_formed_obs(mo, len(ops) + 1):
        return None
    obs = [dec(x, probes) for x in mo]
    ni = dict((n, i) for i, n in enumerate(probes[0]))

    def raw(ob, k):
        return ob['look'][ni[k]] if k in ni else -1

    def val(ob, k):
        v = raw(ob, k)
        return v if k in (0, 1, 6) else (-1 if v == -1 else 0)

    def cell(ob, c):
        return ob['cells'][probes[2].index(c)] if c in probes[2] else -99
    out = []
    for m in marks:
        ob = obs[m[1]]
        if m[0] == 'use':
            v = raw(ob, m[2])
            if v >= 0 and v % 2 == 0 and m[2] in (0, 1, 6, 7):
                out.append(['v', v // 2])
        else:
            out.append(['p', (ob['depth'] - 1) if m[2] else -1] + [val(ob, k) for k in PROG_NAMES]
                       + [ob['lets'][ni[7]] if 7 in ni else -1] + ob['which'] + [cell(ob, 0), cell(ob, 1)])
    last = obs[-1]
    out.append(['end', last['depth'] - 1] + last['which'])
    return out


def run_prog(case):
    import re
    from plasTeX import Command, UnrecognizedMacro
    from plasTeX.TeX import TeX, TeXDocument
    from plasTeX.Tokenizer import EscapeSequence
    log = []
    objs, ops, marks = compile_prog(case)
    toplevel = [m[2] for m in marks if m[0] == 'probe']
    state = dict(n=0, d0=None)

    def valz(ctx, k):
        cls = ctx.top.get(NAMES[k])
        if cls is None:
            return -1
        if k not in (0, 1, 6):
            return 0
        if issubclass(cls, UnrecognizedMacro):
            return 2 * NAMES.index(cls.__name__) + 1 if cls.__name__ in NAMES else -7
        d = getattr(cls, 'definition', None)
        m = re.search(r'(\d+)', ''.join(str(t) for t in d)) if d is not None else None
        return 2 * int(m.group(1)) if m else -7

    class probe(Command):
        def invoke(self, tex):
            ctx = self.ownerDocument.context
            i = state['n']
            state['n'] += 1
            top = toplevel[i] if i < len(toplevel) else False
            tok = EscapeSequence('ql')
            t = ctx.get_let(tok)
            ifc = ctx.top.get('ifqq')
            cnt = dict.get(ctx.counters, 'qc')
            log.append(['p', (len(ctx.contexts) - state['d0']) if top else -1] + [valz(ctx, k) for k in PROG_NAMES]
                       + [-1 if t is tok else ord(t)] + [ctx.whichCode(chr(c)) for c in CHARS]
                       + [-99 if ifc is None else int(bool(getattr(ifc, 'state', False))), -99 if cnt is None else int(cnt.value)])
            return []

    class logv(Command):
        args = 'n:str'

        def invoke(self, tex):
            self.parse(tex)
            log.append(['v', int(self.attributes['n'])])
            return []

    doc = TeXDocument()
    tex = TeX(doc)
    tex.disableLogging()
    ctx = doc.context
    ctx.warnOnUnrecognized = False
    ctx['probe'] = probe
    ctx['logv'] = logv
    state['d0'] = len(ctx.contexts)
    tex.input(source(case))
    tex.parse()
    log.append(['end', len(ctx.contexts) - state['d0']] + [ctx.whichCode(chr(c)) for c in CHARS])
    return log


def run_impl(case):
    if case['kind'] == 'api':
        return run_api(case)
    return run_prog(case)


# ---- generators (b) -------------------------------------------------------------------------------

# how a number may end in the main streams: \relax, a blank (since /repo c654904 the reader only peeks at the token after the
# blank), or nothing at all - the digits directly followed by whatever comes next, e.g. the token that closes the group (since
# /repo 076499b readSequence leaves unexpandable tokens alone).
NUMBER_ENDS = ['relax', 'relax', ' ', '']
# Historical (repaired by /repo 9658874 = notes/C04/fix-3.diff): what was left of C04-number-lookahead on 076499b: digits directly followed by a *user macro* whose expansion
# yields nothing (\def\e{} or only macros that return no tokens) and then the closer - readSequence pulls the macro through the
# expanding iterator, which goes on to the closer.  Repaired by notes/C04/fix-3.diff (one-step expansion); set this to True once
# that is committed: the main streams then also put uses of defined macros directly after bare digits.
BARE_NUMBER_BEFORE_MACRO_OK = True


class PGen(object):
    def __init__(self, rng, maxdepth):
        self.rng = rng
        self.maxdepth = maxdepth
        self.vid = 0
        self.has_if = False
        self.has_counter = False
        self.alias = 0          # number of open scopes in which \ql is currently \let to a character
        self.bare = False       # the previous item (in execution order) is a \\catcode whose digits are not terminated

    def fresh(self):
        self.vid += 1
        return self.vid

    def simple(self, alias_ok):
        it = self.simple0(alias_ok)
        if self.bare and it[0] == 'use' and not BARE_NUMBER_BEFORE_MACRO_OK:
            it = ['probe']
        self.bare = it[0] == 'cat' and it[3] == ''
        return it

    def simple0(self, alias_ok):
        rng = self.rng
        r = rng.random()
        if r < 0.2:
            return [rng.choice(['def', 'def', 'edef']), rng.choice([0, 0, 1]), self.fresh()]
        if r < 0.3:
            return [rng.choice(['gdef', 'gdef', 'xdef']), rng.choice([0, 1, 1]), self.fresh()]
        if r < 0.34:
            return ['newcommand', rng.choice([0, 1]), self.fresh()]
        if r < 0.42:
            return ['let', rng.choice([0, 1]), rng.choice([0, 1, 6])]
        if r < 0.46 and alias_ok:
            return ['lettok', 7, rng.choice([120, 121])]
        if r < 0.56:
            return ['cat', rng.choice(CHARS), rng.choice([11, 12, 13]), rng.choice(NUMBER_ENDS)]
        if r < 0.62:
            return [rng.choice(['atletter', 'atother'])]
        if r < 0.66:
            self.has_if = True
            return ['newif']
        if r < 0.70 and self.has_if:
            return [rng.choice(['iftrue', 'iffalse'])]
        if r < 0.73:
            self.has_counter = True
            return ['newcounter']
        if r < 0.77 and self.has_counter:
            return ['setcounter', rng.randint(0, 9)]
        if r < 0.9:
            return ['use', rng.choice([0, 1, 1, 6])]
        if r < 0.93:
            return ['gnondef', 'relax']
        if r < 0.95 and getattr(self, 'verb_ok', True):
            return ['verbcmd']
        return ['probe']

    def items(self, depth, in_math, in_arg, alias_visible, n=None):
        rng = self.rng
        out = []
        n = rng.randint(1, 4) if n is None else n
        for _ in range(n):
            if depth < self.maxdepth and rng.random() < 0.45:
                out += self.group(depth, in_math, in_arg, alias_visible)
            else:
                it = self.simple(not alias_visible)
                if it[0] == 'verbcmd' and in_arg:      # verbatim text cannot be read inside an argument (already tokenized)
                    it = ['probe']
                if it[0] == 'lettok':
                    alias_visible = True
                out.append(it)
        return out

    def code(self, n):
        """begin / end code of a \\newenvironment: non-grouping items (no \\let\\ql=c: the alias bookkeeping is lexical)"""
        out = []
        for _ in range(n):
            it = self.simple(False)
            if it[0] == 'verbcmd':
                it = ['probe']
            out.append(it)
        return out

    def newenv(self, depth, in_math, in_arg, alias_visible):
        rng = self.rng
        nargs = rng.choice([0, 0, 1])
        begin = self.code(rng.choice([0, 0, 1, 2]))
        arg = self.code(rng.choice([0, 0, 1])) if nargs else []
        body = self.items(depth + 1, in_math, in_arg, alias_visible) + ([['probe']] if rng.random() < 0.7 else [])
        end = self.code(rng.choice([0, 0, 1, 2]))
        return ['useenv', nargs, begin, end, arg, body, rng.choice(['here', 'top'])]

    def group(self, depth, in_math, in_arg, alias_visible):
        rng = self.rng
        self.bare = False       # the token that opens a group is not expandable: it ends a number
        if rng.random() < 0.12:
            node = self.newenv(depth, in_math, in_arg, alias_visible)
            return [node, ['probe']] if rng.random() < 0.7 else [node]
        kinds = ['brace', 'brace', 'begingroup']
        if not in_math:
            kinds += ENVS + ['itemize', 'math', 'ddollar', 'dmath', 'tabular', 'textbf', 'emph', 'mbox', 'footnote', 'underline']
        else:
            kinds += ['mbox']
        kind = rng.choice(kinds)
        sub = lambda m, a, n=None: self.items(depth + 1, m, a, alias_visible, n) + ([['probe']] if rng.random() < 0.6 else [])
        if kind == 'tabular':
            rows = [[sub(False, in_arg, rng.randint(0, 2)) for _ in range(rng.randint(1, 3))] for _ in range(rng.randint(1, 2))]
            node = ['tabular', rows]
        elif kind in MATHS:
            node = ['grp', kind, sub(True, in_arg)]
        elif kind in CMDS:
            node = ['grp', kind, sub(False if kind == 'mbox' else in_math, True)]
        else:
            node = ['grp', kind, sub(in_math, in_arg)]
        return [node, ['probe']] if rng.random() < 0.7 else [node]


def rand_prog(rng):
    g = PGen(rng, rng.choice([1, 2, 3, 3, 4, 5]))
    prog = [['probe']] + g.items(0, False, False, False, rng.randint(2, 5)) + [['probe']]
    return dict(kind='prog', prog=prog)


def rand_loose(rng):
    """an environment closed over an unclosed group / a group closed over an unclosed environment"""
    g = PGen(rng, 2)
    g.verb_ok = False       # these programs may be wrapped in an argument afterwards
    env = rng.choice(ENVS)
    form = rng.choice(['loose-env', 'loose-grp'])
    outer = rng.choice(['none', 'brace', 'textbf', 'center'])
    pre = g.items(0, False, False, True, 2)          # generated in program order (\qqtrue only after \newif)
    pre2 = g.items(1, False, False, True, 1) if outer != 'none' else []
    node = [form, env, g.items(1, False, False, True) + [['probe']], g.items(2, False, False, False) + [['probe']]]
    inner = [node, ['probe']]
    if outer != 'none':
        inner = [['grp', outer, pre2 + inner], ['probe']]
    return dict(kind='prog', prog=[['probe']] + pre + inner + [['use', 0], ['use', 1], ['probe']])


def small_progs():
    """exhaustive small scope: every group kind x every local change x (probe inside, probe after)"""
    changes = [[['def', 0, 1]], [['gdef', 0, 1]], [['let', 1, 0]], [['cat', 64, 11, 'relax']], [['atletter']], [['lettok', 7, 120]],
               [['newif'], ['iftrue']], [['newcounter'], ['setcounter', 4]], [['def', 0, 1], ['gdef', 0, 2]], [['cat', 33, 13, 'relax']],
               [['def', 1, 1], ['let', 0, 1], ['def', 1, 2]], [['newcommand', 0, 1]], [['use', 6]]]
    kinds = ['brace', 'begingroup'] + ENVS + ['itemize', 'math', 'ddollar', 'dmath'] + CMDS
    pre = [['def', 0, 90], ['gdef', 1, 91], ['probe']]
    post = [['use', 0], ['use', 1], ['probe']]
    changes += [[['cat', 64, 11, ' ']], [['def', 0, 1], ['cat', 33, 13, ' ']]]
    # \xdef is a global definition, \edef a local one; the command form \verbatim ... \endverbatim is a balanced push/pop
    changes += [[['xdef', 0, 1]], [['edef', 0, 1]], [['def', 0, 1], ['xdef', 1, 2], ['edef', 1, 3]], [['verbcmd']],
                [['def', 0, 1], ['verbcmd'], ['cat', 64, 11, 'relax']]]
    # \global is a one-shot prefix: after \global<not a definition> the adjacent \def / \let is local
    changes += [[['gnondef', 'relax'], ['def', 0, 1]], [['gnondef', 'relax'], ['let', 1, 0]],
                [['newif'], ['gnondef', 'iftrue'], ['def', 0, 1]], [['newcounter'], ['gnondef', 'setcounter', 2], ['let', 1, 0]],
                [['newcounter'], ['gnondef', 'setcounter', 3], ['def', 1, 1], ['def', 0, 2]]]
    for kind in kinds:          # ...=11}  ...=11\\endgroup  ...=11\\end{center}  ...=11$  ...=11\\]  \\textbf{...=11}
        for bare in ([['cat', 64, 11, '']], [['def', 0, 1], ['probe'], ['cat', 33, 13, '']], [['cat', 64, 11, ''], ['probe']]):
            yield dict(kind='prog', prog=pre + [['grp', kind, bare]] + post)
            yield dict(kind='prog', prog=pre + [['grp', 'brace', [['def', 0, 80], ['grp', kind, bare], ['use', 0], ['probe']]]] + post)
    # \newenvironment-defined environments: empty / non-empty begin and end code, without / with an argument (empty, non-empty),
    # defined here or at the top, used at top level and inside an enclosing group that has its own local change
    envforms = []
    for nargs, arg in [(0, []), (1, []), (1, [['def', 1, 7]])]:
        for begin in [[], [['def', 1, 5]], [['cat', 33, 11, 'relax']]]:
            for end in [[], [['use', 0], ['probe']]]:
                envforms.append((nargs, begin, end, arg))
    for ch in changes[:6] + changes[-2:]:
        for nargs, begin, end, arg in envforms:
            for where in ('here', 'top'):
                env = ['useenv', nargs, begin, end, arg, ch + [['use', 0], ['probe']], where]
                yield dict(kind='prog', prog=pre + [env] + post)
                if where == 'here':
                    for outer in ['brace', 'center', 'textbf']:
                        yield dict(kind='prog', prog=pre + [['grp', outer, [['def', 0, 80], ['cat', 64, 11, 'relax'], env, ['use', 0], ['probe']]]] + post)
    for ch in changes:
        for kind in kinds:
            if ['verbcmd'] in ch and kind in CMDS:
                continue            # no verbatim text inside an argument
            yield dict(kind='prog', prog=pre + [['grp', kind, ch + [['use', 0], ['probe']]]] + post)
            for kind2 in ['brace', 'center', 'math', 'textbf', 'sloppypar', 'qunknownenv']:
                if (kind in MATHS and kind2 == 'math') or (['verbcmd'] in ch and kind2 == 'textbf'):
                    continue
                yield dict(kind='prog', prog=pre + [['grp', kind, [['grp', kind2, ch + [['probe']]], ['use', 0], ['probe']]]] + post)
        yield dict(kind='prog', prog=pre + [['tabular', [[ch + [['probe']], [['use', 0], ['probe']]], [[['probe']], ch + [['probe']]]]]] + post)
        for env in ['center', 'sloppypar', 'samepage']:
            yield dict(kind='prog', prog=pre + [['loose-env', env, [['probe']], ch + [['probe']]]] + post)
            yield dict(kind='prog', prog=pre + [['loose-grp', env, [['probe']], ch + [['probe']]]] + post)


# extended streams: inputs in the statement's domain on which the implementation is known to deviate (known findings)

def rand_bare(rng):
    """a \\catcode whose digits are directly followed (no blank, no \\relax) by the token that ends its group or cell"""
    kind = rng.choice(['brace', 'begingroup', 'center', 'math', 'ddollar', 'dmath', 'textbf', 'footnote', 'tabular', 'newenv', 'newenv'])
    ch, code = rng.choice([(64, 11), (33, 11), (33, 13)])
    body = [['def', 1, 3], ['probe']] if rng.random() < 0.5 else []
    body += [['cat', ch, code, '']]
    if rng.random() < 0.3:
        body += [['probe']]
    if kind == 'tabular':
        node = ['tabular', [[body, [['probe']]], [[['probe']] + body]]]       # ...=11&   ...=11\\   ...=11\end{tabular}
    elif kind == 'newenv':
        node = rng.choice([['useenv', 0, [], [], [], body, 'here'], ['useenv', 0, body, [], [], [['probe']], 'here'],
                           ['useenv', 0, [], body, [], [['probe']], 'top'], ['useenv', 1, [], [], body, [['probe']], 'here']])
    else:
        node = ['grp', kind, body]
    prog = [['probe'], node, ['probe']]
    if rng.random() < 0.4:
        prog = [['probe'], ['grp', rng.choice(['brace', 'center', 'textbf']), [['def', 0, 2], ['cat', 33, 12, 'relax'], node, ['use', 0], ['probe']]], ['probe']]
    return dict(kind='prog', prog=prog)


def rand_lookahead(rng):
    """what is left of C04-number-lookahead: bare digits, then a user macro whose expansion yields no token, then the closer"""
    kind = rng.choice(['brace', 'begingroup', 'center', 'math', 'dmath'])
    ch, code = rng.choice([(64, 11), (33, 11), (33, 13)])
    return dict(kind='prog', ext='lookahead', prog=[['def', 0, 1], ['probe'], ['grp', kind, [['cat', ch, code, ''], ['use', 0]]], ['probe']])


def rand_charlet(rng):
    """a control sequence that is \\let to a character is defined again while the alias is visible"""
    again = rng.choice([[['lettok', 7, 121]], [['def', 7, 5], ['use', 7]], [['let', 7, 0]]])
    if rng.random() < 0.5:
        prog = [['def', 0, 1], ['lettok', 7, 120], ['probe'], ['grp', rng.choice(['brace', 'center', 'textbf']), again + [['probe']]], ['probe']]
    else:
        prog = [['def', 0, 1], ['lettok', 7, 120], ['probe']] + again + [['probe']]
    return dict(kind='prog', ext='charlet', prog=prog)


def rand_gprefix(rng):
    """\\global\\def, \\global\\long\\def, \\global\\let inside groups (the \\global prefix, notes/C04/fix-1.diff)"""
    g = PGen(rng, 2)
    g.verb_ok = False
    kind = rng.choice(['brace', 'begingroup', 'center', 'math', 'textbf', 'tabular'])
    r = rng.random()
    if rng.random() < 0.35:     # \global<non-definition> directly followed by a local \def / \let
        pre = rng.choice([[['gnondef', 'relax']], [['newif'], ['gnondef', rng.choice(['iftrue', 'iffalse'])]],
                          [['newcounter'], ['gnondef', 'setcounter', rng.randint(0, 9)]]])
        loc = rng.choice([['def', rng.choice([0, 1]), 72], ['let', 1, 0], ['let', 0, 6]])
        body = g.items(1, kind == 'math', kind == 'textbf', True, rng.randint(0, 1)) + pre + [loc, ['use', 0], ['use', 1], ['probe']]
        node = ['tabular', [[[['probe']], body]]] if kind == 'tabular' else ['grp', kind, body]
        return dict(kind='prog', prog=[['def', 0, 1], ['gdef', 1, 2], ['probe'], ['grp', 'brace', [node, ['use', 0], ['use', 1], ['probe']]],
                                       ['use', 0], ['use', 1], ['probe']])
    if r < 0.4:
        it = ['gprefix', 'def', rng.choice([0, 1]), 70]
    elif r < 0.55:
        it = ['gprefix', 'longdef', rng.choice([0, 1]), 71]
    elif r < 0.8:
        it = ['gprefix', 'let', 1, rng.choice([0, 6])]
    else:
        it = ['gprefix', 'lettok', 7, 122]
    body = g.items(1, kind == 'math', kind == 'textbf', True, rng.randint(0, 2)) + [it, ['probe']]
    if rng.random() < 0.4:
        body = [['grp', 'brace', body], ['probe']]
    node = ['tabular', [[[['probe']], body]]] if kind == 'tabular' else ['grp', kind, body]
    return dict(kind='prog', prog=[['def', 0, 1], ['probe'], node, ['use', 0], ['use', 1], ['probe']])


def worker_init():
    import texrun
    texrun.quiet()


def describe_op(objs, o):
    if o[0] in ('push', 'pop'):
        if o[1] < 0:
            return o[0] + '()'
        t, m, p = objs[o[1]]
        return '%s(<%s#%d mode=%d%s>)' % (o[0], OTYPES[t][0], o[1] + 1, m, (' parent=#%d' % (p + 1)) if p >= 0 else '')
    if o[0] in ('addl', 'addg'):
        return '%s(%s := v%d)' % ({'addl': 'addLocal', 'addg': 'addGlobal'}[o[0]], NAMES[o[1]], o[2])
    if o[0] == 'letm':
        return 'let(\\%s, \\%s)' % (NAMES[o[1]], NAMES[o[2]])
    if o[0] == 'lett':
        return 'let(\\%s, %r)' % (NAMES[o[1]], chr(o[2]))
    if o[0] == 'gletm':
        return 'let(\\%s, \\%s, local=False)' % (NAMES[o[1]], NAMES[o[2]])
    if o[0] == 'glett':
        return 'let(\\%s, %r, local=False)' % (NAMES[o[1]], chr(o[2]))
    if o[0] == 'cat':
        return 'catcode(%r, %d)' % (chr(o[1]), o[2])
    if o[0] == 'get':
        return 'context[%r]' % NAMES[o[1]]
    if o[0] == 'verb':
        return 'setVerbatimCatcodes()'
    if o[0] == 'newif':
        return "newif('ifqq')"
    if o[0] == 'newc':
        return "newcounter('qc')"
    if o[0] == 'set':
        return ('ifqq.state = %s' % bool(o[2])) if o[1] == 0 else ("counters['qc'].setcounter(%d)" % o[2])
    return '%s%s' % (o[0], tuple(o[1:]))


def describe(case):
    if case['kind'] == 'api':
        def d(o):
            return describe_op(case['objs'], o)
        return ('Context(); ' + '; '.join(d(o) for o in case['ops'])
                + (('; then one of: ' + ' | '.join(d(o) for o in case['fan'])) if case.get('fan') else ''))
    return source(case)


def has_local_change_in_group(ops):
    d = 0
    seen = False
    for o in ops:
        if o[0] in ('push', 'benv'):
            d += 1
        elif o[0] in ('pop', 'eenv'):
            d = max(0, d - 1)
            if seen:
                return True
        elif d > 0 and o[0] in ('addl', 'letm', 'lett', 'cat', 'verb'):
            seen = True
    return False


def nontrivial(case, io):
    if case['kind'] == 'api':
        return has_local_change_in_group(case['ops'] + case.get('fan', [])[:1])
    return has_local_change_in_group(compile_prog(case)[1])


def tags(case, io):
    t = [case['kind']]
    if case['kind'] == 'api':
        ops = case['ops']
        t.append('balanced' if strictly_balanced(case['objs'], ops) else 'not-strictly-balanced')
        d = m = 0
        for o in ops:
            if o[0] == 'push':
                d += 1
                m = max(m, d)
            elif o[0] == 'pop':
                d = max(0, d - 1)
        t.append('nesting=%d' % min(m, 7))
        for o in ops:
            if o[0] == 'push' and o[1] >= 0:
                t.append('push-object')
                break
        if isinstance(io, list) and any(isinstance(x, list) and x and x[0] == 1 for x in io):
            t.append('impl-raises')
        if case.get('fan'):
            t.append('fan=%d' % len(case['fan']))
    else:
        kinds = set()
        depth = [0]

        def walk(items, d):
            depth[0] = max(depth[0], d)
            for it in items:
                if it[0] == 'grp':
                    kinds.add(it[1])
                    walk(it[2], d + 1)
                elif it[0] == 'tabular':
                    kinds.add('tabular')
                    for r in it[1]:
                        for c in r:
                            walk(c, d + 2)
                elif it[0] in ('loose-env', 'loose-grp'):
                    kinds.add(it[0])
                    walk(it[2], d + 1)
                    walk(it[3], d + 2)
                elif it[0] == 'useenv':
                    kinds.add('newenvironment' + ('-emptybegin' if not it[2] and not it[4] else '') + ('-arg' if it[1] else ''))
                    for x in (it[2], it[4], it[5], it[3]):
                        walk(x, d + 1)
                elif it[0] in ('cat', 'atletter', 'atother'):
                    kinds.add('catcode')
                elif it[0] in ('gprefix', 'let', 'lettok', 'gdef', 'gnondef'):
                    kinds.add(it[0])
        walk(case['prog'], 0)
        t += ['in:' + k for k in sorted(kinds)]
        t.append('prog-nesting=%d' % min(depth[0], 8))
        if case.get('ext'):
            t.append('ext:' + case['ext'])
    return t


def dec(ob, probes):
    """flat observation -> dict"""
    n, c, k = len(probes[0]), len(probes[1]), len(probes[2])
    d = dict(crash=ob[0], depth=ob[1], look=ob[2:2 + n], lets=ob[2 + n:2 + 2 * n], which=ob[2 + 2 * n:2 + 2 * n + c],
             cells=ob[2 + 2 * n + c:2 + 2 * n + c + k], frames=None)
    if len(ob) > 2 + 2 * n + c + k:
        d['frames'] = [dict(obj=f[0], macros=f[1:1 + n], lets=f[1 + n:1 + 2 * n], codes=f[1 + 2 * n:]) for f in ob[-1]]
    return d


def innermost(frames, ki):
    for f in frames:
        if f['macros'][ki] != -1:
            return f['macros'][ki]
    return -1


def well_formed_obs(io, n):
    return isinstance(io, list) and len(io) == n and all(isinstance(x, list) and len(x) >= 2 and isinstance(x[0], int) for x in io)


def judge(case, io, mo):
    if case['kind'] == 'api':
        return None if io == mo else judge_api(case, io, mo)
    return judge_prog(case, io, mo)


def group_segments(objs, ops):
    """[(i, j)]: ops[i] is a push, ops[j] the pop that closes it, and everything in between is strictly balanced
    (Spec/Scope.v: Push o :: b ++ [Pop p] with brackets o p and Bal Strict b)"""
    out = []
    st = []          # (index of push, object index, still strict?)
    for j, op in enumerate(ops):
        if op[0] == 'push':
            doc = op[1] >= 0 and OTYPES[objs[op[1]][0]][2]
            if doc:
                st = [(i, o, False) for (i, o, _) in st]     # a document-level push discards the open frames
            st.append((j, op[1], not doc))
        elif op[0] == 'pop':
            if not st:
                continue
            i, o, ok = st.pop()
            good = ok and ((o < 0) == (op[1] < 0)) and (o < 0 or closes(objs, o, op[1]))
            if good:
                out.append((i, j))
            else:
                st = [(i2, o2, False) for (i2, o2, _) in st]  # a mismatched closer may pop through enclosing frames
        elif op[0] == 'cat' and op[2] > 15:
            st = [(i2, o2, False) for (i2, o2, _) in st]
    return out


def gwrites(op):
    """names an operation may define in the global namespace (Spec/Scope.v no_gwrite)"""
    if op[0] == 'addg':
        return [op[1]]
    if op[0] in ('letm', 'gletm'):
        return [op[2]] + ([op[1]] if op[0] == 'gletm' else [])
    if op[0] == 'get':
        return [op[1]]
    if op[0] == 'newif':
        return [2, 3, 4]
    if op[0] == 'newc':
        return [5]
    return []


def judge_api(case, io, mo):
    """the Spec's clauses evaluated on the implementation's own observations; a disagreement with the Model that breaks none of them
    is reported as such (violation=False)"""
    ops = case['ops']
    fan = case.get('fan', [])
    probes = probes_for(ops + fan)
    if not well_formed_obs(io, len(ops) + 1 + len(fan)):
        return dict(violation=False, key='C04:api:impl-failed', expected=None, what='the implementation run failed: %s' % (str(io)[:300],))
    pnames = [NAMES[i] for i in probes[0]]
    obs = [dec(x, probes) for x in io]
    # clause: name lookup (macros and aliases) always yields the innermost live definition (judged on the implementation's own frames)
    for i, ob in enumerate(obs):
        if ob['frames'] is None:
            continue
        for ki in range(len(pnames)):
            if ob['look'][ki] != innermost(ob['frames'], ki):
                return dict(violation=True, key='C04:api:lookup-not-innermost', expected=innermost(ob['frames'], ki),
                            what='after %d operations context.top[%r] is %s but the innermost frame that binds it holds %s'
                                 % (i, pnames[ki], ob['look'][ki], innermost(ob['frames'], ki)))
            li = next((f['lets'][ki] for f in ob['frames'] if f['lets'][ki] != -1), -1)
            if ob['lets'][ki] != li:
                return dict(violation=True, key='C04:api:alias-not-innermost', expected=li,
                            what='after %d operations get_let(\\%s) is %s but the innermost frame with an alias for it holds %s'
                                 % (i, pnames[ki], ob['lets'][ki], li))
    mobs = [dec(x, probes) for x in mo] if well_formed_obs(mo, len(io)) else None
    # restoration clauses, for every group of the history (prefix, and prefix + each operation of the fan)
    hists = [(ops, None)] + [(ops + [f], len(ops) + 1 + j) for j, f in enumerate(fan)]
    for h, fanidx in hists:
        def at(t):           # observation before operation t of h (t = len(h): after the last one)
            return obs[t] if (fanidx is None or t < len(h)) else obs[fanidx]
        for i, j in group_segments(case['objs'], h):
            if fanidx is not None and j != len(h) - 1:
                continue     # already judged with the prefix
            before, after = at(i), at(j + 1)
            seg = [describe_op(case['objs'], o) for o in h[i:j + 1]]
            if after['depth'] != before['depth']:
                return dict(violation=True, key='C04:api:depth', expected=before['depth'],
                            what='group %s: len(contexts) is %d after it, was %d before' % (seg, after['depth'], before['depth']))
            galias = set(o[1] for o in h[i:j + 1] if o[0] == 'glett')
            keep = [ki for ki, n in enumerate(probes[0]) if n not in galias]
            if after['which'] != before['which'] or [after['lets'][ki] for ki in keep] != [before['lets'][ki] for ki in keep]:
                return dict(violation=True, key='C04:api:not-restored', expected=[before['which'], before['lets']],
                            what='group %s: category codes / aliases in force after it (%s, %s) are not those from before (%s, %s)'
                                 % (seg, after['which'], after['lets'], before['which'], before['lets']))
            written = set(k for o in h[i:j + 1] for k in gwrites(o))
            for ki, n in enumerate(probes[0]):
                if n not in written and after['look'][ki] != before['look'][ki]:
                    return dict(violation=True, key='C04:api:not-restored', expected=before['look'][ki],
                                what='group %s: \\%s was not defined globally inside, but its meaning after the group (%s) is not the one '
                                     'from before (%s)' % (seg, NAMES[n], after['look'][ki], before['look'][ki]))
            if after['frames'] is not None and before['frames'] is not None and (
                    after['frames'][:-1] != before['frames'][:-1] or
                    any(after['frames'][-1][x] != before['frames'][-1][x] for x in ('obj', 'codes')) or
                    [after['frames'][-1]['lets'][ki] for ki in keep] != [before['frames'][-1]['lets'][ki] for ki in keep]):
                return dict(violation=True, key='C04:api:not-restored', expected=before['frames'],
                            what='group %s: the frames after it are not those from before' % (seg,))
        # global definitions and cells survive: a history that is one group, compared with the global effect the Spec assigns to it
        idx = len(h) if fanidx is None else fanidx
        if mobs is not None and h and (0, len(h) - 1) in group_segments(case['objs'], h) and \
                (obs[idx]['look'] != mobs[idx]['look'] or obs[idx]['cells'] != mobs[idx]['cells'] or obs[idx]['lets'] != mobs[idx]['lets']):
            return dict(violation=True, key='C04:api:global-effect', expected=[mobs[idx]['look'], mobs[idx]['cells']],
                        what='group %s: definitions / aliases / cells after it (%s, %s, %s) are not those its global definitions give (%s, %s, %s)'
                             % ([describe_op(case['objs'], o) for o in h], obs[idx]['look'], obs[idx]['lets'], obs[idx]['cells'],
                                mobs[idx]['look'], mobs[idx]['lets'], mobs[idx]['cells']))
    k = next((i for i in range(min(len(io), len(mo))) if io[i] != mo[i]), None) if isinstance(mo, list) else None
    return dict(violation=False, key='C04:api:model-differs', expected=mo[k] if k is not None else mo,
                what='implementation and Model differ at observation %s (%s vs %s)' % (k, io[k] if k is not None else io, mo[k] if k is not None else mo))


EXT_KEYS = {'lookahead': 'C04:prog:number-lookahead-closes-group', 'charlet': 'C04:prog:redefine-char-let'}


def judge_prog(case, io, mo):
    exp = expected_events(case, mo)
    if exp is None:
        return dict(violation=False, key='model-unavailable', expected=None, what='no Model answer: %s' % (str(mo)[:200],))
    if io == exp:
        return None
    if not (isinstance(io, list) and io and isinstance(io[-1], list) and io[-1][:1] == ['end']):
        return dict(violation=False, key='C04:prog:impl-failed', expected=exp, what='the implementation run failed: %s' % (str(io)[:400],))
    key = EXT_KEYS.get(case.get('ext'), 'C04:prog:scope')
    if io[-1] != exp[-1]:
        if io[-1][1] != exp[-1][1]:
            what = 'after the balanced input len(context.contexts) differs from its initial value by %d' % io[-1][1]
        else:
            what = 'after the balanced input the category codes of %s are %s, before it %s' % ([chr(c) for c in CHARS], io[-1][2:], exp[-1][2:])
        return dict(violation=True, key=key + ('' if case.get('ext') else ':final'), expected=exp, what=what)
    k = next((i for i in range(min(len(io), len(exp))) if io[i] != exp[i]), min(len(io), len(exp)))
    return dict(violation=True, key=key, expected=exp,
                what='observation %d of the program: implementation %s, lexical scoping gives %s '
                     '(p: depth-if-top-level, meaning of %s, alias of ql, codes of @ !, ifqq state, counter qc; v: expansion of a defined macro)'
                     % (k, io[k] if k < len(io) else None, exp[k] if k < len(exp) else None, [NAMES[i] for i in PROG_NAMES]))


def shrink_items(items):
    """smaller variants of a list of items: drop one item, replace a group by its body, shrink inside"""
    for i in range(len(items)):
        yield items[:i] + items[i + 1:]
    for i, it in enumerate(items):
        if it[0] == 'grp':
            yield items[:i] + it[2] + items[i + 1:]
            for b in shrink_items(it[2]):
                yield items[:i] + [['grp', it[1], b]] + items[i + 1:]
        elif it[0] == 'useenv':
            yield items[:i] + it[2] + it[4] + it[5] + it[3] + items[i + 1:]
            yield items[:i] + [['grp', 'brace', it[2] + it[4] + it[5] + it[3]]] + items[i + 1:]
            for pos in (2, 3, 4, 5):
                for b in shrink_items(it[pos]):
                    yield items[:i] + [it[:pos] + [b] + it[pos + 1:7]] + items[i + 1:]
            if it[1] and not it[4]:
                yield items[:i] + [['useenv', 0] + it[2:7]] + items[i + 1:]
        elif it[0] in ('loose-env', 'loose-grp'):
            yield items[:i] + it[2] + it[3] + items[i + 1:]
            for b in shrink_items(it[2]):
                yield items[:i] + [[it[0], it[1], b, it[3]]] + items[i + 1:]
            for b in shrink_items(it[3]):
                yield items[:i] + [[it[0], it[1], it[2], b]] + items[i + 1:]
        elif it[0] == 'tabular':
            rows = it[1]
            for r in range(len(rows)):
                if len(rows) > 1:
                    yield items[:i] + [['tabular', rows[:r] + rows[r + 1:]]] + items[i + 1:]
                for c in range(len(rows[r])):
                    if len(rows[r]) > 1:
                        yield items[:i] + [['tabular', rows[:r] + [rows[r][:c] + rows[r][c + 1:]] + rows[r + 1:]]] + items[i + 1:]
                    for b in shrink_items(rows[r][c]):
                        yield items[:i] + [['tabular', rows[:r] + [rows[r][:c] + [b] + rows[r][c + 1:]] + rows[r + 1:]]] + items[i + 1:]


def prog_ok(items, seen=None):
    """\\qqtrue only after \\newif, \\setcounter only after \\newcounter (in program order)"""
    seen = seen if seen is not None else set()
    for it in items:
        if it[0] in ('newif', 'newcounter'):
            seen.add(it[0])
        elif it[0] in ('iftrue', 'iffalse') and 'newif' not in seen:
            return False
        elif it[0] == 'gnondef' and ((it[1] in ('iftrue', 'iffalse') and 'newif' not in seen) or
                                     (it[1] == 'setcounter' and 'newcounter' not in seen)):
            return False
        elif it[0] == 'setcounter' and 'newcounter' not in seen:
            return False
        elif it[0] == 'grp' and not prog_ok(it[2], seen):
            return False
        elif it[0] == 'useenv' and not all(prog_ok(x, seen) for x in (it[2], it[4], it[5], it[3])):
            return False
        elif it[0] in ('loose-env', 'loose-grp') and not (prog_ok(it[2], seen) and prog_ok(it[3], seen)):
            return False
        elif it[0] == 'tabular' and not all(prog_ok(c, seen) for r in it[1] for c in r):
            return False
    return True


def shrink(case):
    if case['kind'] == 'prog':
        n = 0
        for p in shrink_items(case['prog']):
            if prog_ok(p):
                yield dict(case, prog=p)
                n += 1
                if n > 200:
                    return
        return
    if case['kind'] == 'api':
        if case.get('fan'):
            for f in case['fan']:
                yield dict(kind='api', objs=case['objs'], ops=case['ops'] + [f])
            return
        ops = case['ops']

        def ok(o):       # \qqtrue needs the switch to exist
            seen = False
            for x in o:
                if x[0] == 'newif':
                    seen = True
                elif x[0] == 'set' and x[1] == 0 and not seen:
                    return False
            return True
        n = len(ops)
        seen = 0
        size = n // 2
        while size >= 1 and seen < 40:           # delta debugging: big cuts first (core tries the first 40 candidates per round)
            for i in range(0, n, size):
                c = ops[:i] + ops[i + size:]
                if c != ops and ok(c):
                    yield dict(case, ops=c)
                    seen += 1
            size //= 2
        for i in range(len(ops)):
            for j in range(i + 1, len(ops)):
                if ops[i][0] == 'push' and ops[j][0] == 'pop':
                    c = ops[:i] + ops[i + 1:j] + ops[j + 1:]
                    if ok(c):
                        yield dict(case, ops=c)
