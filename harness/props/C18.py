"""C18 -- the index lists every entry exactly once, under its key, in collation order.
Correspondence: \\index / \\printindex of the real plasTeX (entries, index tree, groups, columns) vs Model/Index.v.
The collation keys (the collator the code under test uses), unidecode(c).upper() and encoding.stringletters() are computed
in Python and handed to the Model as tables; everything else (parsing, comparison, sort, merge, grouping, column split) is the Model's."""
import itertools
import random

ID = 'C18'
PINS = [('plasTeX/Base/LaTeX/Index.py', 'index.invoke'), ('plasTeX/Base/LaTeX/Index.py', 'IndexEntry.__lt__'),
        ('plasTeX/Base/LaTeX/Index.py', 'IndexEntry.__init__'), ('plasTeX/Base/LaTeX/Index.py', 'IndexUtils.digest'),
        ('plasTeX/Base/LaTeX/Index.py', 'IndexUtils.groups'), ('plasTeX/Base/LaTeX/Index.py', 'IndexUtils.splitColumns'),
        ('plasTeX/Base/LaTeX/Index.py', 'IndexUtils.Index.totallen'), ('plasTeX/Packages/makeidx.py', 'see'),
        ('plasTeX/Packages/makeidx.py', 'seealso')]
RULE = ('documents with 1-14 \\index commands scattered between words, paragraphs and sections, followed by \\printindex; entries are '
        'generated from a grammar (1-3 levels, optional sort@ part, |see{..}/|seealso{..}/|textbf/|emph formats, quoted ! @ | and '
        'double quote, \\textbf{..}/\\emph{..} display parts, control symbols, accents written as control sequences \\"o \\\'e \\`a \\^o \\~n in both the o and {o} forms, \\! \\@ \\|) over a per-case pool of colliding words (mixed case, accented, '
        'numeric, symbol-initial, blanks) so that equal paths, equal collation keys with different paths and shared prefixes are '
        'frequent; index-columns 1..4; an exhaustive stream of all sequences of length <= 4 over a 9-entry universe (thorough: also length 5 over 6 of them); a column '
        'stream with many top-level entries of varied subtree size; a malformed stream of raw character soups (several @, several |, '
        'trailing/leading !, dangling quote, empty keys, index-columns 0 and 5..7). Non-trivial = at least two entries of which two '
        'share a first-level key or a collation key.')
TRUSTED = ['modelled, not verified: the collator (pyuca sort_key or the str.lower fallback) as a function ck into integer sequences compared '
           'lexicographically (the order is proved total for the instance; ck itself is a table computed by the collator of the code under test)',
           'modelled, not verified: tex.expandTokens on key tokens -- == of two expanded fragments is taken to be equality of their token '
           'lists and of their .source strings (hypothesis src_inj, needed only among the keys occurring in the document at hand: C18_*_rel); .textContent and .source are tables computed by the harness rules tx/src_toks '
           'for the generated token alphabet, compared with the real strings on every case',
           'modelled, not verified: unidecode(c).upper() (table per case), encoding.stringletters() (passed per case)',
           'sorted() is modelled as a stable insertion sort; C18_stable_sort_unique proves every stable sort by the (strict weak) comparator returns the same list']
ASSUMPTIONS = ['macros in keys are \\textbf/\\emph/\\textit with a braced argument free of special characters, accent control sequences applied to a letter with a precomposed form (one spelling, o or {o}, per document: the two expand to equal nodes with different .source), \\! \\@ \\|; no ~ ^ _ % # & $ as bare characters',
               'formats are see{..}, seealso{..}, textbf, emph, textit (a format that leaves \\index-page-number outside a macro argument, '
               'e.g. |( or |), makes IndexUtils.digest raise AttributeError: recorded as an observation, outside the property quantifier)']
CASE_TIMEOUT = 20

def gen_tables(repo, gen_dir):
    """Gen/Catcodes.v (shared with C01/C04): C18_default_categories and the C18 x C01 refinement theorems are re-checked against
    the category table regenerated from the source on every run"""
    from translate import catcodes
    d = catcodes.generate(repo, gen_dir)
    return dict(obligations=0, file='Gen/Catcodes.v (shared with C01)', chain=d['chain'])


# ---- tokens ---------------------------------------------------------------------------------------
# a token is [cat, chars]; escape sequences are [0, name]


def ch(c):
    if c == ' ':
        return [10, ' ']
    if c.isascii() and c.isalpha():
        return [11, c]
    return [12, c]


def text(s):
    return [ch(c) for c in s]


def mac(name, inner):
    return [[0, name], [1, '{']] + inner + [[2, '}']]


CTRL = '_&%#${}'


def tok_source(toks):
    out = []
    for c, s in toks:
        out.append('\\' + s if c == 0 else s)
    return ''.join(out)


def is_special(t):
    return t[0] in (10, 11, 12) and t[1] in ('"', '!', '@', '|')


def quote(toks):
    out = []
    for t in toks:
        if is_special(t):
            out.append([12, '"'])
        out.append(t)
    return out


def print_entry(e):
    """e = dict(levels=[(sort|None, disp)], fmt=None|(name, args))  -> token list"""
    out = []
    for i, (srt, disp) in enumerate(e['levels']):
        if i:
            out.append([12, '!'])
        if srt is not None:
            out += quote(srt) + [[12, '@']]
        out += quote(disp)
    if e['fmt'] is not None:
        out += [[12, '|']] + text(e['fmt'][0]) + e['fmt'][1]
    return out


ACCENTS = {'"': '\u0308', "'": '\u0301', '`': '\u0300', '^': '\u0302', '~': '\u0303'}
NOTEXT = '@!|'          # \@ \! \| : control symbols without text; NOT the makeindex specials (catcode 0)
ACC_LETTERS = {'"': 'aeiouyAEIOUY', "'": 'acegilnorsuyzACEGILNORSUYZ', '`': 'aeinouAEINOU', '^': 'aceghijosuwyACEGHIJOSUWY',
               '~': 'ainouAINOU'}     # pairs for which plasTeX yields the precomposed character (probed); others give letter + odd combining mark


def tx(toks):
    """the harness rule for .textContent of the expanded tokens (checked against the real string on every case):
    characters; \\_ \\& ... give their character; an accent control sequence composes with the following letter or {letter}"""
    import unicodedata
    out = []
    i = 0
    n = len(toks)
    while i < n:
        c, s = toks[i]
        if c in (10, 11, 12):
            out.append(s)
        elif c == 0 and s in ACCENTS:
            if i + 1 < n and toks[i + 1][0] == 11:
                out.append(unicodedata.normalize('NFC', toks[i + 1][1] + ACCENTS[s]))
                i += 1
            elif i + 3 < n and toks[i + 1][0] == 1 and toks[i + 2][0] == 11 and toks[i + 3][0] == 2:
                out.append(unicodedata.normalize('NFC', toks[i + 2][1] + ACCENTS[s]))
                i += 3
        elif c == 0 and len(s) == 1 and s in CTRL:
            out.append(s)
        i += 1
    return ''.join(out)


def src_toks(toks):
    """the harness rule for .source of the expanded tokens"""
    out = []
    for c, s in toks:
        if c == 0:
            out.append('\\' + s + (' ' if (len(s) == 1 and s in CTRL + NOTEXT) else ''))
        else:
            out.append(s)
    return ''.join(out)


def enc_toks(toks):
    """Model.enc_toks"""
    out = []
    for c, s in toks:
        out += [c, len(s)] + [ord(x) for x in s]
    return out


def py_parse(tokens):
    """port of the loop of index.invoke on [cat, chars] tokens (Python lists alias exactly as in the original);
    used only to know which strings need a collation key and to filter the malformed stream"""
    sortkey, key, format = [], [], []
    entry = iter(tokens)
    current = []
    for tok in entry:
        if tok[0] in (12, 11, 10):
            if tok[1] == '"':
                for tok in entry:
                    current.append(tok)
                    break
            elif tok[1] == '!':
                key.append(current)
                if len(sortkey) < len(key):
                    sortkey.append(current)
                current = []
            elif tok[1] == '@':
                sortkey.append(current)
                current = []
            elif tok[1] == '|':
                key.append(current)
                if len(sortkey) < len(key):
                    sortkey.append(current)
                current = format
            else:
                current.append(tok)
            continue
        current.append(tok)
    if not format:
        key.append(current)
        if len(sortkey) < len(key):
            sortkey.append(current)
    sortkey = [list(x) for x in sortkey]
    key = [list(x) for x in key]
    return key, sortkey, list(format)


def fmt_ok(fmt):
    """formats that the real code renders without leaving \\index-page-number at the top level"""
    if not fmt:
        return True
    name = ''
    i = 0
    while i < len(fmt) and fmt[i][0] == 11:
        name += fmt[i][1]
        i += 1
    rest = fmt[i:]
    if name in ('textbf', 'emph', 'textit'):
        return rest == []
    if name in ('see', 'seealso'):
        if len(rest) < 2 or rest[0] != [1, '{'] or rest[-1] != [2, '}']:
            return False
        depth = 0
        for j, t in enumerate(rest):
            if t[0] == 1:
                depth += 1
            elif t[0] == 2:
                depth -= 1
                if depth == 0 and j != len(rest) - 1:
                    return False
            elif t[0] == 0:
                return False
        return depth == 0
    return False


# ---- the collator / unidecode / letters of the code under test ------------------------------------
_EXT = None


def ext():
    global _EXT
    if _EXT is None:
        import importlib
        from plasTeX.TeX import TeX  # noqa: F401  (resolves the import cycle)
        Index = importlib.import_module('plasTeX.Base.LaTeX.Index')
        from plasTeX import encoding
        _EXT = (Index.collator, Index.unidecode, encoding.stringletters())
    return _EXT


def ck(s):
    k = ext()[0](s)
    if isinstance(k, str):
        return [ord(c) for c in k]
    return [int(x) for x in k]


def ud(c):
    return ext()[1](c).upper()


# ---- generation -----------------------------------------------------------------------------------
WORDS = ['a', 'A', 'b', 'B', 'ab', 'Ab', 'aB', 'abc', 'é', 'e', 'E', 'É', 'ü', 'u', 'U', 'ö', 'Oe', 'o', 'ñ', 'n', 'Å', 'å', 'ß', 'ss', 'Æ', 'ae',
         '1', '10', '2', '02', '-x', '*', '+a', '(b)', '.a', ':', 'Zeta', 'zeta', 'ZETA', 'a b', 'a-b', 'ab ', ' ab', 'x!y', 'p@q', 'r|s',
         'say"hi', '!', '"', 'ĳ', '☃', '№1', 'č', 'c', 'C', 'Ω', 'ж', '=', '<', '>x', '/', '?', 'x', 'y', 'z', 'Y', 'q']


def accent(rng, braced):
    a = rng.choice(list(ACCENTS))
    l = rng.choice(ACC_LETTERS[a])
    return [[0, a]] + ([[1, '{'], [11, l], [2, '}']] if braced else [[11, l]])


ACC_WORDS = [('Schr', '"', 'o', 'dinger'), ('na', '"', 'i', 've'), ('M', '"', 'u', 'ller'), ('caf', "'", 'e', ''), ('', "'", 'e', 'cole'),
             ('', '`', 'a', ''), ('r', '^', 'o', 'le'), ('', '~', 'n', 'u'), ('', '"', 'o', ''), ('', '"', 'O', ''), ('', "'", 'a', 'b')]


def rand_word(rng, braced=False):
    r = rng.random()
    if r < 0.14:
        # accents written as control sequences; the unaccented and the precomposed spellings are in WORDS / below
        if rng.random() < 0.6:
            pre, a, l, post = rng.choice(ACC_WORDS)
            w = text(pre) + [[0, a]] + ([[1, '{'], [11, l], [2, '}']] if braced else [[11, l]]) + text(post)
        else:
            w = text(rng.choice(['', 'a', 'Z', 'sch'])) + accent(rng, braced) + text(rng.choice(['', 'x', 'b', ' c']))
            if rng.random() < 0.3:
                w += accent(rng, braced)
        return w
    if r < 0.2:
        return text(rng.choice(['Schrodinger', 'Schrödinger', 'naive', 'naïve', 'Muller', 'Müller', 'cafe', 'café', 'ö', 'o', 'à', 'ñu', 'nu', 'role', 'rôle']))
    if r < 0.23:
        return text(rng.choice(['a', 'x', ''])) + [[0, rng.choice(NOTEXT)]] + text(rng.choice(['b', '', 'y']))
    if r < 0.8:
        return text(rng.choice(WORDS))
    if r < 0.9:
        return [[0, rng.choice('_&%#$')]] + text(rng.choice(['', 'a', 'x', 'B']))
    return text(' '.join(''.join(rng.choice('abABéE12 .') for _ in range(rng.randint(1, 4))).split()) or 'a')


def rand_level(rng, pool):
    w = rng.choice(pool)
    r = rng.random()
    if r < 0.6:
        return (None, w)
    if r < 0.75:
        return (rng.choice(pool), w)                                # sort@display, both from the pool
    if r < 0.9:
        return (w, mac(rng.choice(['textbf', 'emph', 'textit']), [t for t in w if t[0] in (10, 11, 12)] or text('a')))  # sort@\textbf{display}
    return (None, mac(rng.choice(['textbf', 'emph']), [t for t in w if t[0] in (10, 11, 12)] or text('a')))


def rand_fmt(rng):
    r = rng.random()
    if r < 0.7:
        return None
    if r < 0.8:
        return ('textbf', [])
    if r < 0.85:
        return ('emph', [])
    if r < 0.95:
        return ('see', [[1, '{']] + text(rng.choice(['a', 'B b', 'other'])) + [[2, '}']])
    return ('seealso', [[1, '{']] + text(rng.choice(['a', 'zz'])) + [[2, '}']])


def rand_structured(rng, nmax=14):
    braced = rng.random() < 0.5      # one spelling of accent arguments per document: \"o and \"{o} expand to equal nodes with different .source
    pool = [rand_word(rng, braced) for _ in range(rng.randint(2, 6))]
    if rng.random() < 0.5:      # case / accent variants of the same word collide under every collator at some level
        w = rng.choice(['a', 'b', 'e', 'zeta', 'ab', 'u', 'o'])
        pool += [text(w), text(w.upper()), text(w.capitalize())]
    proto = []
    for _ in range(rng.randint(1, 5)):
        depth = rng.choice([1, 1, 2, 2, 3])
        proto.append([rand_level(rng, pool) for _ in range(depth)])
    ents = []
    for _ in range(rng.randint(1, nmax)):
        r = rng.random()
        if r < 0.45:
            lv = list(rng.choice(proto))
        elif r < 0.75:
            base = list(rng.choice(proto))
            k = rng.randint(1, len(base))
            lv = base[:k] + [rand_level(rng, pool) for _ in range(rng.randint(0, 3 - k))]
        else:
            lv = [rand_level(rng, pool) for _ in range(rng.choice([1, 2, 3]))]
        ents.append(dict(levels=lv, fmt=rand_fmt(rng)))
    return ents


UNIVERSE = [
    dict(levels=[(None, text('b'))], fmt=None),
    dict(levels=[(None, text('B'))], fmt=None),
    dict(levels=[(None, text('a')), (None, text('x'))], fmt=None),
    dict(levels=[(None, text('A')), (None, text('y'))], fmt=None),
    dict(levels=[(None, text('a')), (None, text('y'))], fmt=('textbf', [])),
    dict(levels=[(text('b'), mac('textbf', text('b')))], fmt=None),
    dict(levels=[(None, text('a'))], fmt=('see', [[1, '{']] + text('b') + [[2, '}']])),
    dict(levels=[(None, text('☃'))], fmt=None),
    dict(levels=[(None, [[0, '"'], [11, 'o']])], fmt=None),      # \"o : the accent control sequence is not the quote character
]

SOUP = ['a', 'b', 'B', 'a', ' ', '!', '!', '@', '@', '|', '|', '"', '"', 't', 'x', 'é', '1']


def rand_soup(rng):
    for _ in range(50):
        n = rng.randint(0, 9)
        toks = []
        for _ in range(n):
            if rng.random() < 0.12:
                if rng.random() < 0.6:
                    toks += [[0, rng.choice('"\'`^~')], [11, rng.choice('aou')]]      # an accent control sequence and its letter
                else:
                    toks.append([0, rng.choice(NOTEXT)])                               # \! \@ \| are not the specials
                continue
            c = rng.choice(SOUP)
            if c == ' ' and (not toks or toks[-1][1] == ' '):
                continue
            toks.append(ch(c))
        if rng.random() < 0.35:
            toks += [ch('|')] + text(rng.choice(['textbf', 'emph', 'see'])) if rng.random() < 0.7 else [ch('|')]
            if toks[-1][1] == 'e' and toks[-2][1] == 'e':
                toks += [[1, '{']] + text('k') + [[2, '}']]
            if rng.random() < 0.3:
                toks += [ch(rng.choice('|!@"'))] + ([ch(rng.choice('ab'))] if rng.random() < 0.5 else [])
        while toks and toks[-1][1] == ' ':
            toks.pop()
        k, s, f = py_parse(toks)
        if fmt_ok(f):
            return toks
    return text('a')


def case_of(kind, ents, cols, rng, spec=True):
    return dict(kind=kind, entries=[print_entry(e) for e in ents], spec=ents if spec else None, cols=cols, filler=rng.randint(0, 10 ** 6))


def streams(rng, tier, boost):
    out = []
    quick = tier == 'quick'
    # exhaustive small scope: all sequences over the universe up to a length bound
    # a changed pin multiplies the random streams only (9^5 sequences would take a run past its budget)
    def exh(idx, n):
        for combo in itertools.product(idx, repeat=n):
            out.append(('exhaustive', dict(kind='exhaustive', entries=[print_entry(UNIVERSE[i]) for i in combo],
                                           spec=[UNIVERSE[i] for i in combo], cols=1 + (sum(combo) + n) % 3, filler=0)))
    for n in range(1, 5):
        exh(range(len(UNIVERSE)), n)
    if not quick:
        exh([0, 1, 2, 3, 5, 8], 5)      # length 5 over b, B, a!x, A!y, b@\textbf{b}, \"o
    for _ in range((3000 if quick else 30000) * boost):
        out.append(('structured', case_of('structured', rand_structured(rng), rng.choice([1, 2, 2, 3, 4]), rng)))
    for _ in range((600 if quick else 5000) * boost):
        # columns: many top-level entries with subtrees of varied size
        n = rng.randint(1, 30)
        ents = []
        for i in range(n):
            top = text(rng.choice('abcdefghijklmnopqrstuvwxyz') + rng.choice(['', 'a', 'b', 'c']))
            for j in range(rng.choice([0, 0, 0, 1, 2, 3])):
                ents.append(dict(levels=[(None, top), (None, text(rng.choice('uvwxyz')))], fmt=None))
            if rng.random() < 0.7 or not ents:
                ents.append(dict(levels=[(None, top)], fmt=None))
        rng.shuffle(ents)
        out.append(('columns', case_of('columns', ents[:40], rng.choice([1, 2, 3, 4]), rng)))
    for _ in range((1000 if quick else 10000) * boost):
        n = rng.randint(1, 5)
        out.append(('malformed', dict(kind='malformed', entries=[rand_soup(rng) for _ in range(n)], spec=None,
                                      cols=rng.choice([1, 2, 3, 4, 0, 5, 7]), filler=rng.randint(0, 10 ** 6))))
    return out


def search_streams(rng, tier):
    return [('search', case_of('structured', rand_structured(rng, 8), rng.choice([1, 2, 3, 4]), rng)) for _ in range(1500)]


FILL = ['word', 'Text here.', '\\par ', '\\section{Sec}', 'more words ', '\\emph{it} ', '\n\n', 'x', '\\subsection{Sub} ', 'and ']


def source(case):
    r = random.Random(case.get('filler', 0))
    parts = []
    for e in case['entries']:
        if case.get('filler'):
            for _ in range(r.randint(0, 2)):
                parts.append(r.choice(FILL))
        parts.append('A\\index{' + tok_source(e) + '}')
    return ('\\documentclass{article}\\usepackage{makeidx}\\makeindex\\begin{document}' + ''.join(parts) +
            '\\printindex\\end{document}')


def describe(case):
    return 'index-columns=%s  %s' % (case['cols'], ''.join('\\index{%s}' % tok_source(e) for e in case['entries']))


def S(s):
    return [ord(c) for c in s]


def wire_tok(t):
    return [t[0], S(t[1])]


def model_input(case):
    strings = set()
    toklists = {}
    for e in case['entries']:
        k, s, f = py_parse(e)
        for x in s + k:
            strings.add(tx(x))
            toklists[tuple(enc_toks(x))] = x
    chars = sorted({s[0] for s in strings if s})
    keys = sorted(toklists)
    return [[[wire_tok(t) for t in e] for e in case['entries']], case['cols'],
            [[S(s), ck(s)] for s in sorted(strings)],
            [[ord(c), S(ud(c))] for c in chars],
            S(ext()[2]),
            [[list(k), S(tx(toklists[k]))] for k in keys],
            [[list(k), S(src_toks(toklists[k]))] for k in keys]]


# ---- implementation -------------------------------------------------------------------------------
def worker_init():
    import texrun
    texrun.quiet()


def run_impl(case):
    import sys
    import importlib
    from plasTeX.TeX import TeX, TeXDocument
    Index = importlib.import_module('plasTeX.Base.LaTeX.Index')
    rec = []

    class RTeX(TeX):
        def expandTokens(self, tokens, *a, **k):
            fr = sys._getframe(1)
            top = fr.f_code.co_name == 'invoke' and fr.f_code.co_filename.endswith('Index.py')
            toks = [[int(t.catcode), str(t)] for t in tokens] if top else None
            r = TeX.expandTokens(self, tokens, *a, **k)
            if top:
                rec.append(toks)
            return r

    doc = TeXDocument()
    tex = RTeX(doc)
    tex.disableLogging()
    doc.config['document']['index-columns'] = case['cols']
    tex.input(source(case))
    tex.parse()
    entries = doc.userdata.get('index', [])
    # harness self-check: the entry arguments were tokenized into exactly the tokens of the case
    got = [[[int(t.catcode), str(t)] for t in e.node.attributes['entry']] for e in entries]
    if got != case['entries']:
        return ['harness-tokens', got]
    occ = {id(e.node): j for j, e in enumerate(entries)}
    ents_out = []
    pos = 0
    for e in entries:
        ns, nk = len(e.sortkey), len(e.key)
        nf = 0 if e.format is None else 1
        calls = rec[pos:pos + ns + nk + nf]
        pos += ns + nk + nf
        ents_out.append([[[wire_tok(t) for t in c] for c in calls[ns:ns + nk]], [S(str(s)) for s in e.sortkey],
                         [[wire_tok(t) for t in calls[ns + nk]]] if nf else [], int(e.type)])
    if pos != len(rec):
        return ['harness-calls', pos, len(rec)]
    pis = doc.getElementsByTagName('printindex')
    if len(pis) != 1:
        return ['no-printindex', len(pis)]
    pi = pis[0]

    def node(n):
        return [S(n.key.source), S(n.key.textContent), S(str(n.sortkey)), [[int(p._cr_type), occ.get(id(p._cr_node), -1)] for p in n.pages],
                [node(c) for c in n.childNodes]]
    tree = [node(c) for c in pi.childNodes]
    top = {id(c): i for i, c in enumerate(pi.childNodes)}
    try:
        groups = [[S(g.title), [[top[id(x)] for x in col] for col in g]] for g in pi.groups]
    except (ZeroDivisionError, IndexError):
        groups = [-2, 2]
    return [ents_out, tree, groups]


# ---- the Spec oracle on the implementation's own output -------------------------------------------
def unS(l):
    return ''.join(chr(c) for c in l)


def spec_title(sortkey):
    if not sortkey:
        return 'Symbols'
    t = ud(sortkey[0])
    letters = ext()[2]
    if len(t) == 1 and t in letters:
        return t
    if t == '_':
        return '_ (Underscore)'
    return 'Symbols'


def spec_violations(case, io):
    """clauses of the property that the implementation's observation violates (empty list = the property holds here)"""
    bad = []
    if not (isinstance(io, list) and len(io) == 3 and isinstance(io[0], list) and not (io[:1] in (['raise'], ['hang']))):
        if case['kind'] != 'malformed' and 1 <= case['cols'] <= 4:
            return ['raises: no index is produced (%s)' % (io[:3],)]
        return []
    ents, tree, groups = io
    if isinstance(tree, list) and tree[:1] == [-2]:
        return ['raises in digest']
    n = len(case['entries'])
    if len(ents) != n:
        bad.append('entry count: %d entries for %d \\index commands' % (len(ents), n))
        return bad
    # parse (structured cases only: the key path the entry names)
    if case.get('spec'):
        for j, (sp, e) in enumerate(zip(case['spec'], ents)):
            want_keys = [[wire_tok(t) for t in disp] for (_, disp) in sp['levels']]
            want_sort = [S(tx(srt if srt is not None else disp)) for (srt, disp) in sp['levels']]
            want_type = 0 if sp['fmt'] is None else {'see': 1, 'seealso': 2}.get(sp['fmt'][0], 0)
            if e[0] != want_keys:
                bad.append('parse: entry %d display keys' % j)
            if e[1] != want_sort:
                bad.append('parse: entry %d sort keys' % j)
            if e[3] != want_type or (sp['fmt'] is None) != (e[2] == []):
                bad.append('parse: entry %d format/type' % j)
    # the path each occurrence names, from the implementation's own entries
    path = {}
    for j, e in enumerate(ents):
        path[j] = tuple((unS(s), src_model(k)) for s, k in zip(e[1], e[0]))
    seen = {}

    def walk(nodes, prefix, level):
        labels = []
        prevck = None
        for nd in nodes:
            src, txt, sk, pages, kids = nd
            lab = (unS(sk), unS(src))
            if lab in labels:
                bad.append('merge: the line %r appears twice under %r' % (lab, prefix))
            labels.append(lab)
            k = ck(unS(sk))
            if prevck is not None and k < prevck:
                bad.append('order: siblings under %r not in collation order of their sort keys' % (prefix,))
            prevck = k
            p = prefix + (lab,)
            occs = [o for (_, o) in pages]
            if occs != sorted(occs):
                bad.append('pages: not in document order at %r' % (p,))
            for o in occs:
                seen.setdefault(o, []).append(p)
            if not pages and not kids:
                bad.append('extra: empty line %r' % (p,))
            walk(kids, p, level + 1)
    walk(tree, (), 0)
    for j in range(n):
        ps = seen.get(j, [])
        if len(ps) != 1:
            bad.append('occurrence %d listed %d times' % (j, len(ps)))
            continue
        want = path[j]
        if ps[0] != want:
            bad.append('occurrence %d under %r instead of %r' % (j, ps[0], want))
    for o in seen:
        if not (0 <= o < n):
            bad.append('page reference to an unknown occurrence')
    # groups / columns
    cols = case['cols']
    if 1 <= cols <= 4:
        if isinstance(groups, list) and groups[:1] == [-2]:
            bad.append('groups: raises')
        else:
            flat = [i for g in groups for col in g[1] for i in col]
            if flat != list(range(len(tree))):
                bad.append('columns: not an order-preserving partition of the top-level entries')
            prev = None
            for g in groups:
                if len(g[1]) != cols:
                    bad.append('columns: %d columns for index-columns=%d' % (len(g[1]), cols))
                t = unS(g[0])
                if t == prev:
                    bad.append('groups: heading %r repeated for adjacent groups' % t)
                prev = t
                for col in g[1]:
                    for i in col:
                        if 0 <= i < len(tree) and spec_title(unS(tree[i][2])) != t:
                            bad.append('groups: entry with sort key %r under heading %r' % (unS(tree[i][2]), t))
                if not [i for col in g[1] for i in col]:
                    bad.append('groups: empty group')
    return bad


def src_model(k):
    """the source rule on wire tokens [cat, codes]"""
    return src_toks([[c, unS(codes)] for c, codes in k])


def judge(case, io, mo):
    if io == mo:
        return None
    if isinstance(io, list) and io[:1] in (['harness-tokens'], ['harness-calls'], ['no-printindex']):
        return dict(violation=False, key='C18:harness', expected=mo, what='harness self-check failed: %s' % (io[:2],))
    if mo == [-4]:
        return dict(violation=False, key='C18:harness-table', what='a collation/unidecode table entry was missing')
    bad = spec_violations(case, io)
    cls = bad[0].split(':')[0].split(' ')[0] if bad else 'model-differs'
    return dict(violation=bool(bad), key='C18:%s:%s' % (case['kind'], cls), expected=mo,
                what=('; '.join(bad[:4]) if bad else 'the implementation differs from the Model but meets every clause of the property'))


def nontrivial(case, io):
    if len(case['entries']) < 2:
        return False
    firsts = [tx(py_parse(e)[1][0]).lower() if py_parse(e)[1] else '' for e in case['entries']]
    return len(set(firsts)) < len(firsts)


def tags(case, io):
    t = ['kind=' + case['kind'], 'cols=%s' % case['cols'], 'entries=%d' % min(len(case['entries']), 15)]
    flat = [tk for e in case['entries'] for tk in e]
    if any(tk == [12, '@'] for tk in flat):
        t.append('has-sort@')
    if any(tk == [12, '|'] for tk in flat):
        t.append('has-format')
    if any(tk == [12, '"'] for tk in flat):
        t.append('has-quote')
    if any(tk[0] == 0 for tk in flat):
        t.append('has-macro')
    depth = max([len(py_parse(e)[0]) for e in case['entries']] or [0])
    t.append('depth=%d' % min(depth, 4))
    if isinstance(io, list) and len(io) == 3 and isinstance(io[1], list) and io[1][:1] != [-2]:
        def count(nodes):
            return sum(1 + count(nd[4]) for nd in nodes)
        merged = any(len(nd[3]) > 1 for nd in walk_nodes(io[1]))
        if merged:
            t.append('merged-line')
        if isinstance(io[2], list) and io[2][:1] != [-2]:
            t.append('groups=%d' % min(len(io[2]), 6))
        cks = {}
        for nd in io[1]:
            cks.setdefault(tuple(ck(unS(nd[2]))), set()).add((tuple(nd[2]), tuple(nd[0])))
        if any(len(v) > 1 for v in cks.values()):
            t.append('equal-collation-key-different-line')
    elif isinstance(io, list) and io[:1] == ['raise']:
        t.append('impl-raises')
    return t


def walk_nodes(nodes):
    for nd in nodes:
        yield nd
        yield from walk_nodes(nd[4])


def shrink(case):
    es = case['entries']
    sp = case.get('spec')
    if len(es) > 1:
        for i in range(len(es)):            # a single entry alone
            yield dict(case, entries=[es[i]], spec=[sp[i]] if sp else None)
    if len(es) > 6:                         # halves
        h = len(es) // 2
        yield dict(case, entries=es[:h], spec=sp[:h] if sp else None)
        yield dict(case, entries=es[h:], spec=sp[h:] if sp else None)
    for i in range(len(es)):
        yield dict(case, entries=es[:i] + es[i + 1:], spec=(sp[:i] + sp[i + 1:]) if sp else None)
    if case.get('filler'):
        yield dict(case, filler=0)
    if case['cols'] > 1:
        yield dict(case, cols=1)
    if sp:
        for i, e in enumerate(sp):
            if e['fmt'] is not None:
                e2 = dict(e, fmt=None)
                sp2 = sp[:i] + [e2] + sp[i + 1:]
                yield dict(case, spec=sp2, entries=[print_entry(x) for x in sp2])
            if len(e['levels']) > 1:
                for cut in (e['levels'][:-1], e['levels'][1:]):
                    e2 = dict(e, levels=cut)
                    sp2 = sp[:i] + [e2] + sp[i + 1:]
                    yield dict(case, spec=sp2, entries=[print_entry(x) for x in sp2])
            for li, (srt, disp) in enumerate(e['levels']):
                if srt is not None:
                    lv = list(e['levels'])
                    lv[li] = (None, disp)
                    e2 = dict(e, levels=lv)
                    sp2 = sp[:i] + [e2] + sp[i + 1:]
                    yield dict(case, spec=sp2, entries=[print_entry(x) for x in sp2])
