"""setup_cmd: regenerate Gen tables, build all theories with make (full .vo), build each claimed property's driver."""
import importlib, json, os, sys, time
import core


def main():
    t0 = time.time()
    claims = json.load(open(os.path.join(core.VERIF, 'harness', 'claims.json')))
    pids = sorted(p for p, c in claims.items() if c.get('claimed'))
    rc = 0
    for pid in pids:
        prop = importlib.import_module('props.' + pid)
        if hasattr(prop, 'gen_tables'):
            try:
                prop.gen_tables(core.REPO, os.path.join(core.THEORIES, 'Gen'))
            except Exception as e:
                print('setup: translator for %s failed: %s' % (pid, e))
    core.ensure_makefile()
    # full .vo build of exactly what the claimed properties need (files of unclaimed, in-progress properties are not built)
    targets = ['theories/Properties/%s.vo' % pid for pid in pids]
    r, out = core.sh(['make', '-k', '-j%d' % core.NPROC] + targets, 3000, cwd=core.COQ)
    print(out[-3000:])
    if r != 0:
        rc = 1
    for pid in pids:
        try:
            core.build_driver(pid)
        except Exception as e:
            print('setup: driver for %s failed: %s' % (pid, str(e)[-1500:]))
            rc = 1
    print('setup done in %.1fs rc=%d' % (time.time() - t0, rc))
    return rc
