"""Run the registered quick checks against every seeded change in /verif/seeded/<id>/ (patch.diff applied to a scratch
worktree of /repo under /tmp, removed afterwards).  Usage: run_seeded.py <id> ... | --all   Writes seeded/RESULTS.json."""
import json, os, subprocess, sys, shutil
V = os.path.dirname(os.path.dirname(os.path.abspath(__file__)))
if not sys.argv[1:]:
    sys.exit('usage: run_seeded.py <id> ... | --all')
ids = (sorted(d for d in os.listdir(os.path.join(V, 'seeded')) if os.path.isdir(os.path.join(V, 'seeded', d)))
       if sys.argv[1:] == ['--all'] else sys.argv[1:])
respath = os.environ.get('SEEDED_RESULTS') or os.path.join(V, 'seeded', 'RESULTS.json')
results = json.load(open(respath)) if os.path.exists(respath) else {}
for sid in ids:
    d = os.path.join(V, 'seeded', sid)
    meta = json.load(open(os.path.join(d, 'meta.json')))
    pid = meta['property']
    wt = '/tmp/seedrun-%s' % sid
    subprocess.run(['git', '-C', '/repo', 'worktree', 'remove', '--force', wt], capture_output=True)
    subprocess.run(['git', '-C', '/repo', 'worktree', 'add', '-q', wt, 'HEAD'], check=True)
    try:
        r = subprocess.run(['git', '-C', wt, 'apply', os.path.join(d, 'patch.diff')], capture_output=True, text=True)
        if r.returncode != 0:
            results[sid] = dict(property=pid, applied=False, error=r.stderr[-300:])
            print(sid, 'PATCH DOES NOT APPLY')
            continue
        demo = subprocess.run(['/venv/bin/python', os.path.join(d, 'demo.py')], env=dict(os.environ, PYTHONPATH=wt, PYTHONHASHSEED='0'),
                              capture_output=True, text=True, cwd='/tmp')
        out = {}
        for boost in ('noboost', 'pins'):
            env = dict(os.environ, VERIF_REPO=wt)
            if boost == 'noboost':
                env['VERIF_IGNORE_PINS'] = '1'
            c = subprocess.run([os.path.join(V, 'check'), pid, '--tier', 'quick'], env=env, capture_output=True, text=True, cwd=V)
            lines = [l for l in c.stdout.splitlines() if l.startswith('VIOLATION') or l.startswith('KNOWN-FINDING')]
            out[boost] = dict(exit=c.returncode, lines=lines[:4])
            if c.returncode != 0 and boost == 'noboost':
                out['pins'] = out['noboost']
                break
        results[sid] = dict(property=pid, applied=True, demo_exit_on_mutant=demo.returncode, check=out,
                            detected=bool(out['pins']['exit'] == 1 and any(l.startswith('VIOLATION property=%s ' % pid) for l in out['pins']['lines'])),
                            detected_without_pin_boost=bool(out['noboost']['exit'] == 1 and any(l.startswith('VIOLATION property=%s ' % pid) for l in out['noboost']['lines'])))
        print(sid, 'detected' if results[sid]['detected'] else 'MISSED', '(without pin boost: %s)' % results[sid]['detected_without_pin_boost'],
              out['pins']['lines'][:1])
    finally:
        subprocess.run(['git', '-C', '/repo', 'worktree', 'remove', '--force', wt], capture_output=True)
        shutil.rmtree(wt, ignore_errors=True)
    json.dump(results, open(respath, 'w'), indent=1, sort_keys=True)


