#!/bin/sh
# refresh seeded/RESULTS.json for every kept change: four lanes, each lane owns a set of properties (no property in two lanes)
cd /verif
lane() { n=$1; shift; ids=""; for p in "$@"; do ids="$ids $(ls seeded | grep "^$p-" | tr '\n' ' ')"; done
  SEEDED_RESULTS=/verif/build/seeded_final_$n.json nohup /venv/bin/python harness/run_seeded.py $ids > build/seeded_final_$n.out 2>&1 & }
rm -f build/seeded_final_*.json
lane 1 C01 C02 C03 C04 C11
lane 2 C05 C06 C07 C08 C09
lane 3 C10 C12 C13 C14 C15
lane 4 C16 C17 C18 C19 C20
wait
