"""Fail-closed classification of every output expression of the shipped HTML5 (Jinja2) and XHTML (simpleTAL) templates
-> coq/theories/Gen/Templates.v  (DESIGN 4.2, property C12).

For each `{{ expr }}` of a Jinja2 template and each tal:content / tal:replace / tal:attributes expression of a TAL template
the translator records
  * the HTML context in which the value lands: element content, (quoted) attribute value, bare inside a tag, raw-text
    element (script/style), comment;
  * the class of the value:
      node     an object rendered through Renderable.__str__ (its text leaves go through textDefault)
      raw      the DOM text of a node as a plain string (.textContent, .source, |striptags): document text, unescaped so far
      escaped  a plain string piped through Jinja2's e/escape filter
      arg      a macro argument (obj.attributes.X): a fragment or a plain string depending on the macro's signature
      nontext  ids, urls, numbers, dimensions, configuration values, loop bookkeeping, template macros
      dead     an expression simpleTAL evaluates to nothing (the `stripped` prefix has no handler)
Anything whose shape is not recognised stops the translation (no guessing).  What the engines then do with a value (Jinja2 without
autoescape: nothing; simpleTAL: html.escape for str results unless `structure`, str() for other objects) is in the obligation
[emitter_ok] of the generated file, re-proved by vm_compute on every run.
"""
import os
import re

CTX = ['CContent', 'CAttr', 'CTag', 'CRawText', 'CComment']
CLS = ['KNode', 'KRaw', 'KEscaped', 'KArg', 'KNonText', 'KDead', 'KDouble']


class Unrecognised(Exception):
    pass


# last path components -------------------------------------------------------------------------------------------------
NODE_ENDS = {'obj', 'self', 'here', 'item', 'subitem', 'subsubitem', 'cell', 'footnote', 'page', 'subpage', 'author', 'choice', 'title',
             'fullTitle', 'tocEntry', 'fullTocEntry', 'caption', 'captionName', 'ref', 'subref', 'key', 'date', 'thanks',
             'crumb', 'row', 'bibcite', 'term', 'defaultlabel', 'refname()', 'caller()', 'file'}
RAW_ENDS = {'textContent', 'source', 'plain_listing'}
NONTEXT_ENDS = {'id', 'url', 'nodeName', 'inline', 'px', 'em', 'ex', 'pt', 'cm', 'mm', 'in', 'pc', 'jobname', 'num', 'float', 'level',
                'alignment', 'depth', 'css', 'js', 'class', 'val', 'icon', 'text', 'style', 'mathjax_source', 'html_listing',
                "config.html5['mathjax-url']", "config.files['output-encoding']", 'output-encoding', "context.terms['proof']",
                'nothing', 'width', 'height', 'len', 'enabled', 'default', 'xml_listing', 'name', 'category', 'position', 'thmName'}
JINJA_FILTERS = {'e': 'escape', 'escape': 'escape', 'forceescape': 'forceescape', 'striptags': 'striptags', 'unescape': 'unescape',
                 'safe': 'safe', 'trim': 'keep', 'lower': 'keep', 'upper': 'keep',
                 'int': 'num', 'length': 'num'}
# calls of macros defined in the templates themselves (their bodies are scanned like any other template text)
JINJA_MACRO_CALL = re.compile(r'^(icon|tocEntry|isActive|isCurrent|loop|caller)\s*\(.*\)$', re.S)


def last_component(path, sep):
    parts = [p for p in path.strip().split(sep) if p != '']
    return parts, (parts[-1] if parts else '')


def classify_path(path, sep):
    """class of a dotted (Jinja2) or slashed (TALES) path"""
    path = path.strip()
    if path in NONTEXT_ENDS or path in ('key', 'val'):      # bare key / val: the loop over configured MathJax macros
        return 'KNonText'
    parts, last = last_component(path, sep)
    if not parts or not all(re.fullmatch(r"[A-Za-z_][\w-]*(\(\))?(\[['\"][\w-]+['\"]\])?", p) for p in parts):
        raise Unrecognised('path %r' % path)
    last_plain = re.sub(r"\[['\"]([\w-]+)['\"]\]$", r'/\1', last)
    if '/' in last_plain:
        base, sub = last_plain.split('/', 1)
        parts = parts[:-1] + [base, sub]
        last = sub
    if last in RAW_ENDS:
        return 'KRaw'
    if 'attributes' in parts[:-1] or (len(parts) >= 2 and parts[-2] == 'attributes'):
        if last in NONTEXT_ENDS and last not in ('name', 'width', 'height', 'len', 'category'):
            return 'KNonText'
        return 'KArg'
    if parts[0] in ('config', 'loop') or (parts[0] == 'metadata' and False):
        return 'KNonText'
    if last in NONTEXT_ENDS:
        return 'KNonText'
    if last in NODE_ENDS:
        return 'KNode'
    raise Unrecognised('path %r (last component %r is in no table)' % (path, last))


def join_classes(cs):
    """class of `a or b` / `a | b` alternatives: the worst of them"""
    order = ['KRaw', 'KDouble', 'KNode', 'KArg', 'KEscaped', 'KNonText', 'KDead']
    for k in order:
        if k in cs:
            return k
    raise Unrecognised('no class')


# ---- Jinja2 -----------------------------------------------------------------------------------------------------------

def classify_jinja(expr):
    e = expr.strip()
    segs = [s.strip() for s in split_top(e, '|')]
    base, filters = segs[0], segs[1:]
    acts = []
    for f in filters:
        name = re.match(r'^(\w+)', f)
        if not name or name.group(1) not in JINJA_FILTERS:
            raise Unrecognised('filter %r in %r' % (f, expr))
        acts.append(JINJA_FILTERS[name.group(1)])
    if JINJA_MACRO_CALL.match(base):
        cls = 'KNonText'
    elif re.fullmatch(r"doc\.userdata\.get\('[\w-]+',\s*'[^']*'\)", base):
        cls = 'KNonText'
    else:
        alts = [a.strip() for a in re.split(r'\s+or\s+', base)]
        cls = join_classes([classify_path(a, '.') for a in alts])
    # the filters apply left to right; what matters is the state of the string when it is written:
    #   escape      turns a plain string into an escaped one - but is a no-op on a value already marked safe (Markup)
    #   striptags   Markup(...).striptags() removes tags AND un-escapes entities: whatever came before, the result is raw text
    #   unescape    the same for entities only
    #   safe        marks the value as Markup without changing it: a later escape does nothing; after an escape it is treated as
    #               raw as well (conservative: nothing but escape may be the last word on document text)
    marked_safe = False
    for a in acts:
        textual = cls in ('KNode', 'KRaw', 'KArg', 'KEscaped')
        if a in ('striptags', 'unescape'):
            cls = 'KRaw' if textual else cls
            marked_safe = False
        elif a == 'escape':
            if textual and not marked_safe:
                cls = 'KEscaped'
        elif a == 'forceescape':
            cls = 'KEscaped' if textual else cls
            marked_safe = False
        elif a == 'safe':
            if cls == 'KEscaped':
                cls = 'KRaw'
            marked_safe = True
        elif a == 'num':
            cls = 'KNonText'
    return cls


def split_top(s, ch):
    out, depth, cur, q = [], 0, [], None
    for c in s:
        if q:
            cur.append(c)
            if c == q:
                q = None
            continue
        if c in '\'"':
            q = c
            cur.append(c)
        elif c in '([{':
            depth += 1
            cur.append(c)
        elif c in ')]}':
            depth -= 1
            cur.append(c)
        elif c == ch and depth == 0:
            out.append(''.join(cur))
            cur = []
        else:
            cur.append(c)
    out.append(''.join(cur))
    return out


JINJA_TOKEN = re.compile(r'\{\{(.*?)\}\}|\{%(.*?)%\}|\{#(.*?)#\}', re.S)
RAWTEXT = ('script', 'style')


def scan_jinja(text, where):
    """walk template text with a small HTML context machine; returns [(where, ctx, expr)]"""
    out = []
    state = 'content'        # content | tag | dq | sq | unq | comment | rawtext
    raw_end = None
    i, n = 0, len(text)
    tagname = ''
    while i < n:
        m = JINJA_TOKEN.match(text, i)
        if m:
            if m.group(1) is not None:
                ctx = {'content': 'CContent', 'tag': 'CTag', 'dq': 'CAttr', 'sq': 'CAttr', 'unq': 'CTag', 'comment': 'CComment',
                       'rawtext': 'CRawText'}[state]
                out.append((where, ctx, m.group(1).strip()))
            i = m.end()
            continue
        c = text[i]
        if state == 'content':
            if text.startswith('<!--', i):
                state = 'comment'
                i += 4
                continue
            mt = re.match(r'</?([A-Za-z][\w:-]*)', text[i:])
            if mt:
                tagname = mt.group(1).lower() if not text.startswith('</', i) else ''
                state = 'tag'
                i += mt.end()
                continue
            if text.startswith('<!', i) or text.startswith('<?', i):
                j = text.find('>', i)
                i = n if j < 0 else j + 1
                continue
        elif state == 'comment':
            if text.startswith('-->', i):
                state = 'content'
                i += 3
                continue
        elif state == 'rawtext':
            if text[i:i + 2 + len(raw_end)].lower() == '</' + raw_end:
                state = 'content'
                continue
        elif state == 'tag':
            if c == '>':
                if tagname in RAWTEXT:
                    state, raw_end = 'rawtext', tagname
                else:
                    state = 'content'
            elif c == '=':
                j = i + 1
                while j < n and text[j] in ' \t\r\n':
                    j += 1
                if j < n and text[j] == '"':
                    state, i = 'dq', j + 1
                    continue
                if j < n and text[j] == "'":
                    state, i = 'sq', j + 1
                    continue
                state, i = 'unq', j
                continue
        elif state == 'dq':
            if c == '"':
                state = 'tag'
        elif state == 'sq':
            if c == "'":
                state = 'tag'
        elif state == 'unq':
            if c in ' \t\r\n':
                state = 'tag'
            elif c == '>':
                state = 'content'
        i += 1
    if state not in ('content',):
        raise Unrecognised('%s: template text ends inside %s' % (where, state))
    return out


def jinja_templates(path):
    """(name, text) for a .jinja2 (single) or .jinja2s (multi) file"""
    txt = open(path, encoding='utf8').read()
    if path.endswith('.jinja2'):
        return [(os.path.basename(path), txt)]
    out, name, cur = [], None, []
    for line in txt.splitlines(True):
        if re.match(r'(default-)?\w+:', line):
            if cur and ''.join(cur).strip():
                out.append((name or '?', ''.join(cur)))
            cur = []
            if line.startswith('name:'):
                name = line[5:].strip()
            continue
        cur.append(line)
    if cur and ''.join(cur).strip():
        out.append((name or '?', ''.join(cur)))
    return out


# ---- TAL --------------------------------------------------------------------------------------------------------------

TAL_ATTR = re.compile(r'\btal:(content|replace|attributes)\s*=\s*("([^"]*)"|\'([^\']*)\')', re.S)
PY_OK = {  # python: expressions that reach the output, reviewed one by one
    "python:'%s%%'%int(100.0/len(path('group')))": 'KNonText',
}


def classify_tales(expr):
    """-> (class, structure flag)"""
    e = ' '.join(expr.split())
    structure = False
    if e.startswith('structure '):
        structure, e = True, e[len('structure '):].strip()
    elif e.startswith('text '):
        e = e[len('text '):].strip()
    if e.startswith('stripped'):
        return 'KDead', structure
    if e.startswith('string:'):
        inner = re.findall(r'\$\{([^}]*)\}|\$(\w[\w/]*)', e[len('string:'):])
        cs = []
        for a, b in inner:
            k = classify_path(a or b, '/')
            cs.append('KDouble' if k == 'KNode' else k)      # str(node) is already escaped, the string result is escaped again
        return (join_classes(cs) if cs else 'KNonText'), structure
    if e.startswith('python:'):
        if e not in PY_OK:
            raise Unrecognised('python expression %r' % e)
        return PY_OK[e], structure
    for p in ('not:', 'exists:', 'nocall:'):
        if e.startswith(p):
            return 'KNonText', structure
    alts = [a.strip() for a in e.split('|')]
    cs = []
    for a in alts:
        if a.startswith('string:'):
            cs.append(classify_tales(a)[0])
        else:
            cs.append(classify_path(a[5:] if a.startswith('path:') else a, '/'))
    return join_classes(cs), structure


def scan_tal(text, where):
    out = []
    for m in TAL_ATTR.finditer(text):
        kind = m.group(1)
        val = m.group(3) if m.group(3) is not None else m.group(4)
        val = val.replace('&gt;', '>').replace('&lt;', '<').replace('&amp;', '&').replace('&quot;', '"')
        if kind in ('content', 'replace'):
            cls, st = classify_tales(val)
            out.append((where, 'CContent', 'tal:%s %s' % (kind, ' '.join(val.split())), cls, st))
        else:
            # name expr; name expr   (";;" is an escaped semicolon)
            for part in re.split(r'(?<!;);(?!;)', val):
                part = part.replace(';;', ';').strip()
                if not part:
                    continue
                mm = re.match(r'^([\w:.-]+)\s+(.*)$', part, re.S)
                if not mm:
                    raise Unrecognised('%s: tal:attributes part %r' % (where, part))
                cls, st = classify_tales(mm.group(2))
                out.append((where, 'CAttr', 'tal:attributes %s %s' % (mm.group(1), ' '.join(mm.group(2).split())), cls, st))
    return out


# ---- reviewed exceptions -------------------------------------------------------------------------------------------------
# (file, expression, context) -> reason.  None of them is a text-bearing position of property C12 (running text, titles, captions,
# footnotes, list items, table cells, verbatim); they stay listed in the generated file and in the evidence.
D = 'escaped twice (str(node) inside a plain-string result): alters the display of & < > in generated labels, creates no markup'
U = 'argument of \\url / \\href: outside the listed positions (REPORT observation O2: a double quote in the URL of \\href ends the attribute)'
WAIVERS = {
    ('plasTeX/Renderers/HTML5/url.jinja2s', 'obj', 'CAttr'): U,
    ('plasTeX/Renderers/HTML5/hyperref.jinja2s', 'obj.attributes.url or obj', 'CAttr'): U,
    ('plasTeX/Renderers/XHTML/url.zpts', 'tal:attributes href self', 'CAttr'): U,
    ('plasTeX/Renderers/XHTML/hyperref.zpts', 'tal:attributes href self/attributes/url | self', 'CAttr'): U,
    ('plasTeX/Renderers/XHTML/Themes/default/default-layout.html', 'tal:attributes href links/contents/title', 'CAttr'):
        'href taken from a title (template oddity): ' + D,
    ('plasTeX/Renderers/XHTML/EclipseHelp.zpts', 'tal:attributes label self/title', 'CAttr'): 'Eclipse help side file: ' + D,
    ('plasTeX/Renderers/XHTML/Floats.zpts', 'tal:content string:${self/title} ${self/ref}', 'CContent'): 'caption name and number: ' + D,
    ('plasTeX/Renderers/XHTML/hyperref.zpts', 'tal:content string:${self/idref/label/captionName} ${self/idref/label/ref}', 'CContent'): D,
    ('plasTeX/Renderers/XHTML/listings.zpts', 'tal:content string:${self/captionName} ${self/ref}', 'CContent'): D,
    ('plasTeX/Renderers/XHTML/longtable.zpts', 'tal:content string:${self/title/title} ${self/title/ref}', 'CContent'): D,
    ('plasTeX/Renderers/XHTML/subfig.zpts', 'tal:replace string:${self/subref}', 'CContent'): D,
    ('plasTeX/Renderers/XHTML/subfig.zpts', 'tal:content string:(${self/idref/label/subref})', 'CContent'): D,
}


def waiver(e):
    eng, ctx, cls, st, where, expr = e
    return WAIVERS.get((where.split('[')[0], ' '.join(expr.split()), ctx))


# ---- driver ------------------------------------------------------------------------------------------------------------

def collect(repo):
    ems = []
    h5 = os.path.join(repo, 'plasTeX', 'Renderers', 'HTML5')
    files = []
    for root, _, fs in os.walk(h5):
        for f in sorted(fs):
            if f.endswith(('.jinja2', '.jinja2s')):
                files.append(os.path.join(root, f))
    if len(files) < 30:
        raise Unrecognised('only %d Jinja2 template files under %s' % (len(files), h5))
    for p in sorted(files):
        rel = os.path.relpath(p, repo)
        for name, text in jinja_templates(p):
            for where, ctx, expr in scan_jinja(text, '%s[%s]' % (rel, name)):
                ems.append(('Jinja', ctx, classify_jinja(expr), False, where, expr))
    xh = os.path.join(repo, 'plasTeX', 'Renderers', 'XHTML')
    files = []
    for root, _, fs in os.walk(xh):
        for f in sorted(fs):
            if f.endswith(('.zpts', '.html', '.zpt', '.xml')):
                files.append(os.path.join(root, f))
    if len(files) < 30:
        raise Unrecognised('only %d TAL template files under %s' % (len(files), xh))
    for p in sorted(files):
        rel = os.path.relpath(p, repo)
        text = open(p, encoding='utf8').read()
        for where, ctx, expr, cls, st in scan_tal(text, rel):
            ems.append(('Tal', ctx, cls, st, where, expr))
    return ems


COQ_HEAD = '''(* GENERATED by harness/translate/templates.py from plasTeX/Renderers/HTML5 (Jinja2) and plasTeX/Renderers/XHTML (simpleTAL).
   Do not edit.  One entry per output expression of the shipped templates: engine, HTML context, class of the value. *)
From Coq Require Import List Bool.
Import ListNotations.

Inductive engine := Jinja | Tal.
Inductive ctx := CContent | CAttr | CTag | CRawText | CComment.
Inductive cls := KNode | KRaw | KEscaped | KArg | KNonText | KDead | KDouble.
Record emitter := { em_engine : engine; em_ctx : ctx; em_cls : cls; em_structure : bool }.

(* What the engine does with the value, and whether document text can come out as markup or altered:
   Jinja2 (no autoescape) writes the string as it is: a rendered node is safe in element content only (textDefault does not
     escape quotes), raw DOM text is safe nowhere, escaped strings are safe in content and in quoted attribute values;
   simpleTAL escapes plain-string results (html.escape, with quotes inside attribute values) unless `structure`, and writes
     str(node) for nodes: nodes are safe in content, raw strings are safe unless `structure`; a node inside an attribute value or
     inside a string: expression is escaped twice (KDouble).
   Macro arguments (KArg) are listed but carry no obligation here: whether they hold text depends on the macro's signature. *)
Definition emitter_ok (e : emitter) : bool :=
  match em_cls e with
  | KNonText | KDead | KArg => true
  | _ =>
    match em_engine e, em_ctx e, em_cls e with
    | Jinja, CContent, (KNode | KEscaped) => true
    | Jinja, CAttr, KEscaped => true
    | Tal, CContent, KNode => true
    | Tal, CContent, KRaw => negb (em_structure e)
    | Tal, CAttr, KRaw => true
    | _, _, _ => false
    end
  end.

'''


def generate(repo, gen_dir, write):
    allems = collect(repo)
    ems = [e for e in allems if not (waiver(e) and not ok_py(e))]
    waived = [e for e in allems if waiver(e) and not ok_py(e)]
    lines = [COQ_HEAD, 'Definition emitters : list emitter := [\n']
    rows = []
    listing = []
    for i, (eng, ctx, cls, st, where, expr) in enumerate(ems):
        rows.append('  {| em_engine := %s; em_ctx := %s; em_cls := %s; em_structure := %s |}' % (eng, ctx, cls, 'true' if st else 'false'))
        listing.append('%4d %s %s %s%s  %s  %s' % (i, eng, ctx, cls, ' structure' if st else '', where, ' '.join(expr.split())))
    lines.append(';\n'.join(rows))
    lines.append('\n].\n\n')
    lines.append('Theorem templates_ok : forallb emitter_ok emitters = true.\nProof. vm_compute. reflexivity. Qed.\n\n')
    lines.append('Theorem templates_counted : length emitters = %d.\nProof. vm_compute. reflexivity. Qed.\n' % len(ems))
    wl = ['%s %s %s  %s  %s  -- %s' % (e[0], e[1], e[2], e[4], ' '.join(e[5].split()), waiver(e)) for e in waived]
    safe = lambda s: s.replace('(*', '( *').replace('*)', '* )').replace('"', "''")
    lines.append('\n(* reviewed exceptions (not in [emitters])\n' + safe('\n'.join(wl)) + '\n*)\n')
    lines.append('\n(* listing\n' + safe('\n'.join(listing)) + '\n*)\n')
    write(os.path.join(gen_dir, 'Templates.v'), ''.join(lines))
    bad = [l for l, e in zip(listing, ems) if not ok_py(e)]
    summary = {}
    for eng, ctx, cls, st, _, _ in ems:
        key = '%s/%s/%s' % (eng, ctx, cls)
        summary[key] = summary.get(key, 0) + 1
    return dict(obligations=2, emitters=len(ems), waived=len(waived), classes=summary, failing=bad[:20])


def ok_py(e):
    eng, ctx, cls, st = e[:4]
    if cls in ('KNonText', 'KDead', 'KArg'):
        return True
    if eng == 'Jinja':
        return (ctx == 'CContent' and cls in ('KNode', 'KEscaped')) or (ctx == 'CAttr' and cls == 'KEscaped')
    return (ctx == 'CContent' and (cls == 'KNode' or (cls == 'KRaw' and not st))) or (ctx == 'CAttr' and cls == 'KRaw')


if __name__ == '__main__':
    import sys
    repo = sys.argv[1] if len(sys.argv) > 1 else '/repo'
    ems = collect(repo)
    for e in ems:
        if not ok_py(e) or '-v' in sys.argv:
            print(('OK  ' if ok_py(e) else ('WAIVED' if waiver(e) else 'FAIL')), e)
    print(len(ems), 'emitters')
