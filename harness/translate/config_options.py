"""Fail-closed translator: the option declarations of plasTeX  ->  coq/theories/Gen/ConfigOptions.v   (property C16)

Sources read with the `ast` module (never imported, never executed):
  plasTeX/Config.py                      defaultConfig()
  plasTeX/Renderers/<R>/Config.py        addConfig(config)     (every renderer directory that has a Config.py, in the order
                                                                client.collect_renderer_config walks them)
  plasTeX/ConfigManager.py               only to check that StringOption / FloatOption / IntegerOption are `pass` subclasses of
                                         ConfigOption and which methods BooleanOption / MultiStringOption / DictOption define
  plasTeX/DOM/__init__.py                Node.DOCUMENT_LEVEL (used in one default)

Recognised statement shapes inside defaultConfig / addConfig (anything else raises Shape):
  config = ConfigManager()
  <sec> = config.addSection('<name>'[, '<description>'])
  <sec>['<key>'] = <Class>(<doc string>, options='<flags>', default=<constant>)        (positional or keyword arguments)
  class <Name>(DictOption[<T>]):  entryFromString returning entry | int(entry) | float(entry);
                                  registerArgparse = group.add_argument(*self.options, dest=self.name, help=self.description,
                                                                        action='append', nargs=2|'+'[, metavar=...]);
                                  optionally the updateFromDict of LinksOption (recognised by its exact AST)
  if loadConfigFiles: config.read([...])        (defaultConfig() is called without arguments by client.main)
  return config
Defaults: str / int / float / bool constants, [] , {} , and  Node.DOCUMENT_LEVEL - 1.
"""
import ast
import decimal
import hashlib
import os
import sys


class Shape(Exception):
    pass


SCALAR = {'StringOption': 'CStr', 'IntegerOption': 'CInt', 'FloatOption': 'CFloat', 'BooleanOption': 'CBool',
          'MultiStringOption': 'CMulti'}

# ast.dump of LinksOption.updateFromDict as modelled by [update_opt] (CDict _ DLinks) in Model/Config.v
LINKS_UPDATE_SHA = None     # filled in below (computed once from the text the Model was written against)

LINKS_UPDATE_SRC = '''
def updateFromDict(self, data: Dict["str", Any]):
    try:
        data = data[self.name]
        if data is not None:
            for entry in data:
                if len(entry) == 2:
                    self.set("{}-title".format(entry[0]), entry[1])
                elif len(entry) == 3:
                    self.set("{}-url".format(entry[0]), entry[1])
                    self.set("{}-title".format(entry[0]), entry[2])
                else:
                    raise ArgumentTypeError("--link must be 2 or 3 arguments. {} were supplied".format(len(entry)))
    except KeyError:
        pass
'''


def _dump(node):
    return hashlib.sha256(ast.dump(node, annotate_fields=False).encode()).hexdigest()


LINKS_UPDATE_SHA = _dump(ast.parse(LINKS_UPDATE_SRC).body[0])


def _parse(path):
    return ast.parse(open(path, encoding='utf8').read())


def _is_doc(stmt):
    return isinstance(stmt, ast.Expr) and isinstance(stmt.value, ast.Constant) and isinstance(stmt.value.value, str)


def _const_str(n, what):
    if isinstance(n, ast.Constant) and isinstance(n.value, str):
        return n.value
    raise Shape(what + ': expected a string constant, got ' + ast.dump(n)[:80])


def document_level(repo):
    t = _parse(os.path.join(repo, 'plasTeX', 'DOM', '__init__.py'))
    for n in t.body:
        if isinstance(n, ast.ClassDef) and n.name == 'Node':
            for b in n.body:
                if isinstance(b, ast.Assign) and len(b.targets) == 1 and isinstance(b.targets[0], ast.Name) and b.targets[0].id == 'DOCUMENT_LEVEL':
                    v = b.value
                    if (isinstance(v, ast.UnaryOp) and isinstance(v.op, ast.USub) and isinstance(v.operand, ast.Attribute)
                            and isinstance(v.operand.value, ast.Name) and v.operand.value.id == 'sys' and v.operand.attr == 'maxsize'):
                        return -sys.maxsize
                    if isinstance(v, ast.UnaryOp) and isinstance(v.op, ast.USub) and isinstance(v.operand, ast.Constant) and isinstance(v.operand.value, int):
                        return -v.operand.value
                    if isinstance(v, ast.Constant) and isinstance(v.value, int):
                        return v.value
                    raise Shape('Node.DOCUMENT_LEVEL')
    raise Shape('Node.DOCUMENT_LEVEL not found')


def _default(n, repo):
    """-> python value (str, int, float, bool, [], {})"""
    if isinstance(n, ast.Constant) and type(n.value) in (str, int, float, bool):
        return n.value
    if isinstance(n, ast.UnaryOp) and isinstance(n.op, ast.USub) and isinstance(n.operand, ast.Constant) and type(n.operand.value) in (int, float):
        return -n.operand.value
    if isinstance(n, ast.List) and not n.elts:
        return []
    if isinstance(n, ast.List) and all(isinstance(e, ast.Constant) and isinstance(e.value, str) for e in n.elts):
        return [e.value for e in n.elts]
    if isinstance(n, ast.Dict) and not n.keys:
        return {}
    if (isinstance(n, ast.BinOp) and isinstance(n.op, ast.Sub) and isinstance(n.left, ast.Attribute) and isinstance(n.left.value, ast.Name)
            and n.left.value.id == 'Node' and n.left.attr == 'DOCUMENT_LEVEL' and isinstance(n.right, ast.Constant) and type(n.right.value) is int):
        return document_level(repo) - n.right.value
    raise Shape('default value ' + ast.dump(n)[:100])


def _dict_class(c):
    """class X(DictOption[T]) -> (entry kind, style)"""
    if not (len(c.bases) == 1 and isinstance(c.bases[0], ast.Subscript) and isinstance(c.bases[0].value, ast.Name)
            and c.bases[0].value.id == 'DictOption') or c.keywords or c.decorator_list:
        raise Shape('class %s: not a plain DictOption[T] subclass' % c.name)
    ek = style = None
    custom_update = False
    for b in c.body:
        if _is_doc(b):
            continue
        if not isinstance(b, ast.FunctionDef):
            raise Shape('class %s: unexpected statement' % c.name)
        body = [s for s in b.body if not _is_doc(s)]
        if b.name == 'entryFromString':
            if not (len(b.decorator_list) == 1 and isinstance(b.decorator_list[0], ast.Name) and b.decorator_list[0].id == 'classmethod'
                    and [a.arg for a in b.args.args] == ['cls', 'entry'] and len(body) == 1 and isinstance(body[0], ast.Return)):
                raise Shape('%s.entryFromString' % c.name)
            v = body[0].value
            if isinstance(v, ast.Name) and v.id == 'entry':
                ek = 'EKStr'
            elif (isinstance(v, ast.Call) and isinstance(v.func, ast.Name) and v.func.id in ('int', 'float') and len(v.args) == 1
                  and isinstance(v.args[0], ast.Name) and v.args[0].id == 'entry' and not v.keywords):
                ek = 'EKInt' if v.func.id == 'int' else 'EKFloat'
            else:
                raise Shape('%s.entryFromString body' % c.name)
        elif b.name == 'registerArgparse':
            if not (len(body) == 1 and isinstance(body[0], ast.Expr) and isinstance(body[0].value, ast.Call)):
                raise Shape('%s.registerArgparse' % c.name)
            call = body[0].value
            f = call.func
            ok = (isinstance(f, ast.Attribute) and f.attr == 'add_argument' and isinstance(f.value, ast.Name) and f.value.id == 'group'
                  and len(call.args) == 1 and isinstance(call.args[0], ast.Starred) and ast.dump(call.args[0].value, annotate_fields=False)
                  == ast.dump(ast.parse('self.options').body[0].value, annotate_fields=False))
            kw = {k.arg: k.value for k in call.keywords}
            ok = ok and set(kw) - {'metavar'} == {'dest', 'help', 'action', 'nargs'}
            ok = ok and ast.dump(kw['dest'], annotate_fields=False) == ast.dump(ast.parse('self.name').body[0].value, annotate_fields=False)
            ok = ok and isinstance(kw['action'], ast.Constant) and kw['action'].value == 'append'
            if not ok or not isinstance(kw['nargs'], ast.Constant):
                raise Shape('%s.registerArgparse arguments' % c.name)
            if kw['nargs'].value == 2:
                style = 'DPairs'
            elif kw['nargs'].value == '+':
                style = 'DLinks'
            else:
                raise Shape('%s.registerArgparse nargs' % c.name)
        elif b.name == 'updateFromDict':
            if _dump(b) != LINKS_UPDATE_SHA:
                raise Shape('%s.updateFromDict is not the LinksOption.updateFromDict the Model follows' % c.name)
            custom_update = True
        else:
            raise Shape('class %s: unexpected method %s' % (c.name, b.name))
    if ek is None or style is None:
        raise Shape('class %s: entryFromString / registerArgparse missing' % c.name)
    if (style == 'DLinks') != custom_update:
        raise Shape('class %s: nargs=\'+\' goes with the LinksOption.updateFromDict, nargs=2 with the inherited one' % c.name)
    return ek, style


def _option_call(v, classes, repo, where):
    if not (isinstance(v, ast.Call) and isinstance(v.func, ast.Name)):
        raise Shape(where + ': not an option constructor call')
    cname = v.func.id
    if cname in SCALAR:
        cls = SCALAR[cname]
    elif cname in classes:
        cls = '(CDict %s %s)' % classes[cname]
    else:
        raise Shape(where + ': unknown option class ' + cname)
    names = ['description', 'options', 'default']
    args = {}
    for i, a in enumerate(v.args):
        if i >= 3 or isinstance(a, ast.Starred):
            raise Shape(where + ': too many positional arguments')
        args[names[i]] = a
    for k in v.keywords:
        if k.arg not in names or k.arg in args:
            raise Shape(where + ': unexpected keyword ' + str(k.arg))
        args[k.arg] = k.value
    if set(args) != set(names):
        raise Shape(where + ': description / options / default expected')
    _const_str(args['description'], where + ' description')
    options = _const_str(args['options'], where + ' options')
    default = _default(args['default'], repo)
    return dict(cls=cls, options=options, default=default)


def _function(fn, module_classes, repo, is_default_config):
    """-> list of (section key, [(key, option dict), ...])"""
    classes = dict(module_classes)
    secvars = {}
    sections = []
    body = [s for s in fn.body if not _is_doc(s)]
    for s in body:
        where = '%s line %d' % (fn.name, s.lineno)
        if isinstance(s, ast.ClassDef):
            classes[s.name] = _dict_class(s)
            continue
        if isinstance(s, ast.Return):
            if not (is_default_config and isinstance(s.value, ast.Name) and s.value.id == 'config'):
                raise Shape(where + ': return')
            continue
        if isinstance(s, ast.If):
            ok = (is_default_config and isinstance(s.test, ast.Name) and s.test.id == 'loadConfigFiles' and not s.orelse and len(s.body) == 1
                  and isinstance(s.body[0], ast.Expr) and isinstance(s.body[0].value, ast.Call)
                  and ast.dump(s.body[0].value.func, annotate_fields=False) == ast.dump(ast.parse('config.read').body[0].value, annotate_fields=False))
            if not ok:
                raise Shape(where + ': if')
            continue
        if not (isinstance(s, ast.Assign) and len(s.targets) == 1):
            raise Shape(where + ': unexpected statement ' + type(s).__name__)
        t, v = s.targets[0], s.value
        if isinstance(t, ast.Name):
            if (is_default_config and t.id == 'config' and isinstance(v, ast.Call) and isinstance(v.func, ast.Name) and v.func.id == 'ConfigManager'
                    and not v.args and not v.keywords):
                continue
            if (isinstance(v, ast.Call) and isinstance(v.func, ast.Attribute) and v.func.attr == 'addSection' and isinstance(v.func.value, ast.Name)
                    and v.func.value.id == 'config' and 1 <= len(v.args) <= 2 and not v.keywords):
                name = _const_str(v.args[0], where + ' section name')
                if len(v.args) == 2:
                    _const_str(v.args[1], where + ' section description')
                secvars[t.id] = name
                sections.append((name, []))
                continue
            raise Shape(where + ': assignment to ' + t.id)
        if isinstance(t, ast.Subscript) and isinstance(t.value, ast.Name) and t.value.id in secvars:
            key = _const_str(t.slice, where + ' option key')
            sec = secvars[t.value.id]
            opt = _option_call(v, classes, repo, where)
            for sname, opts in sections:
                if sname == sec:
                    opts.append((key, opt))
            continue
        raise Shape(where + ': unexpected assignment target')
    return sections


def check_config_manager(repo):
    """the classes the Model treats uniformly must still be `pass` subclasses; the overriding classes must define exactly
    the methods the Model mirrors"""
    t = _parse(os.path.join(repo, 'plasTeX', 'ConfigManager.py'))
    cl = {n.name: n for n in t.body if isinstance(n, ast.ClassDef)}
    for name in ('StringOption', 'FloatOption', 'IntegerOption'):
        c = cl.get(name)
        if c is None or not all(isinstance(b, ast.Pass) or _is_doc(b) for b in c.body):
            raise Shape('ConfigManager.%s is no longer a `pass` subclass of ConfigOption' % name)
    want = {'ConfigOption': {'__init__', 'registerArgparse', 'valueType', 'updateFromDict', 'setFromString'},
            'BooleanOption': {'registerArgparse', 'setFromString'},
            'MultiStringOption': {'registerArgparse', 'setFromString', 'updateFromDict'},
            'DictOption': {'entryFromString', 'registerArgparse', 'set', 'setFromString', 'updateFromDict'}}
    got = {}
    for name, methods in want.items():
        c = cl.get(name)
        if c is None:
            raise Shape('ConfigManager.%s missing' % name)
        got[name] = {b.name for b in c.body if isinstance(b, ast.FunctionDef)}
    # BooleanOption.setFromString exists only after the repair
    bool_fixed = 'setFromString' in got['BooleanOption']
    for name, methods in want.items():
        g = set(got[name])
        if name == 'BooleanOption':
            g |= {'setFromString'}
        if g != methods:
            raise Shape('ConfigManager.%s defines %s, the Model mirrors %s' % (name, sorted(got[name]), sorted(methods)))
    return bool_fixed


def renderer_configs(repo):
    rdir = os.path.join(repo, 'plasTeX', 'Renderers')
    out = []
    for r in next(os.walk(rdir))[1]:
        p = os.path.join(rdir, r, 'Config.py')
        if os.path.exists(p):
            out.append((r, p))
    return out


def extract(repo):
    bool_fixed = check_config_manager(repo)
    t = _parse(os.path.join(repo, 'plasTeX', 'Config.py'))
    fns = [n for n in t.body if isinstance(n, ast.FunctionDef)]
    if [f.name for f in fns] != ['defaultConfig']:
        raise Shape('Config.py: exactly one function, defaultConfig, expected')
    for n in t.body:
        if not isinstance(n, (ast.Import, ast.ImportFrom, ast.FunctionDef)) and not _is_doc(n):
            raise Shape('Config.py: unexpected module-level statement at line %d' % n.lineno)
    sections = _function(fns[0], {}, repo, True)
    for r, p in renderer_configs(repo):
        t = _parse(p)
        classes = {}
        add = None
        for n in t.body:
            if isinstance(n, (ast.Import, ast.ImportFrom)) or _is_doc(n):
                continue
            if isinstance(n, ast.ClassDef):
                classes[n.name] = _dict_class(n)
            elif isinstance(n, ast.FunctionDef) and n.name == 'addConfig' and [a.arg for a in n.args.args] == ['config']:
                add = n
            else:
                raise Shape('Renderers/%s/Config.py: unexpected module-level statement at line %d' % (r, n.lineno))
        if add is None:
            raise Shape('Renderers/%s/Config.py: addConfig(config) missing' % r)
        sections += _function(add, classes, repo, False)
    return sections, bool_fixed


def flags_of(options):
    return options.split(' ')


def name_of(options):
    return flags_of(options)[0].lstrip('-')


def coq_str(s):
    return '[' + '; '.join(str(ord(c)) for c in s) + ']'


def float_me(x):
    sign, digits, exp = decimal.Decimal(repr(x)).as_tuple()
    m = int(''.join(map(str, digits)))
    return (-m if sign else m), exp


def coq_value(v):
    if isinstance(v, bool):
        return 'VBool %s' % ('true' if v else 'false')
    if isinstance(v, str):
        return 'VStr %s' % coq_str(v)
    if isinstance(v, int):
        return 'VInt (%d)' % v
    if isinstance(v, float):
        return 'VFloat (%d) (%d)' % float_me(v)
    if isinstance(v, list):
        return 'VList [%s]' % '; '.join(coq_str(x) for x in v)
    if isinstance(v, dict) and not v:
        return 'VDict []'
    raise Shape('value %r' % (v,))


def comment_safe(s):
    return repr(s).replace('(*', '( *').replace('*)', '* )').replace('"', "''")


def render(sections):
    out = ['(* GENERATED by harness/translate/config_options.py from plasTeX/Config.py and plasTeX/Renderers/*/Config.py -- do not edit.',
           '   The option table of defaultConfig() followed by the renderer sections, in declaration order. *)',
           'From Coq Require Import List ZArith Bool.', 'Import ListNotations.', 'From Verif Require Import Val Config.',
           'Local Open Scope Z_scope.', '', 'Definition shipped_config : config := [']
    secs = []
    for sname, opts in sections:
        lines = []
        for key, o in opts:
            lines.append('     (* %s : %s default %s *)\n     (%s, mkOpt (mkStatic %s [%s] %s) (%s))' % (
                comment_safe(key), comment_safe(o['options']), comment_safe(o['default']), coq_str(key), coq_str(name_of(o['options'])),
                '; '.join(coq_str(f) for f in flags_of(o['options'])), o['cls'], coq_value(o['default'])))
        secs.append('  (* section %s *)\n  (%s, [\n%s\n  ])' % (comment_safe(sname), coq_str(sname), ';\n'.join(lines)))
    out.append(';\n'.join(secs))
    out.append('].')
    out.append('')
    out.append('Definition run_case_shipped : val -> val := Config.run_case shipped_config.')
    return '\n'.join(out) + '\n'


def table(sections):
    """the same table for the harness: [(section, [(key, name, flags, cls, default)])]"""
    return [(s, [(k, name_of(o['options']), flags_of(o['options']), o['cls'], o['default']) for k, o in opts]) for s, opts in sections]


def generate(repo, gen_dir, write):
    sections, bool_fixed = extract(repo)
    write(os.path.join(gen_dir, 'ConfigOptions.v'), render(sections))
    return dict(sections=len(sections), options=sum(len(o) for _, o in sections), boolean_setFromString_defined=bool_fixed)
