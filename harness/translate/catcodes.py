"""Fail-closed translator: plasTeX/Tokenizer.py + Context.whichCode + encoding.py  ->  Gen/Catcodes.v

Recognised shapes only (anything else raises):
  DEFAULT_CATEGORIES = [ <str constant> | encoding.stringletters(), ... ]      (16 entries)
  VERBATIM_CATEGORIES = [''] * 16 ; VERBATIM_CATEGORIES[<int>] = <str | encoding.stringletters()>
  encoding.stringletters():  return string.ascii_letters
  Context.whichCode: c = self.categories; a chain of  `if char in c[Token.CC_X]: return Token.CC_X`  then `return Token.CC_OTHER`
  Token.CC_X = CatCode(<int>)
  Tokenizer.tokenClasses = [None] * 16 ; tokenClasses[Token.CC_X] = <Name>
"""
import ast
import os
import string


class Shape(Exception):
    pass


def _parse(path):
    return ast.parse(open(path, encoding='utf8').read())


def stringletters(repo):
    t = _parse(os.path.join(repo, 'plasTeX', 'encoding.py'))
    for n in t.body:
        if isinstance(n, ast.FunctionDef) and n.name == 'stringletters':
            body = [b for b in n.body if not (isinstance(b, ast.Expr) and isinstance(b.value, ast.Constant))]
            if len(body) == 1 and isinstance(body[0], ast.Return):
                v = body[0].value
                if isinstance(v, ast.Attribute) and isinstance(v.value, ast.Name) and v.value.id == 'string' and v.attr == 'ascii_letters':
                    return string.ascii_letters
                if isinstance(v, ast.Constant) and isinstance(v.value, str):
                    return v.value
    raise Shape('encoding.stringletters')


def cc_constants(tree):
    cc = {}
    for n in ast.walk(tree):
        if isinstance(n, ast.ClassDef) and n.name == 'Token':
            for b in n.body:
                if isinstance(b, ast.Assign) and len(b.targets) == 1 and isinstance(b.targets[0], ast.Name) and b.targets[0].id.startswith('CC_'):
                    v = b.value
                    if isinstance(v, ast.Call) and isinstance(v.func, ast.Name) and v.func.id == 'CatCode' and len(v.args) == 1 and isinstance(v.args[0], ast.Constant):
                        cc[b.targets[0].id] = int(v.args[0].value)
                    else:
                        raise Shape('Token.' + b.targets[0].id)
    if sorted(cc.values()) != list(range(16)):
        raise Shape('Token.CC_* do not enumerate 0..15')
    return cc


def _strval(v, letters):
    if isinstance(v, ast.Constant) and isinstance(v.value, str):
        return v.value
    if (isinstance(v, ast.Call) and isinstance(v.func, ast.Attribute) and v.func.attr == 'stringletters'
            and isinstance(v.func.value, ast.Name) and v.func.value.id == 'encoding' and not v.args):
        return letters
    raise Shape('category entry ' + ast.dump(v)[:80])


def _cc_ref(v, cc):
    if isinstance(v, ast.Attribute) and isinstance(v.value, ast.Name) and v.value.id == 'Token' and v.attr in cc:
        return cc[v.attr]
    if isinstance(v, ast.Constant) and isinstance(v.value, int):
        return v.value
    raise Shape('category reference ' + ast.dump(v)[:80])


def extract(repo):
    letters = stringletters(repo)
    tok = _parse(os.path.join(repo, 'plasTeX', 'Tokenizer.py'))
    cc = cc_constants(tok)
    default = verbatim = None
    for n in tok.body:
        if isinstance(n, ast.Assign) and len(n.targets) == 1:
            t = n.targets[0]
            if isinstance(t, ast.Name) and t.id == 'DEFAULT_CATEGORIES':
                if not isinstance(n.value, ast.List) or len(n.value.elts) != 16:
                    raise Shape('DEFAULT_CATEGORIES')
                default = [_strval(e, letters) for e in n.value.elts]
            elif isinstance(t, ast.Name) and t.id == 'VERBATIM_CATEGORIES':
                v = n.value
                if (isinstance(v, ast.BinOp) and isinstance(v.op, ast.Mult) and isinstance(v.left, ast.List) and len(v.left.elts) == 1
                        and isinstance(v.left.elts[0], ast.Constant) and v.left.elts[0].value == '' and isinstance(v.right, ast.Constant) and v.right.value == 16):
                    verbatim = [''] * 16
                else:
                    raise Shape('VERBATIM_CATEGORIES')
            elif (isinstance(t, ast.Subscript) and isinstance(t.value, ast.Name) and t.value.id == 'VERBATIM_CATEGORIES'):
                if verbatim is None:
                    raise Shape('VERBATIM_CATEGORIES order')
                idx = t.slice
                verbatim[_cc_ref(idx, cc)] = _strval(n.value, letters)
    if default is None or verbatim is None:
        raise Shape('category tables not found')
    # tokenClasses
    classes = None
    for n in ast.walk(tok):
        if isinstance(n, ast.ClassDef) and n.name == 'Tokenizer':
            for b in n.body:
                if isinstance(b, (ast.Assign, ast.AnnAssign)):
                    tg = b.targets[0] if isinstance(b, ast.Assign) else b.target
                    if isinstance(tg, ast.Name) and tg.id == 'tokenClasses':
                        classes = [None] * 16
                    elif isinstance(tg, ast.Subscript) and isinstance(tg.value, ast.Name) and tg.value.id == 'tokenClasses':
                        if classes is None or not isinstance(b.value, ast.Name):
                            raise Shape('tokenClasses')
                        classes[_cc_ref(tg.slice, cc)] = b.value.id
    if classes is None:
        raise Shape('tokenClasses not found')
    # catcode of each token class
    class_cat = {}
    for n in tok.body:
        if isinstance(n, ast.ClassDef):
            for b in n.body:
                if isinstance(b, ast.Assign) and isinstance(b.targets[0], ast.Name) and b.targets[0].id == 'catcode':
                    try:
                        class_cat[n.name] = _cc_ref(b.value, cc)
                    except Shape:
                        pass
    tokcat = [(-1 if c is None else class_cat.get(c, -2)) for c in classes]
    if -2 in tokcat:
        raise Shape('a token class without a catcode')
    # whichCode chain
    ctx = _parse(os.path.join(repo, 'plasTeX', 'Context.py'))
    chain = None
    for n in ast.walk(ctx):
        if isinstance(n, ast.FunctionDef) and n.name == 'whichCode':
            body = [b for b in n.body if not (isinstance(b, ast.Expr) and isinstance(b.value, ast.Constant))]
            a0 = body[0]
            if not (isinstance(a0, ast.Assign) and isinstance(a0.targets[0], ast.Name) and a0.targets[0].id == 'c'
                    and isinstance(a0.value, ast.Attribute) and a0.value.attr == 'categories'):
                raise Shape('whichCode prologue')
            chain = []
            for b in body[1:-1]:
                if not (isinstance(b, ast.If) and not b.orelse and len(b.body) == 1 and isinstance(b.body[0], ast.Return)
                        and isinstance(b.test, ast.Compare) and len(b.test.ops) == 1 and isinstance(b.test.ops[0], ast.In)
                        and isinstance(b.test.left, ast.Name) and b.test.left.id == 'char'):
                    raise Shape('whichCode chain element')
                sub = b.test.comparators[0]
                if not (isinstance(sub, ast.Subscript) and isinstance(sub.value, ast.Name) and sub.value.id == 'c'):
                    raise Shape('whichCode chain subscript')
                k = _cc_ref(sub.slice, cc)
                if _cc_ref(b.body[0].value, cc) != k:
                    raise Shape('whichCode returns a different class than it tests')
                chain.append(k)
            last = body[-1]
            if not (isinstance(last, ast.Return) and _cc_ref(last.value, cc) == 12):
                raise Shape('whichCode default')
    if chain is None:
        raise Shape('whichCode not found')
    return dict(default=default, verbatim=verbatim, chain=chain, tokcat=tokcat, letters=letters)


def emit(d):
    def ns(s):
        return '[' + '; '.join(str(ord(c)) for c in s) + ']'
    out = ['(* GENERATED by harness/translate/catcodes.py from plasTeX/Tokenizer.py, Context.py, encoding.py -- do not edit *)',
           'From Coq Require Import List NArith.', 'Import ListNotations.', 'Local Open Scope N_scope.',
           'Definition gen_letters : list N := %s.' % ns(d['letters']),
           'Definition gen_default_table : list (list N) :=\n  [' + ';\n   '.join(ns(s) for s in d['default']) + '].',
           'Definition gen_verbatim_table : list (list N) :=\n  [' + ';\n   '.join(ns(s) for s in d['verbatim']) + '].',
           '(* order of the tests in Context.whichCode; anything not found is CC_OTHER = 12 *)',
           'Definition gen_chain : list N := [' + '; '.join(str(k) for k in d['chain']) + '].',
           '(* Tokenizer.tokenClasses: category carried by the token class registered for each code (None = not registered) *)',
           'Definition gen_token_class_cat : list (option N) := [' + '; '.join('None' if k < 0 else 'Some %d' % k for k in d['tokcat']) + '].',
           '']
    return '\n'.join(out)


def generate(repo, gen_dir):
    import sys
    sys.path.insert(0, os.path.dirname(os.path.dirname(os.path.abspath(__file__))))
    import core
    d = extract(repo)
    core.write_if_changed(os.path.join(gen_dir, 'Catcodes.v'), emit(d))
    return d


if __name__ == '__main__':
    import sys
    print(emit(extract(sys.argv[1] if len(sys.argv) > 1 else '/repo')))
