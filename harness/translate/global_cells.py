"""Fail-closed translator for C17: every write to class-level / module-level state under plasTeX/  ->  Gen/GlobalCells.v

A *cell* is a piece of state owned by the Python process and not by a TeXDocument / Context instance: an attribute of a class
object or a module-level variable.  The translator walks every .py file under plasTeX/ with the `ast` module and lists every
statement that writes such a cell.  Recognised shapes of a write (anything that looks like a class-level write but has another
shape raises Shape, which the pipeline reports as "tie broken: Gen/GlobalCells.v"):

  inside a function / method
    type(self).x = v | type(self).x op= v                      attribute of the class of the instance (cell family: one per subclass)
    X.__class__.x = v                                            same
    Cls.x = v | Cls.x op= v | del Cls.x | Cls.x[k] = v           Cls a name bound at module level to a class (ClassDef, or imported CamelCase /
                                                                 known class name), also dotted Mod.Cls.x with Mod an imported module
    Cls.x.append/pop/extend/insert/remove/clear/update/setdefault/add/discard/sort/reverse(...)   in-place mutation of a class attribute
    del Cls.x[:]                                                 clearing a class-level list
    a = Cls.x  /  a = type(self).x   followed by  a.append/pop/...(...)                        mutation through a local alias
    cls.x = v | cls.x[k] = v           inside a @classmethod (first parameter cls)
    document.context['name'].x = v | <...>.context['name'].x = v                               attribute of the macro class registered under 'name'
    global N; N = v   |   N[k] = v, N.append(...) with N a module-level mutable                 module-level variable
    setattr(T, name, v) / delattr(T, name)   with T one of: type(self)-alias (tself), base (Renderers.mixin/unmix), an instance name
  at module level (executed once, when the module is first imported)
    Cls.x = v       with Cls imported from another module                                       import-time patch of a shared class
    Cls.new(...)    ColumnType.new registrations (Arrays.py)                                    registry initialisation (not a run-time write)

For every cell the translator also decides, from the source, how the cell is isolated between documents:
    reset    the cell is assigned its initial value in Context.resetParserState(), which Context.__init__ calls (one Context per document)
    perdoc   the class that owns the cell is re-created per document: Context.importMacros wraps every ParameterCommand subclass in
             `type(name, (value,), {...})`; Context.newcount/newdimen/newskip/newmuskip/newif create their classes with type(...)
    memo     the attribute is a cache of a pure function of the class's own definition ('@arguments', '@locals': written once,
             guarded by `in vars(tself)`)
    render   written by the renderer only (Renderers/): Node.renderer and the mixin/unmix pair
    env      process environment and logging (sys.path, sys.modules, os.environ, Logging.*): not parsing state
    none     nothing in the source isolates the cell: a write that is not undone before the document ends is seen by the next document
"""
import ast
import json
import os
import re


class Shape(Exception):
    pass


MUTATORS = {'append', 'pop', 'extend', 'insert', 'remove', 'clear', 'update', 'setdefault', 'popitem', 'add', 'discard', 'sort',
            'reverse', 'appendleft', 'popleft'}

# cells that are process environment / logging / identifier generation rather than parsing state (category env)
ENV_BASES = {'sys', 'os', 'logging'}

KINDS = {'int': 0, 'stack': 1, 'value': 2, 'map': 3, 'memo': 4}
ISOS = {'none': 0, 'reset': 1, 'perdoc': 2, 'memo': 3, 'render': 4, 'env': 5, 'argscope': 6}


def _parse(path):
    import warnings
    with warnings.catch_warnings():
        warnings.simplefilter('ignore')
        try:
            return ast.parse(open(path, encoding='utf8').read())
        except SyntaxError as e:
            raise Shape('%s does not parse: %s' % (path, e))


def _modname(rel):
    m = rel[:-3].replace(os.sep, '.')
    return m[:-9] if m.endswith('.__init__') else m


class ModuleInfo:
    def __init__(self, rel, tree):
        self.rel = rel
        self.name = _modname(rel)
        self.tree = tree
        self.classes = {}        # name -> ClassDef (module level, nested as Outer.Inner)
        self.imported = {}       # local name -> ('module', dotted) | ('name', module, orig)
        self.mutables = set()    # module-level names bound to list/dict/set displays or constructor calls
        self.modvars = set()     # every module-level assigned name
        for n in tree.body:
            if isinstance(n, ast.ClassDef):
                self._add_class(n, n.name)
            elif isinstance(n, ast.Import):
                for a in n.names:
                    self.imported[(a.asname or a.name).split('.')[0]] = ('module', a.name if a.asname else a.name.split('.')[0])
            elif isinstance(n, ast.ImportFrom):
                for a in n.names:
                    self.imported[a.asname or a.name] = ('name', n.module or '', a.name)
            elif isinstance(n, (ast.Assign, ast.AnnAssign)):
                tg = n.targets if isinstance(n, ast.Assign) else [n.target]
                for t in tg:
                    if isinstance(t, ast.Name):
                        self.modvars.add(t.id)
                        v = n.value
                        if isinstance(v, (ast.List, ast.Dict, ast.Set, ast.ListComp, ast.DictComp)) or (
                                isinstance(v, ast.Call) and isinstance(v.func, ast.Name) and v.func.id in ('dict', 'list', 'set', 'defaultdict', 'OrderedDict')):
                            self.mutables.add(t.id)

    def _add_class(self, node, qual):
        self.classes[qual] = node
        for b in node.body:
            if isinstance(b, ast.ClassDef):
                self._add_class(b, qual + '.' + b.name)


def _dotted(e):
    """Name / Attribute chain -> ['a','b','c'] or None"""
    out = []
    while isinstance(e, ast.Attribute):
        out.append(e.attr)
        e = e.value
    if isinstance(e, ast.Name):
        out.append(e.id)
        return out[::-1]
    return None


def _is_type_self(e):
    return (isinstance(e, ast.Call) and isinstance(e.func, ast.Name) and e.func.id == 'type' and len(e.args) == 1
            and isinstance(e.args[0], ast.Name)) or (isinstance(e, ast.Attribute) and e.attr == '__class__')


CTX_NAMES = {'context'}      # names bound to a Context in the function being scanned (set by Collector.function)


def _ctx_key(sl):
    """the key of a context lookup: constant -> the name; '<const>' + expr -> '*<const>' (a computed name with a constant prefix);
    anything else -> '*'"""
    if isinstance(sl, ast.Constant) and isinstance(sl.value, str):
        return sl.value
    if isinstance(sl, ast.BinOp) and isinstance(sl.op, ast.Add) and isinstance(sl.left, ast.Constant) and isinstance(sl.left.value, str):
        return '*' + sl.left.value
    if isinstance(sl, ast.BinOp) and isinstance(sl.op, ast.Mod) and isinstance(sl.left, ast.Constant) and isinstance(sl.left.value, str):
        return '*' + sl.left.value.split('%')[0]
    return '*'


def _ctx_item(e):
    """<...>.context['name'] -> 'name' ; <...>.context[<expr>] -> '*' or '*<prefix>' ; else None.  Also ctx[...] when ctx is a local
    name bound to `<...>.context`"""
    if isinstance(e, ast.Subscript) and isinstance(e.value, ast.Attribute) and e.value.attr == 'context':
        return _ctx_key(e.slice)
    if isinstance(e, ast.Subscript) and isinstance(e.value, ast.Name) and e.value.id in CTX_NAMES:
        return _ctx_key(e.slice)
    return None


class Collector:
    def __init__(self, repo):
        self.repo = repo
        self.mods = {}
        self.writes = []     # dicts: cell, how, where, fn, phase
        self.skipped = {'instance-attribute-writes': 0, 'local-container-mutations': 0}
        self.classnames = set()

    def load(self):
        root = os.path.join(self.repo, 'plasTeX')
        for dp, dn, fn in os.walk(root):
            dn.sort()
            for f in sorted(fn):
                if f.endswith('.py'):
                    p = os.path.join(dp, f)
                    rel = os.path.relpath(p, self.repo)
                    if os.sep + 'simpletal' + os.sep in rel:
                        continue     # vendored template engine, no plasTeX parsing state
                    mi = ModuleInfo(rel, _parse(p))
                    self.mods[mi.name] = mi
        for mi in self.mods.values():
            for q in mi.classes:
                self.classnames.add(q.split('.')[-1])

    # ---- resolution of a base expression to a class-like owner -------------------------------------------------
    def owner(self, mi, e, fn_args, aliases, in_classmethod):
        """-> (category, owner-string) with category in class/family/ctx/module/env/instance"""
        if _is_type_self(e):
            return ('family', 'type(self)')
        ci = _ctx_item(e)
        if ci is not None:
            return ('ctx', ci)
        d = _dotted(e)
        if d is None:
            return ('instance', None)
        head = d[0]
        if head in aliases and len(d) == 1:
            return aliases[head]
        if head in ('self',):
            return ('instance', None)
        if in_classmethod and head == 'cls' and len(d) == 1:
            return ('family', 'cls')
        if head in fn_args or head in ('self',):
            return ('instance', None)
        if head in ENV_BASES and head in mi.imported:
            return ('env', '.'.join(d))
        # a class defined in this module (possibly nested Outer.Inner)
        q = '.'.join(d)
        if q in mi.classes:
            return ('class', mi.name + ':' + q)
        if head in mi.classes:
            return ('class', mi.name + ':' + q)
        if head in mi.imported:
            kind = mi.imported[head]
            if kind[0] == 'module':
                if len(d) == 1:
                    return ('module', kind[1])
                return ('class', self._resolve_imported(kind[1], d[1:]))
            # imported name: a class if some module defines a class of that name, or a module
            full = (kind[1] + '.' + kind[2]) if kind[1] else kind[2]
            if full in self.mods or ('plasTeX.' + full) in self.mods:
                if len(d) == 1:
                    return ('module', full)
                return ('class', self._resolve_imported(full, d[1:]))
            if kind[2] in self.classnames or kind[2][:1].isupper():
                return ('class', self._resolve_imported(kind[1], [kind[2]] + d[1:]))
            return ('instance', None)
        return ('instance', None)

    def _resolve_imported(self, module, path):
        """find the defining module of class path[0] following `from X import *` one level; returns 'mod:Qual'"""
        q = '.'.join(path)
        for cand in (module, 'plasTeX.' + module):
            mi = self.mods.get(cand)
            if mi is not None:
                if q in mi.classes or path[0] in mi.classes:
                    return cand + ':' + q
                # re-exported (plasTeX.Base does `from ... import *`): search every module for a unique class of that name
                break
        hits = sorted(m.name for m in self.mods.values() if path[0] in m.classes and m.name.startswith('plasTeX'))
        hits = [h for h in hits if not h.startswith('plasTeX.Packages')] or hits
        if len(hits) >= 1:
            return hits[0] + ':' + q
        return (module or '?') + ':' + q

    # ---- walking ------------------------------------------------------------------------------------------------
    def run(self):
        self.load()
        for mi in self.mods.values():
            self.module_level(mi)
            for node in ast.walk(mi.tree):
                if isinstance(node, (ast.FunctionDef, ast.AsyncFunctionDef)):
                    self.function(mi, node)
        return self.writes

    def add(self, mi, node, fn, cat, owner, attr, how, phase='run'):
        self.writes.append(dict(cat=cat, owner=owner, attr=attr, how=how, where='%s:%d' % (mi.rel, node.lineno), fn=fn, phase=phase,
                                module=mi.name))

    def module_level(self, mi):
        for n in mi.tree.body:
            tg = []
            if isinstance(n, ast.Assign):
                tg = n.targets
            elif isinstance(n, ast.AugAssign):
                tg = [n.target]
            for t in tg:
                if isinstance(t, ast.Attribute):
                    cat, own = self.owner(mi, t.value, set(), {}, False)
                    if cat == 'class':
                        # import-time patch of a class: only a leak if the class lives in another module
                        if not own.startswith(mi.name + ':'):
                            self.add(mi, n, '<module>', 'class', own, t.attr, 'set', phase='import')
                    elif cat in ('module',):
                        self.add(mi, n, '<module>', 'module', own, t.attr, 'set', phase='import')
                    elif cat == 'env':
                        pass
                    elif cat == 'instance':
                        # module-level `name.attr = v` on something we cannot resolve: fail closed unless it is a logger/handler object
                        d = _dotted(t.value)
                        if d and d[0] in mi.modvars:
                            continue
                        raise Shape('%s:%d module-level attribute assignment on unresolved base %s' % (mi.rel, n.lineno, ast.unparse(t)))

    def function(self, mi, fn):
        fn_args = {a.arg for a in fn.args.args + fn.args.kwonlyargs}
        if fn.args.vararg:
            fn_args.add(fn.args.vararg.arg)
        if fn.args.kwarg:
            fn_args.add(fn.args.kwarg.arg)
        in_cm = any((isinstance(d, ast.Name) and d.id == 'classmethod') for d in fn.decorator_list)
        globals_ = set()
        aliases = {}
        own_nodes = []
        CTX_NAMES.clear()
        CTX_NAMES.add('context')
        for n in ast.walk(fn):
            if isinstance(n, ast.Assign) and len(n.targets) == 1 and isinstance(n.targets[0], ast.Name) \
                    and isinstance(n.value, ast.Attribute) and n.value.attr == 'context':
                CTX_NAMES.add(n.targets[0].id)

        def walk(node):
            for ch in ast.iter_child_nodes(node):
                if isinstance(ch, (ast.FunctionDef, ast.AsyncFunctionDef, ast.ClassDef, ast.Lambda)):
                    continue     # nested definitions are visited on their own
                own_nodes.append(ch)
                walk(ch)
        walk(fn)
        for n in own_nodes:
            if isinstance(n, ast.Global):
                globals_.update(n.names)
        # imports made inside the function extend the module's import table for this function only
        local_imports = [n for n in own_nodes if isinstance(n, (ast.Import, ast.ImportFrom))]
        if local_imports:
            li = ModuleInfo(mi.rel, ast.Module(body=local_imports, type_ignores=[]))
            shadow = ModuleInfo.__new__(ModuleInfo)
            shadow.__dict__.update(mi.__dict__)
            shadow.imported = dict(mi.imported, **li.imported)
            mi = shadow
        # names bound inside the function are local variables, whatever the module calls a class of the same name
        for n in own_nodes:
            if isinstance(n, ast.Name) and isinstance(n.ctx, ast.Store) and n.id not in globals_:
                fn_args.add(n.id)
            elif isinstance(n, (ast.Import, ast.ImportFrom)):
                pass
        fn_args -= {a.asname or a.name.split('.')[0] for n in local_imports for a in n.names}
        # local aliases of class-level containers:  a = Cls.x  /  a = type(self).x  /  tself = type(self)
        for n in own_nodes:
            if isinstance(n, ast.Assign) and len(n.targets) == 1 and isinstance(n.targets[0], ast.Name):
                v = n.value
                nm = n.targets[0].id
                if _is_type_self(v):
                    aliases[nm] = ('family', 'type(self)')
                elif isinstance(v, ast.Attribute):
                    cat, own = self.owner(mi, v.value, fn_args, {}, in_cm)
                    if cat in ('class', 'family'):
                        aliases[nm] = ('alias', (cat, own, v.attr))
        # a loop variable that runs over classes (`for owner in cls.__mro__`, `.__bases__`, `.__subclasses__()`, `subclasses(x)`):
        # an attribute assignment through it is a class-level write that can reach the shared base classes
        for n in own_nodes:
            if isinstance(n, (ast.For, ast.comprehension)) and isinstance(n.target, ast.Name):
                it = n.iter
                over_classes = any((isinstance(x, ast.Attribute) and x.attr in ('__mro__', '__bases__', '__subclasses__'))
                                   or (isinstance(x, ast.Call) and isinstance(x.func, ast.Name) and x.func.id in ('subclasses', 'getmro'))
                                   for x in ast.walk(it))
                if over_classes:
                    aliases[n.target.id] = ('family', 'mro')
        for n in own_nodes:
            tg, how = [], 'set'
            if isinstance(n, ast.Assign):
                tg = list(n.targets)
            elif isinstance(n, ast.AugAssign):
                tg, how = [n.target], 'aug' + type(n.op).__name__
            elif isinstance(n, ast.AnnAssign) and n.value is not None:
                tg = [n.target]
            elif isinstance(n, ast.Delete):
                tg, how = list(n.targets), 'del'
            flat = []
            for t in tg:
                flat += list(t.elts) if isinstance(t, (ast.Tuple, ast.List)) else [t]
            for t in flat:
                sub = False
                base = t
                while isinstance(base, ast.Subscript):
                    # context['name'] itself is a subscript: stop when the subscript is the context lookup
                    if _ctx_item(base) is not None:
                        break
                    sub = True
                    base = base.value
                if isinstance(base, ast.Name):
                    if base.id in globals_ and not sub:
                        selfassign = isinstance(n, ast.Assign) and isinstance(n.value, ast.Name) and n.value.id == base.id
                        self.add(mi, n, fn.name, 'module', mi.name, base.id, 'selfassign' if selfassign else how)
                    elif sub and base.id in mi.mutables and base.id not in fn_args:
                        self.add(mi, n, fn.name, 'module', mi.name, base.id, 'setitem' if how != 'del' else 'delitem')
                    elif sub and base.id in aliases and aliases[base.id][0] == 'alias':
                        cat, own, attr = aliases[base.id][1]
                        self.add(mi, n, fn.name, cat, own, attr, 'setitem' if how != 'del' else 'delitem')
                    continue
                if _ctx_item(base) is not None and base is t:
                    continue   # context['x'] = cls : per-document namespace, not a class-level write
                if isinstance(base, ast.Attribute):
                    cat, own = self.owner(mi, base.value, fn_args, aliases, in_cm)
                    h = how if not sub else ('setitem' if how != 'del' else ('clear' if isinstance(t.slice, ast.Slice) else 'delitem'))
                    if cat == 'instance':
                        self.skipped['instance-attribute-writes'] += 1
                    elif cat == 'alias':
                        # a.x = v where a aliases a class attribute: a write into the object held by the cell
                        c2, own2, attr2 = own
                        self.add(mi, n, fn.name, c2, own2, attr2, 'inner-' + h)
                    else:
                        self.add(mi, n, fn.name, cat, own, base.attr, ('mro-' + h) if own == 'mro' else h)
            if isinstance(n, ast.Call) and isinstance(n.func, ast.Attribute) and n.func.attr in MUTATORS:
                b = n.func.value
                if isinstance(b, ast.Name):
                    if b.id in aliases and aliases[b.id][0] == 'alias':
                        cat, own, attr = aliases[b.id][1]
                        self.add(mi, n, fn.name, cat, own, attr, n.func.attr)
                    elif b.id in mi.mutables and b.id not in fn_args and not self._is_local(own_nodes, b.id):
                        self.add(mi, n, fn.name, 'module', mi.name, b.id, n.func.attr)
                    else:
                        self.skipped['local-container-mutations'] += 1
                elif isinstance(b, ast.Attribute):
                    cat, own = self.owner(mi, b.value, fn_args, aliases, in_cm)
                    if cat in ('class', 'family', 'ctx', 'module', 'env'):
                        self.add(mi, n, fn.name, cat, own, b.attr, n.func.attr)
                    else:
                        self.skipped['local-container-mutations'] += 1
            if isinstance(n, ast.Call) and isinstance(n.func, ast.Name) and n.func.id in ('setattr', 'delattr'):
                if len(n.args) < 2:
                    raise Shape('%s:%d %s with %d arguments' % (mi.rel, n.lineno, n.func.id, len(n.args)))
                tgt = n.args[0]
                key = n.args[1].value if isinstance(n.args[1], ast.Constant) else None
                cat, own = self.owner(mi, tgt, fn_args, aliases, in_cm)
                if isinstance(tgt, ast.Name) and tgt.id == 'base' and fn.name in ('mixin', 'unmix'):
                    self.add(mi, n, fn.name, 'family', 'mixin-base', '*', n.func.id)
                elif cat in ('family',):
                    if key is None:
                        # setattr(tself, localsname, loc): resolve a local string constant
                        key = self._const_local(own_nodes, n.args[1])
                    if key is None:
                        raise Shape('%s:%d setattr on a class with a computed attribute name' % (mi.rel, n.lineno))
                    self.add(mi, n, fn.name, 'family', own, key, n.func.id)
                elif cat in ('class', 'module', 'ctx'):
                    raise Shape('%s:%d %s on %s: unrecognised dynamic class-level write' % (mi.rel, n.lineno, n.func.id, ast.unparse(tgt)))
                else:
                    self.skipped['instance-attribute-writes'] += 1
            if isinstance(n, ast.Call) and isinstance(n.func, ast.Name) and n.func.id in ('globals', 'vars', 'locals'):
                # vars(x)[k] read is fine; a write shows up as a Subscript store whose base is this Call
                pass
            if isinstance(n, ast.Subscript) and isinstance(n.ctx, (ast.Store, ast.Del)) and isinstance(n.value, ast.Call) \
                    and isinstance(n.value.func, ast.Name) and n.value.func.id in ('globals', 'vars'):
                if n.value.func.id == 'globals':
                    self.add(mi, n, fn.name, 'module', mi.name, '*', 'setitem')
                else:
                    raise Shape('%s:%d write through vars(...)' % (mi.rel, n.lineno))
            if isinstance(n, ast.Attribute) and n.attr == '__dict__' and isinstance(getattr(n, 'ctx', None), ast.Load):
                pass

    @staticmethod
    def _is_local(nodes, name):
        for n in nodes:
            if isinstance(n, ast.Assign):
                for t in n.targets:
                    if isinstance(t, ast.Name) and t.id == name:
                        return True
        return False

    @staticmethod
    def _const_local(nodes, e):
        if isinstance(e, ast.Name):
            vals = [n.value.value for n in nodes if isinstance(n, ast.Assign) and len(n.targets) == 1 and isinstance(n.targets[0], ast.Name)
                    and n.targets[0].id == e.id and isinstance(n.value, ast.Constant) and isinstance(n.value.value, str)]
            if len(vals) == 1:
                return vals[0]
        return None


# ---------------------------------------------------------------------------------------------------------------------
# isolation facts read from the source

def _find_class(tree, name):
    for n in tree.body:
        if isinstance(n, ast.ClassDef) and n.name == name:
            return n
    return None


def _find_def(cls, name):
    for n in cls.body:
        if isinstance(n, ast.FunctionDef) and n.name == name:
            return n
    return None


def reset_cells(repo, col):
    """cells assigned in Context.resetParserState, provided Context.__init__ calls it unconditionally (top level of its body)"""
    mi = col.mods['plasTeX.Context']
    ctx = _find_class(mi.tree, 'Context')
    if ctx is None:
        raise Shape('Context.py: class Context not found')
    init = _find_def(ctx, '__init__')
    if init is None:
        raise Shape('Context.__init__ not found')
    called = set()
    for st in init.body:      # top-level statements only: an unconditional call
        if isinstance(st, ast.Expr) and isinstance(st.value, ast.Call):
            f = st.value.func
            if isinstance(f, ast.Attribute) and isinstance(f.value, ast.Name) and f.value.id == 'self':
                called.add(f.attr)
    out = {}
    for name in sorted(called):
        fn = _find_def(ctx, name)
        if fn is None:
            continue
        # local imports inside the reset function
        local = ModuleInfo(mi.rel, ast.Module(body=[s for s in fn.body if isinstance(s, (ast.Import, ast.ImportFrom))], type_ignores=[]))
        local.imported = dict(mi.imported, **local.imported)
        local.classes = mi.classes
        # a reset function consists of nothing but local imports, a docstring, assignments and `del X.y[:]`; any other method called
        # by __init__ (push, loadBaseMacros) is not one, and what it assigns is not counted as a reset (conservative)
        if not all(isinstance(st, (ast.Import, ast.ImportFrom, ast.Assign, ast.Delete)) or
                   (isinstance(st, ast.Expr) and isinstance(st.value, ast.Constant)) for st in fn.body):
            continue
        if not any(isinstance(st, (ast.Assign, ast.Delete)) for st in fn.body):
            continue
        for st in fn.body:
            if isinstance(st, (ast.Import, ast.ImportFrom)) or (isinstance(st, ast.Expr) and isinstance(st.value, ast.Constant)):
                continue
            tg, val = [], None
            if isinstance(st, ast.Assign):
                tg, val = st.targets, st.value
            elif isinstance(st, ast.Delete):
                tg, val = st.targets, 'clear'
            else:
                raise Shape('Context.%s line %d: only assignments of constants and `del X.y[:]` are recognised' % (name, st.lineno))
            for t in tg:
                if val == 'clear':
                    if not (isinstance(t, ast.Subscript) and isinstance(t.slice, ast.Slice) and t.slice.lower is None and t.slice.upper is None):
                        raise Shape('Context.%s line %d: del of something other than a full slice' % (name, st.lineno))
                    t, v = t.value, []
                else:
                    if not isinstance(val, ast.Constant):
                        raise Shape('Context.%s line %d: reset to a non-constant' % (name, st.lineno))
                    v = val.value
                if not isinstance(t, ast.Attribute):
                    raise Shape('Context.%s line %d: reset target' % (name, st.lineno))
                cat, own = col.owner(local, t.value, set(), {}, False)
                if cat != 'class':
                    raise Shape('Context.%s line %d: reset target %s does not name a class' % (name, st.lineno, ast.unparse(t)))
                out[own + '.' + t.attr] = v
    return out


def perdoc_families(repo, col):
    """class families whose members are re-created per document context"""
    mi = col.mods['plasTeX.Context']
    ctx = _find_class(mi.tree, 'Context')
    fams = {}
    imp = _find_def(ctx, 'importMacros')
    if imp is None:
        raise Shape('Context.importMacros not found')
    # shape:  if isinstance(value, type) and issubclass(value, plasTeX.<Fam>): value = type(value.__name__, (value,), {...})
    for n in ast.walk(imp):
        if isinstance(n, ast.If):
            # exactly `isinstance(value, type) and issubclass(value, plasTeX.<Fam>)`: any further condition would make only part
            # of the family per-document, which this translator does not try to describe (then nothing is recognised)
            t = n.test
            if not (isinstance(t, ast.BoolOp) and isinstance(t.op, ast.And) and len(t.values) == 2):
                continue
            a, b = t.values
            if not (isinstance(a, ast.Call) and isinstance(a.func, ast.Name) and a.func.id == 'isinstance' and len(a.args) == 2
                    and isinstance(a.args[1], ast.Name) and a.args[1].id == 'type'):
                continue
            if not (isinstance(b, ast.Call) and isinstance(b.func, ast.Name) and b.func.id == 'issubclass' and len(b.args) == 2
                    and isinstance(a.args[0], ast.Name) and isinstance(b.args[0], ast.Name) and a.args[0].id == b.args[0].id):
                continue
            d = _dotted(b.args[1])
            fam = d[-1] if d else None
            if fam is None or n.orelse:
                continue
            ok = False
            for st in n.body:
                if (isinstance(st, ast.Assign) and len(st.targets) == 1 and isinstance(st.targets[0], ast.Name) and isinstance(st.value, ast.Call)
                        and isinstance(st.value.func, ast.Name) and st.value.func.id == 'type' and len(st.value.args) == 3):
                    bases = st.value.args[1]
                    if isinstance(bases, ast.Tuple) and len(bases.elts) == 1 and isinstance(bases.elts[0], ast.Name) \
                            and bases.elts[0].id == st.targets[0].id:
                        ok = True
            if ok:
                fams[fam] = 'Context.importMacros wraps every %s subclass in a per-context subclass' % fam
    # Context.newcount / newdimen / newskip / newmuskip / newif build their classes with type(...) or a class statement: per context
    for name in ('newcount', 'newdimen', 'newskip', 'newmuskip', 'newif', 'newcounter'):
        fn = _find_def(ctx, name)
        if fn is None:
            raise Shape('Context.%s not found' % name)
        if not any(isinstance(c, ast.Call) and isinstance(c.func, ast.Name) and c.func.id == 'type' and len(c.args) == 3 for c in ast.walk(fn)):
            raise Shape('Context.%s no longer creates its class with type(...)' % name)
    return fams


# ---------------------------------------------------------------------------------------------------------------------

def family_root(col, w):
    """for type(self).x / cls.x writes: the class (in the defining module) whose method contains the write"""
    mi = col.mods[w['module']]
    line = int(w['where'].split(':')[1])
    best = None
    for q, c in mi.classes.items():
        if c.lineno <= line <= (c.end_lineno or c.lineno):
            if best is None or c.lineno >= best[1].lineno:
                best = (q, c)
    if best is None:
        raise Shape('%s: type(self)/cls write outside a class' % w['where'])
    return mi.name + ':' + best[0]


def subclass_of(col, cls, root_name):
    """does class `mod:Q` derive (by base names, transitively, within the code base) from a class called root_name?"""
    seen = set()
    todo = [cls.split(':')[1].split('.')[-1]]
    while todo:
        n = todo.pop()
        if n == root_name:
            return True
        if n in seen:
            continue
        seen.add(n)
        for mi in col.mods.values():
            for q, c in mi.classes.items():
                if q.split('.')[-1] == n:
                    for b in c.bases:
                        d = _dotted(b)
                        if d:
                            todo.append(d[-1])
    return False


def dead_module(col, site):
    """is the write site in a module whose first import statement uses Python-2 implicit relative imports of sibling files?"""
    rel = site.split(':')[0]
    mi = next((m for m in col.mods.values() if m.rel == rel), None)
    if mi is None:
        return False
    d = os.path.dirname(os.path.join(col.repo, rel))
    for n in mi.tree.body:
        if isinstance(n, ast.Import):
            for a in n.names:
                if os.path.exists(os.path.join(d, a.name + '.py')) and not os.path.exists(os.path.join(col.repo, a.name + '.py')) \
                        and not os.path.exists(os.path.join(col.repo, a.name)):
                    return True
    return False


def build(repo):
    col = Collector(repo)
    writes = col.run()
    resets = reset_cells(repo, col)
    perdoc = perdoc_families(repo, col)
    cells = {}
    for w in writes:
        cat = w['cat']
        if cat == 'family' and w['owner'] in ('type(self)', 'cls', 'mro'):
            root = family_root(col, w)
            name = root + '.' + w['attr']
            fam = True
        elif cat == 'family':
            name, fam = w['owner'] + '.' + w['attr'], True
        elif cat == 'ctx':
            nm = w['owner']
            if nm.startswith('*') and len(nm) > 1:
                # a computed name with a constant prefix ('the' + target): the write reaches every macro class whose name starts
                # with the prefix and that carries the attribute; classes created per document by newcounter are not in any module
                pre = nm[1:]
                hit = False
                for m in sorted(col.mods.values(), key=lambda m_: m_.name):
                    for q, cd in sorted(m.classes.items()):
                        if q.split('.')[-1].startswith(pre) and any(
                                isinstance(b, ast.Assign) and any(isinstance(t, ast.Name) and t.id == w['attr'] for t in b.targets)
                                for b in cd.body):
                            nm2 = m.name + ':' + q + '.' + w['attr']
                            c2 = cells.setdefault(nm2, dict(name=nm2, family=False, writes=[], hows=set(), phases=set()))
                            c2['writes'].append('%s %s (%s)' % (w['where'], w['fn'], w['how']))
                            c2['hows'].add(w['how'])
                            c2['phases'].add(w['phase'])
                            hit = True
                name, fam = 'context:' + pre + 'ANY.' + w['attr'], False      # the per-document classes of that name
            elif nm == '*':
                name, fam = 'context[*].' + w['attr'], True
            else:
                hits = sorted(m.name + ':' + q for m in col.mods.values() for q in m.classes
                              if q == nm and not m.name.startswith('plasTeX.Packages') and not m.name.startswith('plasTeX.Renderers'))
                # a name created per document by context.newcounter (the<counter>) has no module-level class: per-document
                name = (hits[0] if hits else 'context:' + nm) + '.' + w['attr']
                fam = False
        elif cat == 'env':
            name, fam = 'env:' + w['owner'] + '.' + w['attr'], False
        elif cat == 'module':
            name, fam = w['owner'] + ':' + w['attr'], False
        else:
            name, fam = w['owner'] + '.' + w['attr'], False
        c = cells.setdefault(name, dict(name=name, family=fam, writes=[], hows=set(), phases=set()))
        c['writes'].append('%s %s (%s)' % (w['where'], w['fn'], w['how']))
        c['hows'].add(w['how'])
        c['phases'].add(w['phase'])
    # A register class nested in another macro class is a LOCAL macro of that class: Context.createContext installs the class itself
    # (only top-level macros go through importMacros), so its value is shared by all documents.  One cell per such class.
    if any(n.split(':')[-1].endswith('ParameterCommand.value') for n in cells):
        for m in sorted(col.mods.values(), key=lambda m_: m_.name):
            for q, cd in sorted(m.classes.items()):
                if '.' in q and subclass_of(col, m.name + ':' + q, 'ParameterCommand'):
                    outer = q.rsplit('.', 1)[0]
                    nm2 = m.name + ':' + q + '.value'
                    c2 = cells.setdefault(nm2, dict(name=nm2, family=False, writes=[], hows=set(), phases=set()))
                    c2['writes'] += [w_ for n_, c_ in cells.items() if n_.split(':')[-1] == 'ParameterCommand.value' for w_ in c_['writes']]
                    c2['hows'].add('set')
                    c2['phases'].add('run')
                    c2['nested_in'] = m.name + ':' + outer
    out = []
    for name in sorted(cells):
        c = cells[name]
        hows = c['hows']
        attr = name.rsplit('.', 1)[-1] if '.' in name.split(':')[-1] else name.split(':')[-1]
        # kind
        if attr.startswith('@'):
            kind = 'memo'
        elif hows & {'augAdd', 'augSub'}:
            kind = 'int'
        elif hows & {'append', 'pop', 'clear', 'insert', 'extend'} and not hows & {'setitem', 'update', 'setdefault'}:
            kind = 'stack'
        elif hows & {'setitem', 'update', 'setdefault', 'delitem'}:
            kind = 'map'
        else:
            kind = 'value'
        # isolation
        if name.startswith('env:') or name.startswith('plasTeX.Logging') or name.startswith('plasTeX.Compile'):
            iso = 'env'
        elif c.get('nested_in'):
            # the local macros of a Command are in scope only while its arguments are read, and parameters are disabled there
            # (TeX.readArgumentAndSource): an assignment is never executed.  The local macros of an Environment stay in scope for
            # its whole body: assignments are executed on the shared class.
            if subclass_of(col, c['nested_in'], 'Environment'):
                iso = 'none'
                c['why'] = 'register class nested in an environment class: installed as a local macro, never re-created per document'
            else:
                iso = 'argscope'
                c['why'] = 'register class nested in a command class: in scope only while arguments are read (parameters disabled)'
        elif hows == {'selfassign'}:
            iso = 'memo'      # `global N; N = N`: writes the value the variable already has
            c['why'] = 'self-assignment of a module variable'
        elif all(dead_module(col, s_) for s_ in c['writes']):
            iso = 'env'
            c['why'] = 'written only in a module that Python 3 cannot import (implicit relative imports): dead code'
        elif name in resets:
            iso = 'reset'
        elif kind == 'memo':
            iso = 'memo'
        elif name.split(':')[0].startswith('plasTeX.Renderers') or name.startswith('mixin-base') or name.endswith(':Node.renderer') \
                or name.endswith('Node.renderer'):
            iso = 'render'
        elif name.startswith('context:'):
            iso = 'perdoc'
            c['why'] = 'class created per document by Context.newcounter'
        elif any(h.startswith('mro-') for h in hows):
            iso = 'none'      # written through the MRO / the subclass list: the write reaches shared classes whatever is re-created per document
            c['why'] = 'assigned through a loop over __mro__ / __bases__ / subclasses'
        elif c['family'] and ':' in name and any(subclass_of(col, name.rsplit('.', 1)[0], f) for f in perdoc):
            iso = 'perdoc'
            c['why'] = '; '.join(perdoc.values())
        elif c['family'] and name.split(':')[-1].startswith('NewIf.'):
            # \newif classes are created by Context.newif with type(...); the code base defines no NewIf subclass in a module
            defs = sorted(m.name + ':' + q for m in col.mods.values() for q, cd in m.classes.items()
                          if any((_dotted(b) or [''])[-1] == 'NewIf' for b in cd.bases))
            iso = 'perdoc' if not defs else 'none'
            c['why'] = 'NewIf subclasses are created per context by Context.newif (module-level subclasses: %s)' % (defs or 'none')
        else:
            iso = 'none'
        out.append(dict(id=len(out), name=name, family=bool(c['family']), kind=kind, iso=iso, phases=sorted(c['phases']),
                        sites=sorted(c['writes']), reset_value=resets.get(name), why=c.get('why')))
    # every reset target must be a listed cell (otherwise the reset function names something the scan did not see being written)
    listed = {c['name'] for c in out}
    for r in resets:
        if r not in listed:
            raise Shape('Context reset of %s, which no statement writes' % r)
    if len(out) < 10:
        raise Shape('only %d cells found' % len(out))
    return dict(cells=out, skipped=col.skipped, perdoc_families=perdoc, resets={k: v for k, v in resets.items()})


def coq_string(s):
    return '[' + '; '.join(str(ord(ch)) for ch in s) + ']'


def generate(repo, gen_dir, known_cells=()):
    import core
    d = build(repo)
    known = set(known_cells)
    lines = ['(* GENERATED by harness/translate/global_cells.py from every .py file under plasTeX/.  Do not edit.',
             '   One row per interpreter-wide cell (class attribute or module variable) that some statement writes:',
             '   (id, kind, isolation, known, name)   kind: 0 int  1 stack  2 value  3 map  4 memo',
             '   isolation: 0 none  1 reset in Context.__init__  2 owning class re-created per document  3 memo of the class definition',
             '              4 renderer phase  5 process environment / logging  6 local register of a command (in scope only while arguments are read)',
             '   known: 1 when the cell is listed in notes/C17/known.json (recorded leak) *)',
             'From Coq Require Import List ZArith.', 'Import ListNotations.', 'Local Open Scope Z_scope.', '',
             'Definition gen_cells : list (Z * Z * Z * Z * list Z) := [']
    rows = []
    for c in d['cells']:
        short = short_name(c['name'])
        c['short'] = short
        c['known'] = short in known
        rows.append('  (%d, %d, %d, %d, %s)  (* %s *)' % (c['id'], KINDS[c['kind']], ISOS[c['iso']], 1 if c['known'] else 0,
                                                           coq_string(short), c['name'].replace('*', 'ANY')))
    # a trailing comment must not end the list item separator: put ; before comments
    fixed = []
    for i, r in enumerate(rows):
        body, com = r.split('  (*', 1)
        fixed.append(body + (';' if i + 1 < len(rows) else '') + '  (*' + com)
    lines += fixed
    lines += ['].', '']
    text = '\n'.join(lines)
    core.write_if_changed(os.path.join(gen_dir, 'GlobalCells.v'), text)
    os.makedirs(os.path.join(core.BUILD, 'C17'), exist_ok=True)
    json.dump(d, open(os.path.join(core.BUILD, 'C17', 'cells-%s.json' % re.sub(r'\W', '_', os.path.abspath(repo))), 'w'), indent=1, default=sorted)
    return d


def short_name(name):
    """'plasTeX.Base.LaTeX.Lists:List.depth' -> 'List.depth' ; 'plasTeX.Logging:_loggers' -> 'Logging._loggers'"""
    if ':' in name and not name.startswith('env:') and not name.startswith('context:'):
        mod, q = name.split(':', 1)
        if '.' in q:
            return q
        return mod.split('.')[-1] + '.' + q
    return name


if __name__ == '__main__':
    import sys
    d = build(sys.argv[1] if len(sys.argv) > 1 else '/repo')
    for c in d['cells']:
        print('%3d %-6s %-7s %s%s' % (c['id'], c['kind'], c['iso'], c['name'], ' [family]' if c['family'] else ''))
        for s in c['sites'][:6]:
            print('        ', s)
    print(d['skipped'], d['perdoc_families'], d['resets'])
