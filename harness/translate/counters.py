"""Fail-closed translator for C08:  class counter declarations and numbering constants  ->  Gen/ClassCounters.v

Recognised shapes only (anything else raises Shape, which the pipeline reports as "tie broken"):

  Packages/book.py, report.py, article.py
    def ProcessOptions(options, document):
        context = document.context
        context.newcounter('<name>' [, resetby='<name>'] [, format='<str>'] [, trimLeft=<bool>])
        <mod>.ProcessOptions(options, document)                         (chaining to the parent class)
        document.context['the<name>'].format = '<str>'
        document.context['<macro>'].counter = '<str>' / .level = <expr>  (index/bibliography re-levelling: ignored, listed)
        context.loadLanguage(...), the language-option loop              (ignored)
    class appendix(Command):
        class the<key>(TheCounter): format = '<str>' [; trimLeft = <bool>]
        def invoke(self, tex):
            self.ownerDocument.context.counters['<name>'].setcounter(0)        (one or more)
            self.ownerDocument.context['the<key>'] = type(self).the<key>
  Base/LaTeX/Sectioning.py   class <macro>(StartSection): level = Command.<X>_LEVEL; counter = '<name>'
  DOM/__init__.py            Node.<X>_LEVEL = <int> | -sys.maxsize
  Base/LaTeX/Lists.py        List.counters = [...], List.item.counter = '<name>'
  Base/LaTeX/Math.py         equation.counter, eqnarray.counter, eqnarray.EndRow.counter
  Base/LaTeX/Floats.py       figure.caption.counter, table.caption.counter
  Config.py                  doc['sec-num-depth'] = IntegerOption(..., default = <int>)
  encoding.stringletters()   return string.ascii_letters

Format strings are split exactly as TheCounter.invoke does (the two regular expressions are applied by
this translator; TheCounter.invoke itself is pinned by its AST hash in props/C08.PINS).
"""
import ast
import os
import re
import string
import sys


class Shape(Exception):
    pass


def _parse(path):
    return ast.parse(open(path, encoding='utf8').read())


def _const_str(v, what):
    if isinstance(v, ast.Constant) and isinstance(v.value, str):
        return v.value
    raise Shape(what + ': expected a string constant, got ' + ast.dump(v)[:80])


REPRS = {'arabic': 'RArabic', 'Roman': 'RRoman', 'roman': 'Rroman', 'Alph': 'RAlph', 'alph': 'Ralph', 'fnsymbol': 'RFnsymbol'}


def parse_format(f):
    """-> list of ('lit', text) | ('ref', name, attr-or-None): the same two passes as TheCounter.invoke"""
    s = re.sub(r'\$(\w+)', r'${\1}', f)
    out, pos = [], 0
    for m in re.finditer(r'\$\{\s*(\w+)(?:\.(\w+))?\s*\}', s):
        if m.start() > pos:
            out.append(('lit', s[pos:m.start()]))
        out.append(('ref', m.group(1), m.group(2)))
        pos = m.end()
    if pos < len(s):
        out.append(('lit', s[pos:]))
    for p in out:
        if p[0] == 'lit' and '$' in p[1]:
            raise Shape('format %r leaves an unparsed "$"' % f)
    return out


# ---------------------------------------------------------------------------------------------------

def _is_ctx_newcounter(call):
    f = call.func
    return (isinstance(f, ast.Attribute) and f.attr == 'newcounter' and isinstance(f.value, ast.Name) and f.value.id == 'context')


def _doc_context_item(node):
    """document.context['x']  ->  'x' (else None)"""
    if (isinstance(node, ast.Subscript) and isinstance(node.value, ast.Attribute) and node.value.attr == 'context'
            and isinstance(node.value.value, ast.Name) and node.value.value.id == 'document'):
        sl = node.slice
        if isinstance(sl, ast.Constant) and isinstance(sl.value, str):
            return sl.value
    return None


def process_options(repo, cls, seen=None):
    """-> (ops, ignored)   ops: ('new', name, resetby, format, trim) | ('setformat', name, format)"""
    seen = seen or []
    if cls in seen:
        raise Shape('ProcessOptions chain loops: %s' % (seen + [cls]))
    tree = _parse(os.path.join(repo, 'plasTeX', 'Packages', cls + '.py'))
    fn = [n for n in tree.body if isinstance(n, ast.FunctionDef) and n.name == 'ProcessOptions']
    if len(fn) != 1:
        raise Shape('%s.py: exactly one ProcessOptions expected' % cls)
    fn = fn[0]
    if [a.arg for a in fn.args.args] != ['options', 'document']:
        raise Shape('%s.ProcessOptions signature' % cls)
    ops, ignored = [], []
    for st in fn.body:
        where = '%s.ProcessOptions line %d' % (cls, st.lineno)
        if isinstance(st, ast.Expr) and isinstance(st.value, ast.Constant):
            continue
        # context = document.context
        if (isinstance(st, ast.Assign) and len(st.targets) == 1 and isinstance(st.targets[0], ast.Name) and st.targets[0].id == 'context'
                and isinstance(st.value, ast.Attribute) and st.value.attr == 'context'):
            continue
        if isinstance(st, ast.Expr) and isinstance(st.value, ast.Call):
            c = st.value
            if _is_ctx_newcounter(c):
                if len(c.args) != 1:
                    raise Shape(where + ': newcounter positional arguments')
                nm = _const_str(c.args[0], where)
                kw = {k.arg: k.value for k in c.keywords}
                if set(kw) - {'resetby', 'format', 'trimLeft', 'initial'}:
                    raise Shape(where + ': unknown keyword %s' % sorted(kw))
                if 'initial' in kw and not (isinstance(kw['initial'], ast.Constant) and kw['initial'].value == 0):
                    raise Shape(where + ': non-zero initial value')
                rb = _const_str(kw['resetby'], where) if 'resetby' in kw else None
                fm = _const_str(kw['format'], where) if 'format' in kw else None
                tr = False
                if 'trimLeft' in kw:
                    if not (isinstance(kw['trimLeft'], ast.Constant) and isinstance(kw['trimLeft'].value, bool)):
                        raise Shape(where + ': trimLeft')
                    tr = kw['trimLeft'].value
                ops.append(('new', nm, rb, fm, tr))
                continue
            f = c.func
            # <parent>.ProcessOptions(options, document)
            if (isinstance(f, ast.Attribute) and f.attr == 'ProcessOptions' and isinstance(f.value, ast.Name)
                    and [getattr(a, 'id', None) for a in c.args] == ['options', 'document'] and not c.keywords):
                pops, pign = process_options(repo, f.value.id, seen + [cls])
                ops += pops
                ignored += pign
                continue
            if isinstance(f, ast.Attribute) and f.attr == 'loadLanguage':
                ignored.append(where + ': loadLanguage')
                continue
            raise Shape(where + ': unrecognised call ' + ast.dump(c)[:100])
        if isinstance(st, ast.Assign) and len(st.targets) == 1 and isinstance(st.targets[0], ast.Attribute):
            t = st.targets[0]
            item = _doc_context_item(t.value)
            if item is not None and t.attr == 'format' and item.startswith('the'):
                ops.append(('setformat', item[3:], _const_str(st.value, where)))
                continue
            if item is not None and t.attr in ('counter', 'level'):
                ignored.append('%s: %s.%s' % (where, item, t.attr))
                continue
            raise Shape(where + ': unrecognised assignment')
        # the language-option loop of book.py: language = False / languages = ... / for key, value in ...
        if isinstance(st, ast.Assign) and len(st.targets) == 1 and isinstance(st.targets[0], ast.Name) and st.targets[0].id in ('language', 'languages'):
            ignored.append(where + ': language option')
            continue
        if isinstance(st, ast.For):
            names = {n.id for n in ast.walk(st) if isinstance(n, ast.Name)}
            attrs = {n.attr for n in ast.walk(st) if isinstance(n, ast.Attribute)}
            if 'newcounter' in attrs or 'counters' in attrs or not names <= {'key', 'value', 'options', 'language', 'languages', 'context', 'document', 'list'}:
                raise Shape(where + ': unrecognised loop')
            ignored.append(where + ': language option loop')
            continue
        raise Shape(where + ': unrecognised statement ' + type(st).__name__)
    return ops, ignored


def appendix_def(repo, cls):
    tree = _parse(os.path.join(repo, 'plasTeX', 'Packages', cls + '.py'))
    cd = [n for n in tree.body if isinstance(n, ast.ClassDef) and n.name == 'appendix']
    if len(cd) != 1:
        raise Shape('%s.py: class appendix' % cls)
    cd = cd[0]
    the, invoke = {}, None
    for b in cd.body:
        if isinstance(b, ast.Expr) and isinstance(b.value, ast.Constant):
            continue
        if isinstance(b, ast.ClassDef) and b.name.startswith('the'):
            if [getattr(x, 'id', None) for x in b.bases] != ['TheCounter']:
                raise Shape('%s.appendix.%s bases' % (cls, b.name))
            fm, tr = None, False
            for s in b.body:
                if isinstance(s, ast.Assign) and len(s.targets) == 1 and isinstance(s.targets[0], ast.Name) and s.targets[0].id == 'format':
                    fm = _const_str(s.value, b.name)
                elif (isinstance(s, ast.Assign) and len(s.targets) == 1 and isinstance(s.targets[0], ast.Name) and s.targets[0].id == 'trimLeft'
                      and isinstance(s.value, ast.Constant) and isinstance(s.value.value, bool)):
                    tr = s.value.value
                else:
                    raise Shape('%s.appendix.%s body' % (cls, b.name))
            if fm is None:
                raise Shape('%s.appendix.%s has no format' % (cls, b.name))
            the[b.name] = (fm, tr)
        elif isinstance(b, ast.FunctionDef) and b.name == 'invoke':
            invoke = b
        else:
            raise Shape('%s.appendix: unrecognised member' % cls)
    if invoke is None:
        raise Shape('%s.appendix.invoke missing' % cls)
    zero, key = [], None
    for st in invoke.body:
        where = '%s.appendix.invoke line %d' % (cls, st.lineno)
        if isinstance(st, ast.Expr) and isinstance(st.value, ast.Constant):
            continue
        # self.ownerDocument.context.counters['x'].setcounter(0)
        if isinstance(st, ast.Expr) and isinstance(st.value, ast.Call):
            c = st.value
            f = c.func
            if (isinstance(f, ast.Attribute) and f.attr == 'setcounter' and isinstance(f.value, ast.Subscript)
                    and isinstance(f.value.value, ast.Attribute) and f.value.value.attr == 'counters'
                    and len(c.args) == 1 and isinstance(c.args[0], ast.Constant) and c.args[0].value == 0 and key is None):
                zero.append(_const_str(f.value.slice, where))
                continue
        # self.ownerDocument.context['thex'] = type(self).thex
        if isinstance(st, ast.Assign) and len(st.targets) == 1 and isinstance(st.targets[0], ast.Subscript):
            t = st.targets[0]
            if (isinstance(t.value, ast.Attribute) and t.value.attr == 'context' and isinstance(st.value, ast.Attribute)
                    and isinstance(st.value.value, ast.Call) and getattr(st.value.value.func, 'id', None) == 'type' and key is None):
                k = _const_str(t.slice, where)
                if k != st.value.attr or k not in the:
                    raise Shape(where + ': the-macro assignment')
                key = k
                continue
        raise Shape(where + ': unrecognised statement')
    if key is None or not zero:
        raise Shape('%s.appendix.invoke: nothing recognised' % cls)
    return dict(zero=zero, key=key[3:], fmt=the[key][0], trim=the[key][1])


def levels(repo):
    tree = _parse(os.path.join(repo, 'plasTeX', 'DOM', '__init__.py'))
    out = {}
    for n in ast.walk(tree):
        if isinstance(n, ast.ClassDef) and n.name == 'Node':
            for b in n.body:
                if isinstance(b, ast.Assign) and all(isinstance(t, ast.Name) and t.id.endswith('_LEVEL') for t in b.targets):
                    v = b.value
                    if isinstance(v, ast.Constant) and isinstance(v.value, int):
                        val = v.value
                    elif isinstance(v, ast.UnaryOp) and isinstance(v.op, ast.USub) and isinstance(v.operand, ast.Constant):
                        val = -v.operand.value
                    elif (isinstance(v, ast.UnaryOp) and isinstance(v.op, ast.USub) and isinstance(v.operand, ast.Attribute)
                          and v.operand.attr == 'maxsize'):
                        val = -sys.maxsize
                    else:
                        raise Shape('Node level constant')
                    for t in b.targets:
                        out[t.id] = val
    for k in ('CHAPTER_LEVEL', 'SECTION_LEVEL', 'ENDSECTIONS_LEVEL', 'ENVIRONMENT_LEVEL', 'COMMAND_LEVEL'):
        if k not in out:
            raise Shape('Node.%s missing' % k)
    return out


def _class_attr(cd, attr):
    for b in cd.body:
        if isinstance(b, ast.Assign) and len(b.targets) == 1 and isinstance(b.targets[0], ast.Name) and b.targets[0].id == attr:
            return b.value
        if isinstance(b, ast.AnnAssign) and isinstance(b.target, ast.Name) and b.target.id == attr:
            return b.value
    return None


def _find_class(body, name):
    for n in body:
        if isinstance(n, ast.ClassDef) and n.name == name:
            return n
    raise Shape('class %s not found' % name)


def sections(repo, lv):
    tree = _parse(os.path.join(repo, 'plasTeX', 'Base', 'LaTeX', 'Sectioning.py'))
    out = []
    for n in tree.body:
        if isinstance(n, ast.ClassDef) and [getattr(b, 'id', None) for b in n.bases] == ['StartSection']:
            l, c = _class_attr(n, 'level'), _class_attr(n, 'counter')
            if not (isinstance(l, ast.Attribute) and l.attr in lv and getattr(l.value, 'id', None) == 'Command'):
                raise Shape('Sectioning.%s.level' % n.name)
            out.append((n.name, lv[l.attr], _const_str(c, 'Sectioning.%s.counter' % n.name)))
    ss = _find_class(tree.body, 'StartSection')
    if _const_str(_class_attr(ss, 'args'), 'StartSection.args').split()[:1] != ['*']:
        raise Shape('StartSection.args does not start with the star modifier')
    if not out:
        raise Shape('no sectioning classes')
    return out


def misc(repo):
    d = {}
    t = _parse(os.path.join(repo, 'plasTeX', 'Base', 'LaTeX', 'Lists.py'))
    L = _find_class(t.body, 'List')
    v = _class_attr(L, 'counters')
    if not isinstance(v, ast.List):
        raise Shape('List.counters')
    d['list_counters'] = [_const_str(e, 'List.counters') for e in v.elts]
    d['item_counter'] = _const_str(_class_attr(_find_class(L.body, 'item'), 'counter'), 'List.item.counter')
    t = _parse(os.path.join(repo, 'plasTeX', 'Base', 'LaTeX', 'Math.py'))
    d['equation'] = _const_str(_class_attr(_find_class(t.body, 'equation'), 'counter'), 'equation.counter')
    eq = _find_class(t.body, 'eqnarray')
    d['eqnarray'] = _const_str(_class_attr(eq, 'counter'), 'eqnarray.counter')
    d['endrow'] = _const_str(_class_attr(_find_class(eq.body, 'EndRow'), 'counter'), 'eqnarray.EndRow.counter')
    t = _parse(os.path.join(repo, 'plasTeX', 'Base', 'LaTeX', 'Floats.py'))
    d['figure'] = _const_str(_class_attr(_find_class(_find_class(t.body, 'figure').body, 'caption'), 'counter'), 'figure.caption.counter')
    d['table'] = _const_str(_class_attr(_find_class(_find_class(t.body, 'table').body, 'caption'), 'counter'), 'table.caption.counter')
    # sec-num-depth default
    t = _parse(os.path.join(repo, 'plasTeX', 'Config.py'))
    dflt = None
    for n in ast.walk(t):
        if (isinstance(n, ast.Assign) and len(n.targets) == 1 and isinstance(n.targets[0], ast.Subscript)
                and isinstance(n.targets[0].slice, ast.Constant) and n.targets[0].slice.value == 'sec-num-depth'
                and isinstance(n.value, ast.Call)):
            for k in n.value.keywords:
                if k.arg == 'default' and isinstance(k.value, ast.Constant) and isinstance(k.value.value, int):
                    dflt = k.value.value
    if dflt is None:
        raise Shape("Config doc['sec-num-depth'] default")
    d['secnumdepth'] = dflt
    from translate import catcodes
    d['letters'] = catcodes.stringletters(repo)
    return d


# ---------------------------------------------------------------------------------------------------
# Coq printing

def cstr(s):
    return '[' + '; '.join(str(ord(c)) for c in s) + ']'


def cname(s):
    return '(* %s *) %s' % (s.replace('*', '+'), cstr(s))


def copt(s):
    return 'None' if s is None else '(Some %s)' % cstr(s)


def cfmt(pieces):
    out = []
    for p in pieces:
        if p[0] == 'lit':
            out.append('PLit %s' % cstr(p[1]))
        else:
            r = 'None' if p[2] is None else '(Some %s)' % REPRS.get(p[2], 'RUnknown')
            out.append('PRef %s %s' % (cstr(p[1]), r))
    return '[' + '; '.join(out) + ']'


def cbool(b):
    return 'true' if b else 'false'


def generate(repo, gen_dir):
    import core
    lv = levels(repo)
    secs = sections(repo, lv)
    m = misc(repo)
    classes = {}
    ignored = []
    for cls in ('article', 'report', 'book'):
        ops, ign = process_options(repo, cls)
        classes[cls] = ops
        ignored += ign
    apps = {cls: appendix_def(repo, cls) for cls in ('article', 'book')}
    L = ['(* GENERATED by harness/translate/counters.py from plasTeX/Packages/{article,report,book}.py, Base/LaTeX/{Sectioning,Lists,Math,Floats}.py,',
         '   DOM/__init__.py, Config.py, encoding.py -- do not edit *)',
         'From Coq Require Import List ZArith Bool.', 'Import ListNotations.', 'From Verif Require Import CounterSyntax.',
         'Local Open Scope Z_scope.', '']
    for cls in ('article', 'report', 'book'):
        L.append('Definition gen_class_ops_%s : list cop := [' % cls)
        rows = []
        for op in classes[cls]:
            if op[0] == 'new':
                _, nm, rb, fm, tr = op
                f = parse_format(fm if fm is not None else '${%s}' % nm)    # Context.newcounter: format = '${%s}' % name
                rows.append('  (* %s%s %s *) OpNew %s %s %s %s' % (nm, ' within ' + rb if rb else '', (fm or '').replace('*', '+'), cstr(nm), copt(rb), cfmt(f), cbool(tr)))
            else:
                _, nm, fm = op
                rows.append('  (* the%s := %s *) OpSetFormat %s %s' % (nm, fm, cstr(nm), cfmt(parse_format(fm))))
        L.append(';\n'.join(rows))
        L.append('].')
        L.append('')
    for cls in ('article', 'book'):
        a = apps[cls]
        L.append('(* \\appendix in %s: %s := 0; the%s := %s *)' % (cls, ', '.join(a['zero']), a['key'], a['fmt']))
        L.append('Definition gen_appendix_%s : appendix_def := mkapp [%s] %s %s %s.' % (
            cls, '; '.join(cstr(z) for z in a['zero']), cstr(a['key']), cfmt(parse_format(a['fmt'])), cbool(a['trim'])))
    L.append('')
    L.append('(* sectioning macros: (macro, (level, counter)) *)')
    L.append('Definition gen_sec_table : list (name * (Z * name)) := [')
    L.append(';\n'.join('  (%s, (%d, %s))' % (cname(n), l, cname(c)) for n, l, c in secs))
    L.append('].')
    L.append('Definition gen_endsections_level : Z := %d.' % lv['ENDSECTIONS_LEVEL'])
    L.append('Definition gen_environment_level : Z := %d.' % lv['ENVIRONMENT_LEVEL'])
    L.append('Definition gen_command_level : Z := %d.' % lv['COMMAND_LEVEL'])
    L.append('Definition gen_secnumdepth_default : Z := %d.' % m['secnumdepth'])
    L.append('Definition gen_list_counters : list name := [%s].' % '; '.join(cname(c) for c in m['list_counters']))
    L.append('Definition gen_item_counter : name := %s.' % cname(m['item_counter']))
    L.append('Definition gen_equation_counter : name := %s.' % cname(m['equation']))
    L.append('Definition gen_eqnarray_counter : name := %s.' % cname(m['eqnarray']))
    L.append('Definition gen_endrow_counter : name := %s.' % cname(m['endrow']))
    L.append('Definition gen_figure_counter : name := %s.' % cname(m['figure']))
    L.append('Definition gen_table_counter : name := %s.' % cname(m['table']))
    L.append('Definition gen_ascii_letters : str := %s.' % cstr(m['letters']))
    # every format string of the three classes with its parse by Python's re (the two passes of TheCounter.invoke);
    # Proofs/NumberingProofs.v re-proves that the Model's scanner (Model/FormatParse.v) parses each of them to the same thing
    raw = []
    for cls in ('article', 'report', 'book'):
        for op in classes[cls]:
            fm = (op[3] if op[3] is not None else '${%s}' % op[1]) if op[0] == 'new' else op[2]
            if fm not in raw:
                raw.append(fm)
    for cls in ('article', 'book'):
        if apps[cls]['fmt'] not in raw:
            raw.append(apps[cls]['fmt'])
    L.append('Definition gen_format_strings : list (str * fmt) := [')
    L.append(';\n'.join('  (* %s *) (%s, %s)' % (r.replace('*', '+'), cstr(r), cfmt(parse_format(r))) for r in raw))
    L.append('].')
    text = '\n'.join(L) + '\n'
    core.write_if_changed(os.path.join(gen_dir, 'ClassCounters.v'), text)
    return dict(file='Gen/ClassCounters.v', format_strings=len(raw), classes={k: len(v) for k, v in classes.items()}, sections=len(secs), ignored=ignored,
                appendix={k: v['zero'] for k, v in apps.items()})
