"""Fail-closed translator: plasTeX/__init__.py (class dimen, mudimen) + plasTeX/TeX.py (readStretch/readShrink,
readInteger digit sets)  ->  Gen/Units.v

Recognised shapes only (anything else raises Shape):
  class dimen(float):  units = [<str>, ...]
      def __new__(cls, v): ... an `if units == '<u>': <action> elif ... else: raise ValueError(...)` chain where <action> is
          v *= <expr>                      expr over int/float constants with * and / and parentheses  -> exact rational factor
          if v < 0: v -= <c>  else: v += <c>   (fil encodings; <c> a float/int constant)                  -> offset
          pass
  class mudimen(dimen): units = [<str>, ...]
  TeX.readStretch / readShrink:  if self.readKeyword(['plus'|'minus']): return self.readDimen(units=dimen.units+[<str>, ...])
  TeX.readInteger: the three readSequence(...) character sets (string.digits / string.octdigits / string.hexdigits or a str constant)
A float literal such as 72.27 is read from its *source text* as the exact decimal 7227/100 (Python's float is modelled as an
exact rational, DESIGN C05).
"""
import ast
import os
import string
from fractions import Fraction


class Shape(Exception):
    pass


def _parse(path):
    src = open(path, encoding='utf8').read()
    return src, ast.parse(src)


def _const(src, n):
    """numeric constant -> exact Fraction from the literal's source text"""
    if isinstance(n, ast.Constant) and isinstance(n.value, (int, float)) and not isinstance(n.value, bool):
        txt = ast.get_source_segment(src, n)
        try:
            return Fraction(txt)
        except (ValueError, TypeError):
            return Fraction(repr(n.value))
    raise Shape('numeric constant expected: ' + ast.dump(n)[:80])


def _expr(src, n):
    if isinstance(n, ast.BinOp) and isinstance(n.op, (ast.Mult, ast.Div)):
        a, b = _expr(src, n.left), _expr(src, n.right)
        if isinstance(n.op, ast.Mult):
            return a * b
        if b == 0:
            raise Shape('division by zero')
        return a / b
    return _const(src, n)


def _class(tree, name):
    for n in tree.body:
        if isinstance(n, ast.ClassDef) and n.name == name:
            return n
    raise Shape('class ' + name)


def _units_attr(cls):
    for b in cls.body:
        if isinstance(b, ast.Assign) and len(b.targets) == 1 and isinstance(b.targets[0], ast.Name) and b.targets[0].id == 'units':
            if isinstance(b.value, ast.List) and all(isinstance(e, ast.Constant) and isinstance(e.value, str) for e in b.value.elts):
                return [e.value for e in b.value.elts]
            raise Shape(cls.name + '.units is not a list of string constants')
    raise Shape(cls.name + '.units')


def _is_name(n, s):
    return isinstance(n, ast.Name) and n.id == s


def _action(src, body):
    """one branch of the chain -> ('mul', Fraction) | ('add', Fraction) | ('pass',)"""
    body = [b for b in body if not (isinstance(b, ast.Expr) and isinstance(b.value, ast.Constant))]
    if len(body) != 1:
        raise Shape('branch with %d statements' % len(body))
    b = body[0]
    if isinstance(b, ast.Pass):
        return ('pass',)
    if isinstance(b, ast.AugAssign) and _is_name(b.target, 'v') and isinstance(b.op, ast.Mult):
        return ('mul', _expr(src, b.value))
    if (isinstance(b, ast.If) and isinstance(b.test, ast.Compare) and _is_name(b.test.left, 'v') and len(b.test.ops) == 1
            and isinstance(b.test.ops[0], ast.Lt) and isinstance(b.test.comparators[0], ast.Constant) and b.test.comparators[0].value == 0
            and len(b.body) == 1 and len(b.orelse) == 1):
        neg, pos = b.body[0], b.orelse[0]
        if (isinstance(neg, ast.AugAssign) and isinstance(neg.op, ast.Sub) and _is_name(neg.target, 'v')
                and isinstance(pos, ast.AugAssign) and isinstance(pos.op, ast.Add) and _is_name(pos.target, 'v')):
            a, c = _const(src, neg.value), _const(src, pos.value)
            if a != c:
                raise Shape('asymmetric fil offset')
            return ('add', a)
    raise Shape('unrecognised unit action: ' + ast.dump(b)[:100])


def _chain(src, cls):
    new = None
    for b in cls.body:
        if isinstance(b, ast.FunctionDef) and b.name == '__new__':
            new = b
    if new is None:
        raise Shape('dimen.__new__')
    # find the `if units == '..'` chain anywhere inside __new__
    start = None
    for n in ast.walk(new):
        if (isinstance(n, ast.If) and isinstance(n.test, ast.Compare) and _is_name(n.test.left, 'units')
                and len(n.test.ops) == 1 and isinstance(n.test.ops[0], ast.Eq)):
            start = n
            break
    if start is None:
        raise Shape('no `if units == ...` chain in dimen.__new__')
    chain = []
    cur = start
    while True:
        t = cur.test
        if not (isinstance(t, ast.Compare) and _is_name(t.left, 'units') and len(t.ops) == 1 and isinstance(t.ops[0], ast.Eq)
                and isinstance(t.comparators[0], ast.Constant) and isinstance(t.comparators[0].value, str)):
            raise Shape('chain test: ' + ast.dump(t)[:80])
        chain.append((t.comparators[0].value, _action(src, cur.body)))
        if len(cur.orelse) == 1 and isinstance(cur.orelse[0], ast.If):
            cur = cur.orelse[0]
            continue
        if len(cur.orelse) == 1 and isinstance(cur.orelse[0], ast.Raise):
            break
        raise Shape('the chain must end in `else: raise ValueError(...)`')
    names = [u for u, _ in chain]
    if len(set(names)) != len(names):
        raise Shape('a unit occurs twice in the chain')
    return chain


def _method(cls, name):
    for b in cls.body:
        if isinstance(b, ast.FunctionDef) and b.name == name:
            return b
    raise Shape('TeX.' + name)


def _fil_units(fn, kw):
    """def readStretch(self): if self.readKeyword(['plus']): return self.readDimen(units=dimen.units+[...]); return None"""
    body = [b for b in fn.body if not (isinstance(b, ast.Expr) and isinstance(b.value, ast.Constant))]
    if len(body) != 2 or not isinstance(body[0], ast.If) or not isinstance(body[1], ast.Return):
        raise Shape(fn.name)
    test = body[0].test
    if not (isinstance(test, ast.Call) and isinstance(test.func, ast.Attribute) and test.func.attr == 'readKeyword' and len(test.args) == 1
            and isinstance(test.args[0], ast.List) and [getattr(e, 'value', None) for e in test.args[0].elts] == [kw] and not test.keywords):
        raise Shape(fn.name + ' keyword')
    ret = body[0].body
    if len(ret) != 1 or not isinstance(ret[0], ast.Return) or not isinstance(ret[0].value, ast.Call):
        raise Shape(fn.name + ' body')
    call = ret[0].value
    if not (isinstance(call.func, ast.Attribute) and call.func.attr == 'readDimen' and not call.args and len(call.keywords) == 1
            and call.keywords[0].arg == 'units'):
        raise Shape(fn.name + ' readDimen call')
    u = call.keywords[0].value
    if not (isinstance(u, ast.BinOp) and isinstance(u.op, ast.Add) and isinstance(u.left, ast.Attribute) and u.left.attr == 'units'
            and _is_name(u.left.value, 'dimen') and isinstance(u.right, ast.List)
            and all(isinstance(e, ast.Constant) and isinstance(e.value, str) for e in u.right.elts)):
        raise Shape(fn.name + ' units expression')
    return [e.value for e in u.right.elts]


def _digit_sets(fn):
    """the first argument of every self.readSequence(...) call inside readInteger, in source order"""
    sets = []
    for n in ast.walk(fn):
        if isinstance(n, ast.Call) and isinstance(n.func, ast.Attribute) and n.func.attr == 'readSequence' and n.args:
            a = n.args[0]
            if isinstance(a, ast.Attribute) and _is_name(a.value, 'string') and a.attr in ('digits', 'octdigits', 'hexdigits'):
                sets.append((n.lineno, n.col_offset, getattr(string, a.attr)))
            elif isinstance(a, ast.Constant) and isinstance(a.value, str):
                sets.append((n.lineno, n.col_offset, a.value))
            else:
                raise Shape('readSequence character set: ' + ast.dump(a)[:80])
    sets.sort()
    if len(sets) != 3:
        raise Shape('readInteger: expected 3 readSequence calls, found %d' % len(sets))
    return [s for _, _, s in sets]


def extract(repo):
    src, tree = _parse(os.path.join(repo, 'plasTeX', '__init__.py'))
    dimen = _class(tree, 'dimen')
    out = dict(units=_units_attr(dimen), mu_units=_units_attr(_class(tree, 'mudimen')), chain=_chain(src, dimen))
    tsrc, ttree = _parse(os.path.join(repo, 'plasTeX', 'TeX.py'))
    tex = _class(ttree, 'TeX')
    st, sh = _fil_units(_method(tex, 'readStretch'), 'plus'), _fil_units(_method(tex, 'readShrink'), 'minus')
    out['fil_units'] = st
    out['fil_units_minus'] = sh          # emitted separately: that both are filll, fill, fil is a proof obligation, not a shape
    out['dec_digits'], out['oct_digits'], out['hex_digits'] = _digit_sets(_method(tex, 'readInteger'))
    known = {u for u, _ in out['chain']}
    for u in out['units'] + out['mu_units'] + out['fil_units'] + out['fil_units_minus']:
        if u not in known:
            raise Shape('unit %r accepted by the readers but not handled by dimen.__new__' % u)
    return out


def _s(u):
    return '[' + '; '.join(str(ord(c)) for c in u) + ']'


def _q(f):
    return '(%d # %d)' % (f.numerator, f.denominator)


def generate(repo, gen_dir):
    import core
    d = extract(repo)
    lines = ['(* GENERATED by harness/translate/units.py from plasTeX/__init__.py (dimen.__new__, dimen.units, mudimen.units)',
             '   and plasTeX/TeX.py (readStretch/readShrink, readInteger).  Do not edit. *)',
             'From Coq Require Import List ZArith QArith.', 'Import ListNotations.', 'Local Open Scope Z_scope.', '',
             '(* what the branch of the if/elif chain does to the number v *)',
             'Inductive uact := UMul (q : Q) | UAdd (k : Q) | UPass.', '',
             '(* the chain in source order: unit name (code points), action *)',
             'Definition unit_chain : list (list Z * uact) := [']
    rows = []
    for u, a in d['chain']:
        act = {'mul': lambda: 'UMul ' + _q(a[1]), 'add': lambda: 'UAdd ' + _q(a[1]), 'pass': lambda: 'UPass'}[a[0]]()
        rows.append('  (%s, %s) (* %s *)' % (_s(u), act, u))
    lines.append(';\n'.join(rows))
    lines.append('].')
    lines.append('')
    for name, key in (('dimen_units', 'units'), ('mudimen_units', 'mu_units'), ('fil_units', 'fil_units'), ('fil_units_minus', 'fil_units_minus')):
        lines.append('Definition %s : list (list Z) := [%s]. (* %s *)' % (name, '; '.join(_s(u) for u in d[key]), ' '.join(d[key])))
    for name, key in (('dec_digits', 'dec_digits'), ('oct_digits', 'oct_digits'), ('hex_digits', 'hex_digits')):
        lines.append('Definition %s : list Z := %s. (* %s *)' % (name, _s(d[key]), d[key]))
    core.write_if_changed(os.path.join(gen_dir, 'Units.v'), '\n'.join(lines) + '\n')
    return d
