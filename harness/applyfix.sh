#!/bin/sh
# applyfix.sh Cxx n : apply /verif/notes/Cxx/fix-n.diff to /repo as one "fix:" commit with message fix-n.msg
set -e
d=/verif/notes/$1
git -C /repo apply --check $d/fix-$2.diff
git -C /repo apply $d/fix-$2.diff
head -1 $d/fix-$2.msg | grep -q '^fix:' || { echo "message does not start with fix:"; exit 1; }
git -C /repo add -A
git -C /repo commit -q -F $d/fix-$2.msg
git -C /repo log --oneline | head -1
