"""Shared document generator, renderer runner, DOM walker, HTML reader and render cache for C13 and C14.

A *case* is {'doc': abstract document (nested lists, JSON), 'cfg': {...}}.  `source(case)` prints the LaTeX.  `record(case)` returns
what one real render of that source produced (rendered in a forked child of the calling process, so every render starts from the
pristine interpreter state of a process that has only imported plasTeX): the document tree as plasTeX digested it (this is the
Model's input: the tie is about rendering, parsing is C07's business), the file-name assignment, the output files read back with
html.parser, and the public navigation API (url / links / tableofcontents) of every node.  Records are cached under
build/render-cache/<hash of $VERIF_REPO/plasTeX>/<hash of case>.json, so C13 and C14 share renders and nothing survives a code change.

Every text leaf of a generated document is a unique marker word:  zw<n>x body text, zt<n>x title words, zk<n>x index keys.
"""
import hashlib
import json
import os
import random
import re
import shutil
import signal
import sys
import time
import tempfile
from html.parser import HTMLParser

VERIF = os.path.dirname(os.path.dirname(os.path.abspath(__file__)))
REPO = os.environ.get('VERIF_REPO', '/repo')
CACHE = os.path.join(VERIF, 'build', 'render-cache')
DOCUMENT_LEVEL = -sys.maxsize

W_RE = re.compile(r'zw(\d+)x')
# text leaves as they are read in the digested DOM and in the decoded text of the output files: marker words zw<n>x and the letter-only
# markers &zu<letters>; (they can stand where the image-placeholder rewriting of PageTemplate looks for a unit: &name-width;&unit;)
LEAF_RE = re.compile(r'zw(\d+)x|&zu([a-z]+);')
U_BASE = 500000


def u_letters(k):
    out = ''
    while True:
        out = 'abcdefghijklmnopqrstuvwxyz'[k % 26] + out
        k = k // 26 - 1
        if k < 0:
            return out


def u_number(letters):
    k = 0
    for ch in letters:
        k = k * 26 + (ord(ch) - 96)
    return k - 1


def word_name(w):
    return 'zw%dx' % w if w < U_BASE else '&zu%s;' % u_letters(w - U_BASE)


def leaf_words(text):
    return [int(m.group(1)) if m.group(1) is not None else U_BASE + u_number(m.group(2)) for m in LEAF_RE.finditer(text)]
T_RE = re.compile(r'zt(\d+)x')

# node kinds: what the shipped templates do with a node (Model/Render.v std_tmpl); decided from the node's class name here
K_PLAIN, K_SECTION, K_FOOTNOTE, K_REF, K_PAGEREF, K_ANCHOR, K_CITE, K_BIBITEM, K_CAPTION, K_INDEXPAGE, K_HIDDEN, K_ITEM, K_DOCENV, K_ROOT = range(14)
SECTION_NAMES = ('part', 'chapter', 'section', 'subsection', 'subsubsection', 'paragraph', 'subparagraph', 'subsubparagraph', 'bibliography')

RENDERERS = {'html5': ('HTML5', 'default'), 'html5min': ('HTML5', 'minimal'), 'html5frag': ('HTML5', 'fragment'), 'xhtml': ('XHTML', 'default')}
NO_NAVIGATION = ('html5min', 'html5frag')       # themes whose layout prints neither navigation links nor a table of contents


# ------------------------------------------------------------------------------------------------------------------
# abstract documents
#
# doc  = {'cls': 'article'|'book', 'items': [item...]}
# item = ['sec', cmd, star(0/1), [title marker numbers], label|None]
#      | ['par', [inline...]]
#      | ['list', 'itemize'|'enumerate', [[label|None, [inline...]]...]]
#      | ['fig', [inline...], [inline...] (caption), label|None]
#      | ['bib', [[key, [inline...]]...]]
#      | ['printindex'] | ['toc'] | ['quote', [inline...]]
# inline = ['w', n] | ['b', [inline...]] | ['fn', [inline...]] | ['ref', label] | ['pageref', label] | ['cite', key] | ['idx', n]

# every sectioning command plasTeX defines (levels -1 .. 6; \subsubparagraph, level 6, is plasTeX's own and the top of the split-level range)
SEC_CMDS = {'article': ['part', 'section', 'subsection', 'subsubsection', 'paragraph', 'subparagraph', 'subsubparagraph'],
            'book': ['part', 'chapter', 'section', 'subsection', 'subsubsection', 'paragraph', 'subparagraph', 'subsubparagraph']}


class Counter(object):
    def __init__(self):
        self.w = 0
        self.t = 0
        self.k = 0
        self.l = 0

    def word(self):
        self.w += 1
        return self.w


def gen_inlines(rng, cnt, labels, keys, depth=0, allow_fn=True, n=None, feats=()):
    out = []
    n = rng.randint(1, 4) if n is None else n
    for _ in range(n):
        r = rng.random()
        if r < 0.55 or depth > 1:
            out.append(['w', cnt.word()])
        elif r < 0.65:
            out.append(['b', gen_inlines(rng, cnt, labels, keys, depth + 1, allow_fn, rng.randint(1, 2), feats)])
        elif r < 0.75 and allow_fn and 'fn' in feats:
            out.append(['fn', gen_inlines(rng, cnt, labels, keys, depth + 1, rng.random() < 0.15, rng.randint(1, 3), feats)])
        elif r < 0.87 and labels and 'ref' in feats:
            out.append([rng.choice(['ref', 'ref', 'ref', 'pageref']), rng.choice(labels)])
        elif r < 0.93 and keys and 'cite' in feats:
            out.append(['cite', rng.choice(keys)])
        elif 'ph' in feats and rng.random() < 0.5:
            # marker words glued to look-alikes of image placeholders: &name-width;&unit; with no blank in between
            cnt.u = getattr(cnt, 'u', -1) + 1
            out.append(['ph', cnt.word(), cnt.word(), cnt.u, cnt.word() if rng.random() < 0.6 else None, rng.choice(['width', 'height', 'depth'])])
        elif 'idx' in feats:
            cnt.k += 1
            if 'idxplain' in feats:
                out.append(['idx', cnt.k])
            else:
                # initial letter of the sort key, and (sometimes) a display form sort@display whose initial differs
                ini = rng.choice('zzzzab__')
                disp = rng.choice('qzab') if rng.random() < 0.3 else None
                out.append(['idx', cnt.k, ini, disp])
        else:
            out.append(['w', cnt.word()])
    return out


def clash_pool(template):
    """labels that meet file names: the static names of the template (extension dropped, $jobname expanded) and names the usual
    fail-safe alternatives issue (sect0001 ...): the generator must move on to another name for the second claimant"""
    head = template.split('[')[0]
    words = head.split()
    if words and '[' in template and not head.endswith((' ', '\t')):
        words = words[:-1]                       # a prefix glued to the bracket is not a static name
    pool = []
    for w in words:
        w = w.replace('$jobname', 'job').replace('${jobname}', 'job')
        if '$' in w:
            continue
        pool.append(w[:-5] if w.endswith('.html') else w)
    return [pool, ['sect0001', 'sect0002', 'sect1', 'sect2', 'node001', 'sect01', 's01']]


def future_name(template):
    """a label that (as $id) equals the numbered fall-back name the generator will issue SECOND: the unit that carries it takes the name
    first, so the fall-back candidate is rejected as taken once and $num must move on"""
    m = re.search(r'\[\s*\$\{?id\}?(\.html)?\s*,\s*([a-z]+)\$num(?:\((\d+)\))?\s*\]', template)
    if not m:
        return None
    return m.group(2) + ('%%0%dd' % int(m.group(3) or 1)) % 2


def gen_doc(rng, size=None, feats=None, label_style='plain', clash=None, ladder=False, future=None):
    """a random document; labels are planned first so that references can point forwards and backwards"""
    cls = rng.choice(['article', 'article', 'book'])
    cmds = SEC_CMDS[cls]
    size = size if size is not None else rng.randint(2, 9)
    feats = feats if feats is not None else tuple(f for f in ('fn', 'ref', 'cite', 'idx', 'list', 'fig', 'ph', 'emp') if rng.random() < 0.75)
    cnt = Counter()
    # plan sections: a walk over depths (never skipping more than one level down from the top used so far is NOT required by plasTeX)
    top = rng.choice([0, 1, 1, 1]) if cls == 'article' else rng.choice([0, 1, 1])
    plan = []
    d = top
    if ladder:
        # one unit of every level, outermost to innermost, then the random walk (biased to stay deep)
        top = 0
        plan = list(range(len(cmds)))
        d = len(cmds) - 1
    for i in range(size):
        plan.append(d)
        step = rng.choice([-2, -1, 0, 0, 1, 1, 1, 2]) if not ladder else rng.choice([-3, -1, -1, 0, 0, 1, 1, 2])
        d = max(top, min(len(cmds) - 1, d + step))
    nsec = len(plan)

    statics, issued = [list(x) for x in (clash or [[], []])]
    rng.shuffle(statics)
    rng.shuffle(issued)

    def mklabel(prefix):
        cnt.l += 1
        if prefix == 's' and statics and rng.random() < 0.7:
            return statics.pop()
        if prefix == 's' and issued and rng.random() < 0.3:
            return issued.pop()
        if label_style == 'plain':
            return '%s%d' % (prefix, cnt.l)
        if label_style == 'punct':
            return rng.choice(['%s:%d', '%s.%d', 'a %s %d', '%s_%d-x', '%s/%d', '%s,%d', '%s;%d', '%s(%d)', '%s|%d', '%s<%d>']) % (prefix, cnt.l)
        return '%s%d' % (prefix, cnt.l)
    sec_labels = [mklabel('s') if rng.random() < (0.8 if clash else 0.6) else None for _ in range(nsec)]
    if future:
        # the first unit carries the future name, the units after it have no label: they take the numbered names
        sec_labels = [future] + [None] * (nsec - 1)
    nbib = rng.randint(1, 3) if 'cite' in feats else 0
    keys = ['bk%d' % (i + 1) for i in range(nbib)]
    labels = [l for l in sec_labels if l]
    fig_labels = []
    item_labels = []
    if 'fig' in feats:
        fig_labels = [mklabel('f') for _ in range(rng.randint(0, 2))]
    if 'list' in feats and 'itemlabel' in feats:
        item_labels = [mklabel('i') for _ in range(rng.randint(0, 2))]
    all_labels = labels + fig_labels + item_labels
    if 'ref' in feats and all_labels and rng.random() < 0.3:
        all_labels = all_labels + ['nosuchlabel']
    items = []
    if rng.random() < 0.3:
        items.append(['toc'])

    def body():
        out = []
        for _ in range(rng.randint(0, 3)):
            r = rng.random()
            if r < 0.6:
                out.append(['par', gen_inlines(rng, cnt, all_labels, keys, feats=feats)])
            elif r < 0.8 and 'list' in feats:
                its = []
                for _ in range(rng.randint(1, 3)):
                    lab = item_labels.pop() if (item_labels and rng.random() < 0.5) else None
                    its.append([lab, gen_inlines(rng, cnt, all_labels, keys, feats=feats, n=rng.randint(1, 2))])
                kind = 'enumerate' if any(i[0] for i in its) else rng.choice(['itemize', 'enumerate'])
                out.append(['list', kind, its])
            elif r < 0.68 and 'emp' in feats:
                out.append(['empties', rng.randint(2, 6)])
            elif r < 0.9 and 'fig' in feats:
                lab = fig_labels.pop() if (fig_labels and rng.random() < 0.7) else None
                out.append(['fig', gen_inlines(rng, cnt, all_labels, keys, allow_fn=False, feats=feats, n=1),
                            gen_inlines(rng, cnt, [], [], allow_fn=False, feats=(), n=rng.randint(1, 2)), lab])
            else:
                out.append(['quote', gen_inlines(rng, cnt, all_labels, keys, feats=feats, n=rng.randint(1, 2))])
        return out
    items += body()
    for i, d in enumerate(plan):
        tw = []
        for _ in range(rng.choice([1, 1, 2, 3])):
            cnt.t += 1
            tw.append(cnt.t)
        items.append(['sec', cmds[d], 1 if rng.random() < 0.12 else 0, tw, sec_labels[i]])
        items += body()
    if nbib:
        if rng.random() < 0.5:
            items.append(['sec', cmds[top], 0, [cnt.t + 1], None])
            cnt.t += 1
        items.append(['bib', [[k, gen_inlines(rng, cnt, [], [], allow_fn=False, feats=(), n=rng.randint(1, 2)),
                               ('Lb%s' % k[2:]) if rng.random() < 0.4 else None] for k in keys]])
    if 'idx' in feats and rng.random() < 0.8:
        if rng.random() < 0.4:
            # the index as makeindex writes it into the .ind file
            items.append(['theindex', rng.randint(1, 3)])
        else:
            items.append(['printindex'])
    return {'cls': cls, 'items': items}


def pr_inlines(ins):
    out = []
    for x in ins:
        k = x[0]
        if k == 'w':
            out.append('zw%dx' % x[1])
        elif k == 'b':
            out.append('\\textbf{%s}' % pr_inlines(x[1]))
        elif k == 'fn':
            out.append('\\footnote{%s}' % pr_inlines(x[1]))
        elif k == 'ph':
            out.append('zw%dx\\&zw%dx-%s;\\&zu%s;%s' % (x[1], x[2], x[5], u_letters(x[3]), 'zw%dx' % x[4] if x[4] is not None else ''))
        elif k in ('ref', 'pageref'):
            out.append('\\%s{%s}' % (k, x[1]))
        elif k == 'cite':
            out.append('\\cite{%s}' % x[1])
        elif k == 'idx':
            ini = x[2] if len(x) > 2 else 'z'
            disp = x[3] if len(x) > 3 else None
            if ini == '_':      # \index{__init__@\texttt{\_\_init\_\_}}: the sort key starts with an underscore
                out.append('\\index{_k%dx@\\texttt{\\_k%dx}}' % (x[1], x[1]))
                continue
            out.append('\\index{%sk%dx%s}' % (ini, x[1], '@%sd%dx' % (disp, x[1]) if disp else ''))
        else:
            raise ValueError(x)
    return ' '.join(out)


def source(case):
    doc = case['doc']
    if 'raw' in doc:
        return doc['raw']
    out = ['\\documentclass{%s}' % doc['cls'], '\\begin{document}']
    for it in doc['items']:
        k = it[0]
        if k == 'sec':
            words = ['zt%dx' % n for n in it[3]]
            if len(it) > 5 and it[5] == '~' and len(words) > 1:      # a literal no-break space (U+00A0) between the first two title words
                words = [words[0] + '\u00a0' + words[1]] + words[2:]
            s = '\\%s%s{%s}' % (it[1], '*' if it[2] else '', ' '.join(words))
            if it[4]:
                s += '\\label{%s}' % it[4]
            out.append(s)
        elif k == 'par':
            out.append(pr_inlines(it[1]))
            out.append('')
        elif k == 'rawpar':
            out.append(it[1])
            out.append('')
        elif k == 'empties':
            # paragraphs that render to nothing (the post-processing of the renderers removes the empty <p></p>)
            for i in range(it[1]):
                out.append(['\\vspace{1cm}', '\\bigskip', '\\smallskip'][i % 3])
                out.append('')
        elif k == 'quote':
            out.append('\\begin{quote}%s\\end{quote}' % pr_inlines(it[1]))
        elif k == 'list':
            out.append('\\begin{%s}' % it[1])
            for lab, ins in it[2]:
                out.append('\\item%s %s' % ('\\label{%s}' % lab if lab else '', pr_inlines(ins)))
            out.append('\\end{%s}' % it[1])
        elif k == 'fig':
            out.append('\\begin{figure}%s\\caption{%s}%s\\end{figure}' % (pr_inlines(it[1]), pr_inlines(it[2]),
                                                                     '\\label{%s}' % it[3] if it[3] else ''))
        elif k == 'bib':
            out.append('\\begin{thebibliography}{9}')
            for b in it[1]:
                key, ins, opt = b[0], b[1], (b[2] if len(b) > 2 else None)
                out.append('\\bibitem%s{%s} %s' % ('[%s]' % opt if opt else '', key, pr_inlines(ins)))
            out.append('\\end{thebibliography}')
        elif k == 'printindex':
            out.append('\\printindex')
        elif k == 'theindex':
            out.append('\\begin{theindex}')
            for i in range(it[1]):
                out.append('\\item entry%s, %d' % ('abc'[i % 3], i + 1))
                out.append('\\subitem sub%s, %d' % ('abc'[i % 3], i + 2))
                if i + 1 < it[1]:
                    out.append('\\indexspace')
            out.append('\\end{theindex}')
        elif k == 'toc':
            out.append('\\tableofcontents')
        else:
            raise ValueError(it)
    out.append('\\end{document}')
    return '\n'.join(out) + '\n'


TEMPLATES = [
    'index [$id, sect$num(4)]',                      # the default
    'index [$id, sect$num(4)]',
    'index intro other [$id, sect$num(4)]',          # static names first
    '[$id, $title(2), sect$num]',
    'index [$title(1)-$num(2)]',
    'index [sect$num]',
    '$jobname-[$id, node$num(3)]',
    'index [$id-$num, $name$num]',
    'top [${id}_x, $title(3), s$num(2)]',
    'index [$ref-$name, $name-$num]',
    'index.html toc.html [$id, sect$num(4)]',        # the extension spelled in the template
    'index toc [$id.html, sect$num(4)]',
]
SINGLE_TEMPLATES = ['single', '$jobname', 'all$num(3)', 'book.html']
BAD_CHARS = [None, None, None, ('zt', '-'), ('sx', '_'), (': #$%^&*!~`"\'=?/{}[]()|<>;\\,.0123', '-'), ('', '-'), ('-', ''), ('x1', 'yy')]


def gen_cfg(rng, renderer=None, split=None, template=None):
    cfg = {'renderer': renderer or rng.choice(['html5', 'html5', 'html5min', 'xhtml', 'html5frag']),
           'split': split if split is not None else rng.choice([-10, -2, -1, 0, 1, 1, 2, 2, 2, 3, 3, 4, 5, 6]),
           'filename': template or rng.choice(TEMPLATES),
           'bad': rng.choice(BAD_CHARS),
           'base': rng.choice(['', '', '', 'http://example.org/doc', 'http://example.org/doc/', '/abs']),
           'tocdepth': rng.choice([3, 3, 3, 0, 1, 2, 4, 10]),
           'tocnonfiles': rng.random() < 0.3,
           'crumbs': rng.random() < 0.3,      # html5: breadcrumbs on every page
           'localtoc': rng.random() < 0.3}    # html5: local table of contents on every page
    return cfg


def gen_twin_doc(rng, tail=None):
    """two file-producing units that are literally identical (same title, same unmarked text, no label), the second one followed only
    by deeper units: navigation must tell them apart by identity, not by structural equality"""
    cnt = Counter()

    def sec(cmd, label=None):
        cnt.t += 1
        return ['sec', cmd, 0, [cnt.t], label]

    def par():
        return ['par', [['w', cnt.word()] for _ in range(rng.randint(1, 3))]]
    twin_t = 900 + rng.randint(0, 50)
    twin = [['sec', 'subsection', 0, [twin_t], None], ['rawpar', 'Left to the reader.']]
    items = [par(), sec('section', 's1'), par()]
    for _ in range(rng.randint(0, 2)):
        items += [sec('subsection'), par()]
    items += twin
    for _ in range(rng.randint(0, 1)):
        items += [sec('subsection'), par()]
    items += [sec('section'), par()]
    for _ in range(rng.randint(0, 1)):
        items += [sec('subsection'), par()]
    items += twin
    for _ in range(rng.randint(1, 3)):
        items += [sec('subsection'), par()]
    if (rng.random() < 0.3) if tail is None else tail:
        items += [sec('section'), par()]
    return {'cls': 'article', 'items': items}


def shared_cases(seed, tier, boost=1):
    """the case list shared by C13 and C14 (so that both use the same renders)"""
    rng = random.Random('render-docs-%d' % seed)
    out = []
    quick = tier == 'quick'
    # 1. exhaustive over split levels on small documents, default template, all three renderers
    for i in range(5 if quick else 30):
        doc = gen_doc(rng, size=rng.randint(2, 5), ladder=True, label_style='punct' if i % 2 else 'plain')
        rname = ['html5', 'xhtml', 'html5min', 'html5frag'][i % 4]
        for split in range(-10, 7):
            cfg = gen_cfg(rng, renderer=rname, split=split, template=TEMPLATES[0])
            cfg.update(bad=None, base='', crumbs=False, localtoc=False)
            out.append(('split-levels', {'doc': doc, 'cfg': cfg}))
    # 2. structured random stream: everything varies
    for i in range((200 if quick else 3000) * boost):
        doc = gen_doc(rng, label_style='punct' if rng.random() < 0.15 else 'plain')
        out.append(('random', {'doc': doc, 'cfg': gen_cfg(rng)}))
    # 3. single-file templates
    for i in range((30 if quick else 300) * boost):
        doc = gen_doc(rng)
        out.append(('single-file', {'doc': doc, 'cfg': gen_cfg(rng, template=rng.choice(SINGLE_TEMPLATES))}))
    # 3b. labels that equal file names: static names of the template in force, names issued to earlier units
    for i in range((36 if quick else 400) * boost):
        cfg = gen_cfg(rng, split=rng.choice([0, 1, 1, 2, 2, 3]),
                      template=rng.choice([TEMPLATES[0], TEMPLATES[0], TEMPLATES[2], TEMPLATES[5], TEMPLATES[6], TEMPLATES[8], TEMPLATES[10], TEMPLATES[11]]))
        if i % 3:
            cfg['bad'] = None
        fut = future_name(cfg['filename']) if i % 3 == 0 else None
        if fut:
            cfg['split'] = rng.choice([2, 3, 4])
            doc = gen_doc(rng, size=rng.randint(3, 6), future=fut)
        else:
            doc = gen_doc(rng, size=rng.randint(2, 6), clash=clash_pool(cfg['filename']))
        out.append(('name-clash', {'doc': doc, 'cfg': cfg}))
    # 3c. twin sections (identical title and content)
    for i in range((12 if quick else 120) * boost):
        cfg = gen_cfg(rng, renderer=rng.choice(['html5', 'html5', 'xhtml']), split=rng.choice([2, 2, 2, 1, 3]), template=TEMPLATES[0])
        cfg.update(tocdepth=rng.choice([1, 1, 1, 2, 3]), tocnonfiles=False, bad=None)
        tail = None
        if i % 3 != 2:
            # the second twin is followed to the end only by files that neither the table of contents nor a local one lists:
            # they hang on the next/prev chain alone
            cfg.update(renderer='html5', split=2, tocdepth=1, localtoc=False, crumbs=False)
            tail = False
        out.append(('twins', {'doc': gen_twin_doc(rng, tail), 'cfg': cfg}))
    # 4. malformed: templates that cannot name every file, labels that collide after character substitution, odd structure
    for i in range((30 if quick else 300) * boost):
        r = rng.random()
        doc = gen_doc(rng, size=rng.randint(1, 5))
        cfg = gen_cfg(rng)
        if r < 0.35:
            cfg['filename'] = rng.choice(['index [$id]', '[$title]', 'index only [$nosuch]', 'a b', 'index [$id, $title(1)]', '[', 'x [ ]'])
        elif r < 0.6:
            cfg['bad'] = ('0123456789', '')     # s1, s2 ... all become "s": the generator must move on to the next alternative
        elif r < 0.8:
            cfg['split'] = rng.choice([7, 50, 99])
        else:
            doc = {'cls': 'article', 'items': doc['items'][::-1]}
        out.append(('malformed', {'doc': doc, 'cfg': cfg}))
    return out


# ------------------------------------------------------------------------------------------------------------------
# cache

_SRC_HASH = None


def src_hash():
    global _SRC_HASH
    if _SRC_HASH is None:
        h = hashlib.sha256()
        root = os.path.join(REPO, 'plasTeX')
        for d, dirs, files in sorted(os.walk(root)):
            dirs.sort()
            if '__pycache__' in d:
                continue
            for f in sorted(files):
                if f.endswith(('.pyc', '.pyo')):
                    continue
                p = os.path.join(d, f)
                h.update(os.path.relpath(p, root).encode())
                try:
                    h.update(open(p, 'rb').read())
                except OSError:
                    pass
        h.update(open(os.path.abspath(__file__), 'rb').read())
        _SRC_HASH = h.hexdigest()[:20]
    return _SRC_HASH


def case_hash(case):
    return hashlib.sha256(json.dumps(case, sort_keys=True).encode()).hexdigest()[:24]


def cache_path(case):
    return os.path.join(CACHE, src_hash(), case_hash(case) + '.json')


def _in_child(fn, outpath, timeout):
    """run fn() in a forked child of this (pristine) process; the child writes json to outpath.  returns 'ok' | 'hang' | 'lost'"""
    pid = os.fork()
    if pid == 0:
        try:
            signal.signal(signal.SIGALRM, signal.SIG_DFL)
            signal.alarm(timeout)
            res = fn()
            tmp = outpath + '.tmp'
            with open(tmp, 'w') as f:
                json.dump(res, f)
            os.replace(tmp, outpath)
        except BaseException:   # noqa
            try:
                import traceback
                with open(outpath + '.err', 'w') as f:
                    f.write(traceback.format_exc())
            except Exception:
                pass
        finally:
            os._exit(0)
    return pid


def _wait(pid, timeout):
    t0 = time.time()
    while True:
        r, status = os.waitpid(pid, os.WNOHANG)
        if r != 0:
            if os.WIFSIGNALED(status) and os.WTERMSIG(status) == signal.SIGALRM:
                return 'hang'
            return 'done'
        if time.time() - t0 > timeout + 5:
            try:
                os.kill(pid, signal.SIGKILL)
            except OSError:
                pass
            os.waitpid(pid, 0)
            return 'hang'
        time.sleep(0.004)


def record(case, timeout=60, render_if_missing=True):
    """the record of one real render of the case (cached).  None when it could not be obtained.
    Two children of the calling process render the case independently (the second one only to compare the bytes written)."""
    p = cache_path(case)
    if os.path.exists(p):
        try:
            return json.load(open(p))
        except ValueError:
            pass
    if not render_if_missing:
        return None
    os.makedirs(os.path.dirname(p), exist_ok=True)
    pa, pb = p + '.%d.a' % os.getpid(), p + '.%d.b' % os.getpid()
    pid_a = _in_child(lambda: _render_record(case), pa, timeout)
    pid_b = _in_child(lambda: _second_render(case), pb, timeout)
    ra, rb = _wait(pid_a, timeout), _wait(pid_b, timeout)
    rec = None
    try:
        if os.path.exists(pa):
            rec = json.load(open(pa))
        elif ra == 'hang':
            rec = {'status': 'hang'}
        if rec is not None:
            if os.path.exists(pb):
                rec['second'] = json.load(open(pb))
            else:
                rec['second'] = {'status': 'hang' if rb == 'hang' else 'lost'}
            if rec.get('status') != 'hang' or True:
                tmp = p + '.%d.tmp' % os.getpid()
                with open(tmp, 'w') as f:
                    json.dump(rec, f)
                os.replace(tmp, p)
    finally:
        for q in (pa, pb, pa + '.err', pb + '.err'):
            if os.path.exists(q):
                if q.endswith('.err') and rec is None:
                    rec = {'status': 'harness-error', 'msg': open(q).read()[-1500:]}
                os.remove(q)
    return rec


# ------------------------------------------------------------------------------------------------------------------
# the real render

def _config(case):
    from plasTeX.Config import defaultConfig
    cfg = case['cfg']
    config = defaultConfig()
    rmod, theme = RENDERERS[cfg['renderer']]
    if rmod == 'HTML5':
        import plasTeX.Renderers.HTML5.Config as HC
        HC.addConfig(config)
        if cfg.get('crumbs'):
            config['html5']['breadcrumbs-level'] = -sys.maxsize
        if cfg.get('localtoc'):
            config['html5']['localtoc-level'] = 100
    config['general']['renderer'] = rmod
    config['general']['theme'] = theme
    config['general']['copy-theme-extras'] = False
    config['images']['imager'] = 'none'
    config['images']['vector-imager'] = 'none'
    config['files']['split-level'] = cfg['split']
    config['files']['filename'] = cfg['filename']
    if cfg.get('bad') is not None:
        config['files']['bad-chars'] = cfg['bad'][0].replace('%', '%%')      # option values are %-interpolated when read
        config['files']['bad-chars-sub'] = cfg['bad'][1].replace('%', '%%')
    config['document']['base-url'] = cfg.get('base', '')
    config['document']['toc-depth'] = cfg.get('tocdepth', 3)
    config['document']['toc-non-files'] = bool(cfg.get('tocnonfiles'))
    return config, rmod


def effective_config(case):
    """the configuration values the Model needs, read back from the real configuration object (defaults included)"""
    sys.path.insert(0, REPO) if REPO not in sys.path else None
    config, rmod = _config(case)
    mod = __import__('plasTeX.Renderers.' + rmod, fromlist=['Renderer'])
    return {'split': config['files']['split-level'], 'filename': config['files']['filename'],
            'bad': config['files']['bad-chars'], 'badsub': config['files']['bad-chars-sub'],
            'ext': mod.Renderer.fileExtension, 'jobname': 'job',
            'base': config['document']['base-url'], 'tocdepth': config['document']['toc-depth'],
            'tocnonfiles': bool(config['document']['toc-non-files'])}


def _one_render(case, outdir, want_api):
    """parse and render once in the current process; returns (renderer, document, walk result or None)"""
    from plasTeX.TeX import TeX, TeXDocument
    from plasTeX.Logging import disableLogging
    import logging
    disableLogging()
    logging.disable(logging.CRITICAL)
    config, rmod = _config(case)
    doc = TeXDocument(config=config)
    tex = TeX(doc)
    tex.disableLogging()
    tex.input(source(case))
    tex.parse()
    shutil.rmtree(outdir, ignore_errors=True)
    os.makedirs(outdir)
    doc.userdata['jobname'] = 'job'
    doc.userdata['working-dir'] = outdir
    os.chdir(outdir)
    mod = __import__('plasTeX.Renderers.' + rmod, fromlist=['Renderer'])
    holder = {}

    class Observed(mod.Renderer):
        # the public navigation API is only available while the renderer is mixed into Node: read it in cleanup()
        def cleanup(self, document, files, postProcess=None):
            r = mod.Renderer.cleanup(self, document, files, postProcess=postProcess)
            if want_api:
                holder['walk'] = walk(document, self)
            return r
    r = Observed()
    r.render(doc)
    return r, doc, holder.get('walk')


def kind_of(node):
    from plasTeX.DOM import Node
    if node.nodeType == Node.DOCUMENT_NODE:
        return K_ROOT
    name = node.nodeName
    if name == 'document':
        return K_DOCENV
    if name in SECTION_NAMES:
        return K_SECTION
    if name in ('footnote', 'footnotetext'):
        return K_FOOTNOTE
    if name == 'ref':
        return K_REF
    if name == 'pageref':
        return K_PAGEREF
    if name == 'index':
        return K_ANCHOR
    if name == 'cite':
        return K_CITE
    if name == 'bibitem':
        return K_BIBITEM
    if name == 'caption':
        return K_CAPTION
    if name in ('printindex', 'theindex'):
        return K_INDEXPAGE
    if name in ('label', 'tableofcontents', 'documentclass', 'usepackage', 'title', 'author', 'date'):
        return K_HIDDEN
    if name == 'item':
        return K_ITEM
    return K_PLAIN


def walk(document, renderer):
    """the digested document as the Model's input + what the public API says about every node (read while the renderer is active)"""
    from plasTeX.DOM import Node
    serial = {}
    order = []

    def is_text(node):
        # Renderable.__str__ short-circuits text nodes and macros that have a unicode equivalent (.str): both are text
        return node.nodeType == Node.TEXT_NODE or getattr(node, 'str', None) is not None

    def number(node):
        if is_text(node):
            return
        serial[id(node)] = len(order)
        order.append(node)
        for c in node.childNodes:
            number(c)
    number(document)

    def text_of(x):
        if x is None:
            return None
        if hasattr(x, 'textContent'):
            return str(x.textContent)
        if isinstance(x, str):
            return str(x)
        return None

    def attrs(node):
        k = kind_of(node)
        nid = getattr(node, '@id', None)
        if k == K_BIBITEM:
            nid = node.attributes.get('key')
        title = None
        if hasattr(node, 'title'):
            title = text_of(node.title)
        ref = None
        if hasattr(node, 'ref'):
            ref = text_of(node.ref)
        if k == K_BIBITEM:
            try:
                ref = text_of(node.bibcite)      # what \cite prints for the item: its optional label, else its number
            except Exception:   # noqa
                pass
        targets = []
        resolved = 1
        if k in (K_REF, K_PAGEREF):
            t = node.idref.get('label')
            if t is not None and id(t) in serial and getattr(t, 'ref', None):
                targets = [serial[id(t)]]
            else:
                resolved = 0
        elif k == K_CITE:
            targets = [serial[id(b)] for b in node.bibitems if id(b) in serial]
        elif k == K_INDEXPAGE:
            def pages(n):
                for p in getattr(n, 'pages', None) or []:
                    t = object.__getattribute__(p, '_cr_node')
                    if object.__getattribute__(p, '_cr_type') in (None, 0) or getattr(p, 'normal', False):
                        if id(t) in serial:
                            targets.append(serial[id(t)])
                for c in n.childNodes:
                    if c.nodeType != Node.TEXT_NODE:
                        pages(c)
            pages(node)
        level = node.level
        return [serial[id(node)], k, level, 1 if node.nodeType == Node.DOCUMENT_NODE else 0,
                None if nid is None else str(nid), 1 if getattr(node, '@hasgenid', None) else 0,
                title, ref, str(node.nodeName or ''), targets, resolved]

    def tree(node):
        kids = []
        run = []          # adjacent text nodes (an undigested run of character tokens is one text)

        def flush():
            for w in leaf_words(''.join(run)):
                kids.append(['w', w])
            del run[:]
        for c in node.childNodes:
            if c.nodeType == Node.TEXT_NODE:
                run.append(str(c))
            elif is_text(c):
                run.append(str(c.str))
            else:
                flush()
                kids.append(tree(c))
        flush()
        return attrs(node) + [kids]
    # the API first (it may generate ids), then the tree
    urls, nav, toc = [], [], []
    assign = []
    for node in order:
        fn = renderer.files.get(node)
        has_id = getattr(node, '@id', None) is not None or kind_of(node) == K_BIBITEM
        if node.nodeType != Node.DOCUMENT_NODE and (fn is not None or has_id) and hasattr(node, 'url'):
            try:
                urls.append([serial[id(node)], str(node.url)])
            except Exception as e:   # noqa
                urls.append([serial[id(node)], 'raise:' + type(e).__name__])
        if fn is not None and hasattr(node, 'links'):
            ln = node.links

            def s(x):
                return serial.get(id(x), -2) if x is not None else -1
            nav.append([serial[id(node)], s(ln.get('prev')), s(ln.get('next')), s(ln.get('up')),
                        [s(b) for b in ln.get('breadcrumbs', [])]])

            def toctree(entries):
                return [[serial.get(id(e._toc_node), -2), toctree(e.tableofcontents)] for e in entries]
            toc.append([serial[id(node)], toctree(node.tableofcontents)])
    for node, fn in renderer.files.items():
        assign.append([serial.get(id(node), -2), fn])
    fnotes = [serial.get(id(f), -2) for f in document.userdata.get('footnotes', [])]
    return {'tree': tree(document), 'fnotes': fnotes, 'assign': assign, 'urls': urls, 'nav': nav, 'toc': toc}


class Reader(HTMLParser):
    """what one output file contains: marker words in order, ids, anchors, links with their text, headings"""
    VOID = {'area', 'base', 'br', 'col', 'embed', 'hr', 'img', 'input', 'link', 'meta', 'param', 'source', 'track', 'wbr'}

    def __init__(self):
        HTMLParser.__init__(self, convert_charrefs=True)
        self.words, self.ids, self.names, self.links, self.heads, self.twords = [], [], [], [], [], []
        self.stack = []          # open elements
        self.open_a = []         # indices into self.links of open <a>
        self.open_h = []         # indices into self.heads
        self.in_body = False

    def handle_starttag(self, tag, attrs):
        a = dict(attrs)
        if tag == 'body':
            self.in_body = True
        if 'id' in a and a['id'] is not None:
            self.ids.append(a['id'])
        if tag == 'a' and a.get('name') is not None and a.get('name') != a.get('id'):
            self.names.append(a['name'])
        if tag == 'a' and a.get('href') is not None:
            self.links.append(['a', a['href'], ''])
            self.open_a.append(len(self.links) - 1)
        elif tag == 'a':
            self.open_a.append(None)
        if tag == 'link' and a.get('href') is not None and (a.get('rel') or '').lower() in ('next', 'prev', 'previous', 'up', 'contents', 'index', 'start', 'home'):
            self.links.append(['link', a['href'], ''])
        if tag in ('h1', 'h2', 'h3', 'h4', 'h5', 'h6'):
            self.heads.append([a.get('id'), []])
            self.open_h.append(len(self.heads) - 1)

    def handle_startendtag(self, tag, attrs):
        self.handle_starttag(tag, attrs)
        if tag not in self.VOID:
            self.handle_endtag(tag)

    def handle_endtag(self, tag):
        if tag == 'a' and self.open_a:
            self.open_a.pop()
        if tag in ('h1', 'h2', 'h3', 'h4', 'h5', 'h6') and self.open_h:
            self.open_h.pop()

    def handle_data(self, data):
        self.words += leaf_words(data)
        for i in self.open_a:
            if i is not None:
                self.links[i][2] += data
        ts = [int(m.group(1)) for m in T_RE.finditer(data)]
        self.twords += ts
        for i in self.open_h:
            self.heads[i][1] += ts


def read_html(path, encoding='utf-8'):
    r = Reader()
    with open(path, encoding=encoding, errors='replace') as f:
        txt = f.read()
    r.feed(txt)
    r.close()
    # marker words inside attribute values would be text turned into markup: count them separately
    return {'words': r.words, 'ids': r.ids, 'names': r.names, 'links': [[k, h, ' '.join(t.split())] for k, h, t in r.links],
            'heads': r.heads, 'size': len(txt)}


def read_outdir(outdir):
    files = {}
    others = []
    for d, dirs, fs in os.walk(outdir):
        for f in fs:
            rel = os.path.relpath(os.path.join(d, f), outdir)
            if rel.endswith('.paux'):
                continue
            files[rel] = read_html(os.path.join(d, f))
    return files


def _render_record(case):
    sys.path.insert(0, REPO) if REPO not in sys.path else None
    import plasTeX
    assert os.path.abspath(plasTeX.__file__).startswith(os.path.abspath(REPO) + os.sep), plasTeX.__file__
    sys.setrecursionlimit(6000)
    base = os.path.join(tempfile.gettempdir(), 'verif-render', '%d' % os.getpid())
    rec = {'status': 'ok'}
    try:
        try:
            r, doc, w = _one_render(case, base + '/a', True)
        except Exception as e:   # noqa
            import traceback
            rec = {'status': 'raise', 'exc': type(e).__name__, 'msg': str(e)[:300], 'tb': traceback.format_exc()[-1500:]}
            # the document as parsed is still needed by the Model (to predict the crash): parse again without rendering
            try:
                rec.update(_walk_unrendered(case))
            except Exception as e2:  # noqa
                rec['walk_error'] = '%s: %s' % (type(e2).__name__, e2)
            return rec
        rec.update(w)
        rec['files'] = read_outdir(base + '/a')
        rec['digests'] = first_digests(base + '/a')
        return rec
    finally:
        os.chdir('/')
        shutil.rmtree(base, ignore_errors=True)


def _history(case):
    """another document of the same class is parsed, and identifiers are generated for its nodes, before the case is rendered:
    the same input must give the same files whatever the interpreter did before"""
    from plasTeX.TeX import TeX, TeXDocument
    cls = case['doc'].get('cls', 'article')
    doc = TeXDocument()
    tex = TeX(doc)
    tex.disableLogging()
    tex.input('\\documentclass{%s}\\begin{document}\\section{h}x\\footnote{y}\\subsection{k}z\\end{document}' % cls)
    tex.parse()
    for name in ('section', 'subsection', 'footnote'):
        for n in doc.getElementsByTagName(name):
            _ = n.id


def _second_render(case):
    sys.path.insert(0, REPO) if REPO not in sys.path else None
    sys.setrecursionlimit(6000)
    outdir = os.path.join(tempfile.gettempdir(), 'verif-render', '%d' % os.getpid(), 'b')
    try:
        try:
            from plasTeX.Logging import disableLogging
            disableLogging()
            _history(case)
            _one_render(case, outdir, False)
            return {'status': 'ok', 'files': first_digests(outdir)}
        except Exception as e:   # noqa
            return {'status': 'raise', 'exc': type(e).__name__}
    finally:
        os.chdir('/')
        shutil.rmtree(os.path.dirname(outdir), ignore_errors=True)


def _list_files(outdir):
    out = []
    for d, dirs, fs in os.walk(outdir):
        for f in fs:
            rel = os.path.relpath(os.path.join(d, f), outdir)
            if not rel.endswith('.paux'):
                out.append(rel)
    return out


GENID_RE = re.compile(rb'a\d{10}')


def first_digests(outdir):
    """file name -> digest of the content, generated identifiers (a0000000001 ...) renamed in order of first appearance over the
    files in name order: their values depend on how many identifiers the interpreter generated before, their pattern must not"""
    names = {}

    def canon(m):
        return names.setdefault(m.group(0), b'GENID%d' % len(names))
    out = {}
    for k in sorted(_list_files(outdir)):
        data = GENID_RE.sub(canon, open(os.path.join(outdir, k), 'rb').read())
        out[k] = hashlib.sha256(data).hexdigest()[:16]
    return out


def _walk_unrendered(case):
    """the tree when the render raised: parse again and walk with the renderer mixed in but without rendering"""
    from plasTeX.TeX import TeX, TeXDocument
    config, rmod = _config(case)
    doc = TeXDocument(config=config)
    tex = TeX(doc)
    tex.disableLogging()
    tex.input(source(case))
    tex.parse()

    class Dummy(object):
        files = {}
    w = walk_static(doc)
    return w


def walk_static(document):
    """tree only (no API): used when the render raised"""
    class R(object):
        files = {}
    from plasTeX.DOM import Node
    saved = {}
    w = walk(document, R())
    w['urls'], w['nav'], w['toc'] = [], [], []
    return w


# ------------------------------------------------------------------------------------------------------------------
# wire encoding of a record for the Model, legacy probes, shrinking (shared by props/C13.py and props/C14.py)

def S(s):
    return [ord(c) for c in s]


def ostr(s):
    return 0 if s is None else S(s)


def wire_level(level):
    q, r = divmod(int(level), 10 ** 9)
    return [q, r]


def wire_tree(t):
    if t[0] == 'w':
        return int(t[1])
    ser, kind, level, isdoc, nid, genid, title, ref, name, targets, resolved, kids = t
    return [ser, kind, wire_level(level), isdoc, ostr(nid), genid, ostr(title), ostr(ref), S(name), list(targets), resolved,
            [wire_tree(k) for k in kids]]


_LEGACY = None


def legacy_flags():
    """which of the three repairs of Filenames.py (notes/C15/fix-*.diff) the code under test has: (reset, words, passes) as 0/1 =
    fixed/legacy.  The Model of the generator (Model/Filenames.v, property C15) has one switch per repair."""
    global _LEGACY
    if _LEGACY is None:
        sys.path.insert(0, REPO) if REPO not in sys.path else None
        from plasTeX.Filenames import Filenames
        f = Filenames('[$title, $id, sect$num]')
        f()
        f.variables.update(title='Intro', id='a')
        f()
        f.variables.update(title='Intro', id='b')
        lr = 0 if f() == 'b' else 1
        try:
            Filenames('$title(2) [sect$num]', variables={'title': ''})()
            lw = 0
        except IndexError:
            lw = 1
        f = Filenames('sect$num', invalid={'sect150': None})
        try:
            for i in range(150):
                f()
            lp = 0
        except ValueError:
            lp = 1
        _LEGACY = (lr, lw, lp)
    return _LEGACY


_EFF = {}


def wire_cfg(case):
    key = json.dumps(case['cfg'], sort_keys=True)
    if key not in _EFF:
        _EFF[key] = effective_config(case)
    e = _EFF[key]
    lr, lw, lp = legacy_flags()
    return [e['split'], S(e['filename']), S(e['bad']), S(e['badsub']), S(e['ext']), S(e['jobname']), S(e['base']), e['tocdepth'],
            1 if e['tocnonfiles'] else 0, lr, lw, lp, 0]


def model_input(case, mode):
    rec = record(case)          # normally a cache hit: the implementation side has just rendered the case
    if rec is None or 'tree' not in rec:
        return [-1]
    return [mode, wire_cfg(case), wire_tree(rec['tree']), [x for x in rec.get('fnotes', [])]]


def describe(case):
    c = case['cfg']
    return ('renderer=%s split-level=%s filename=%r bad-chars=%r base-url=%r toc-depth=%s toc-non-files=%s%s%s\n%s' % (
        c['renderer'], c['split'], c['filename'], c.get('bad'), c.get('base', ''), c.get('tocdepth', 3), bool(c.get('tocnonfiles')),
        ' breadcrumbs' if c.get('crumbs') else '', ' localtoc' if c.get('localtoc') else '', source(case)))


def shrink(case):
    """smaller cases: drop one item, drop one inline, simplify the configuration"""
    doc, cfg = case['doc'], case['cfg']
    if 'raw' in doc:
        return
    items = doc['items']
    # halves first
    n = len(items)
    if n > 3:
        yield {'doc': dict(doc, items=items[:n // 2]), 'cfg': cfg}
        yield {'doc': dict(doc, items=items[n // 2:]), 'cfg': cfg}
    for i in range(n):
        yield {'doc': dict(doc, items=items[:i] + items[i + 1:]), 'cfg': cfg}

    def sub_inl(ins):
        for i in range(len(ins)):
            yield ins[:i] + ins[i + 1:]
            if ins[i][0] in ('b', 'fn'):
                yield ins[:i] + ins[i][1] + ins[i + 1:]
                for s in sub_inl(ins[i][1]):
                    yield ins[:i] + [[ins[i][0], s]] + ins[i + 1:]
    for i, it in enumerate(items):
        if it[0] in ('par', 'quote'):
            for s in sub_inl(it[1]):
                if s:
                    yield {'doc': dict(doc, items=items[:i] + [[it[0], s]] + items[i + 1:]), 'cfg': cfg}
        elif it[0] == 'list':
            for j in range(len(it[2])):
                if len(it[2]) > 1:
                    yield {'doc': dict(doc, items=items[:i] + [[it[0], it[1], it[2][:j] + it[2][j + 1:]]] + items[i + 1:]), 'cfg': cfg}
        elif it[0] == 'sec':
            if len(it[3]) > 1:
                yield {'doc': dict(doc, items=items[:i] + [[it[0], it[1], it[2], it[3][:1], it[4]]] + items[i + 1:]), 'cfg': cfg}
            if it[2]:
                yield {'doc': dict(doc, items=items[:i] + [[it[0], it[1], 0, it[3], it[4]]] + items[i + 1:]), 'cfg': cfg}
    simple = dict(bad=None, base='', tocdepth=3, tocnonfiles=False, crumbs=False, localtoc=False)
    for k, v in simple.items():
        if cfg.get(k) != v:
            yield {'doc': doc, 'cfg': dict(cfg, **{k: v})}
    if cfg['filename'] != TEMPLATES[0]:
        yield {'doc': doc, 'cfg': dict(cfg, filename=TEMPLATES[0])}
    if doc['cls'] != 'article':
        yield {'doc': dict(doc, cls='article'), 'cfg': cfg}


# ------------------------------------------------------------------------------------------------------------------
# helpers on recorded trees (the Spec oracles of props/C13.py and props/C14.py are written on these)

def tree_nodes(t, chain=()):
    """yield (node, chain of ancestors nearest first) for every element node, document order"""
    if t[0] == 'w':
        return
    yield t, chain
    for k in t[-1]:
        for x in tree_nodes(k, (t,) + chain):
            yield x


def tree_leaves(t, chain=()):
    """yield (word, chain of ancestors nearest first) for every text leaf, document order"""
    if t[0] == 'w':
        yield t[1], chain
        return
    for k in t[-1]:
        for x in tree_leaves(k, (t,) + chain):
            yield x


def docenv_of(tree):
    for k in tree[-1]:
        if k[0] != 'w' and k[2] == DOCUMENT_LEVEL:
            return k
    return None


# ------------------------------------------------------------------------------------------------------------------
# the extracted entry point answers (observation, premises-hold flag): Proofs/RenderProofs2.v run_case_checked

def unwrap(mo):
    """-> (observation of Model/Render.v, 1/0: the premises of C13_split_by_level hold for this case, None when unknown)"""
    if isinstance(mo, list) and len(mo) == 2 and isinstance(mo[1], int) and not isinstance(mo[0], int):
        return mo[0], mo[1]
    return mo, None


class Counted(list):
    """a list of fixed strings plus one line computed when the evidence is written (core reads it with list(...))"""
    def __init__(self, fixed, counter, text):
        list.__init__(self, fixed)
        self.counter, self.text = counter, text

    def __iter__(self):
        for x in list.__iter__(self):
            yield x
        yield self.text % (self.counter.get(1, 0), sum(self.counter.values()))
