"""merge partial result files of parallel run_seeded.py runs (build/seeded_*.json) into seeded/RESULTS.json"""
import glob, json, os, sys
V = os.path.dirname(os.path.dirname(os.path.abspath(__file__)))
res = json.load(open(os.path.join(V, 'seeded', 'RESULTS.json')))
for f in sys.argv[1:] or sorted(glob.glob(os.path.join(V, 'build', 'seeded_*.json'))):
    res.update(json.load(open(f)))
json.dump(res, open(os.path.join(V, 'seeded', 'RESULTS.json'), 'w'), indent=1, sort_keys=True)
miss = [k for k, v in sorted(res.items()) if not v.get('detected')]
nb = [k for k, v in sorted(res.items()) if v.get('detected') and not v.get('detected_without_pin_boost')]
print(len(res), 'entries; missed:', miss, '; only with pin boost:', nb)
