"""Generator-reach report (development tool, not a registered check): runs the implementation side of a property's
quick (or thorough) correspondence streams under branch coverage and lists, per function of the property's anchor files,
the lines the streams never execute.  A change seeded on a line that no case reaches cannot be noticed by the
correspondence, so this is how blind spots of a generator are found before a mutant finds them.
Usage: covreport.py Cxx [quick|thorough]   -> notes/coverage/Cxx.txt"""
import ast
import hashlib
import importlib
import json
import os
import random
import signal
import sys

V = os.path.dirname(os.path.dirname(os.path.abspath(__file__)))
sys.path.insert(0, os.path.join(V, 'harness'))
import core  # noqa


def functions(path):
    """(first line, last line, qualname) of every function in the file"""
    out = []

    def walk(node, prefix):
        for n in ast.iter_child_nodes(node):
            if isinstance(n, (ast.FunctionDef, ast.AsyncFunctionDef)):
                out.append((n.lineno, n.end_lineno, prefix + n.name))
                walk(n, prefix + n.name + '.')
            elif isinstance(n, ast.ClassDef):
                walk(n, prefix + n.name + '.')
    walk(ast.parse(open(path, encoding='utf8').read()), '')
    return out


def main():
    pid = sys.argv[1]
    tier = sys.argv[2] if len(sys.argv) > 2 else 'quick'
    prop = importlib.import_module('props.' + pid)
    anchors = None
    for l in open(os.path.join(V, 'properties.jsonl')):
        o = json.loads(l)
        if o['id'] == pid:
            anchors = o['anchors']['files']
    files = [os.path.join(core.REPO, f) for f in anchors if os.path.isfile(os.path.join(core.REPO, f))]
    for f in anchors:
        p = os.path.join(core.REPO, f)
        if os.path.isdir(p):
            for r, _, fs in os.walk(p):
                files += [os.path.join(r, x) for x in fs if x.endswith('.py')]
    rng = random.Random(int(hashlib.sha256(pid.encode()).hexdigest()[:6], 16))
    cases = [c for _, c in prop.streams(rng, tier, 1)]
    nproc = 8
    datadir = os.path.join(core.BUILD, 'coverage', pid)
    os.makedirs(datadir, exist_ok=True)
    for f in os.listdir(datadir):
        os.unlink(os.path.join(datadir, f))
    import coverage
    pids = []
    for k in range(nproc):
        child = os.fork()
        if child == 0:
            cov = coverage.Coverage(data_file=os.path.join(datadir, 'cov.%d' % k), branch=True, include=files)
            cov.start()
            try:
                core._worker_init('props.' + pid, 3)
                for c in cases[k::nproc]:
                    try:
                        core._worker_run(c)
                    except BaseException:   # noqa
                        signal.setitimer(signal.ITIMER_REAL, 0)
            finally:
                cov.stop()
                cov.save()
            os._exit(0)
        pids.append(child)
    for c in pids:
        os.waitpid(c, 0)
    cov = coverage.Coverage(data_file=os.path.join(datadir, 'cov'), branch=True, include=files)
    cov.combine([os.path.join(datadir, f) for f in os.listdir(datadir)])
    lines = ['%s %s streams: %d cases; anchor files: %s' % (pid, tier, len(cases), ', '.join(anchors)), '']
    for f in sorted(set(files)):
        try:
            _, stmts, _, missing, _ = cov.analysis2(f)
        except Exception as e:   # noqa
            lines.append('%s: no data (%s)' % (os.path.relpath(f, core.REPO), e))
            continue
        miss = set(missing)
        lines.append('%s: %d of %d statements reached' % (os.path.relpath(f, core.REPO), len(stmts) - len(miss), len(stmts)))
        fn = functions(f)
        for a, b, q in fn:
            inner = [(x, y) for x, y, q2 in fn if q2.startswith(q + '.')]
            own = [s for s in stmts if a < s <= b and not any(x <= s <= y for x, y in inner)]
            m = [s for s in own if s in miss]
            if not own or len(m) == len(own) or not m:
                continue   # wholly unreached functions are outside the streams' scope; wholly reached ones need no line
            lines.append('    %s (L%d-%d): reached %d/%d, never reached: %s' % (q, a, b, len(own) - len(m), len(own), ' '.join(map(str, m))))
        un = [q for a, b, q in fn if all(s in miss for s in stmts if a < s <= b) and any(a < s <= b for s in stmts)]
        lines.append('    functions never entered: %d of %d' % (len(un), len(fn)))
        lines.append('')
    os.makedirs(os.path.join(V, 'notes', 'coverage'), exist_ok=True)
    open(os.path.join(V, 'notes', 'coverage', pid + '.txt'), 'w').write('\n'.join(lines) + '\n')
    print('\n'.join(lines))


if __name__ == '__main__':
    main()
