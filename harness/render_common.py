"""Shared in-process render helper (used by C12; other renderer properties may reuse it).

    from render_common import render
    r = render(latex_source, renderer='HTML5', theme='default', escape_high=False, encoding='utf-8')
    r.files        {filename: bytes}            the output files as written (after Renderer.cleanup post-processing)
    r.text(name)   str                          a file decoded with the output encoding
    r.pfc          [(filename, before, after)]  what Renderer.processFileContent received and returned, per file
    r.document     the parsed TeXDocument (after rendering: Renderable is un-mixed again)
    r.renderer     the renderer instance

plasTeX is imported from whatever is first on sys.path (the check's worker processes put $VERIF_REPO there).
Everything happens in a fresh temporary directory which is removed afterwards; the current directory is restored.
Offline: no imager, no theme extras are copied.  A render of a small document takes 0.05-0.3 s.
"""
import os
import shutil
import tempfile


class Rendered(object):
    def __init__(self):
        self.files = {}
        self.pfc = []
        self.document = None
        self.renderer = None
        self.encoding = 'utf-8'

    def text(self, name):
        return self.files[name].decode(self.encoding, 'replace')


def make_config(renderer='HTML5', theme='default', escape_high=False, encoding='utf-8', overrides=None):
    from plasTeX.Config import defaultConfig
    config = defaultConfig()
    if renderer == 'HTML5':
        from plasTeX.Renderers.HTML5.Config import addConfig
        addConfig(config)
    config['general']['renderer'] = renderer
    config['general']['theme'] = theme
    config['general']['copy-theme-extras'] = False
    config['images']['imager'] = 'none'
    config['images']['vector-imager'] = 'none'
    config['files']['escape-high-chars'] = bool(escape_high)
    config['files']['output-encoding'] = encoding
    for (sec, key), val in (overrides or {}).items():
        config[sec][key] = val
    return config


def renderer_class(renderer='HTML5'):
    """the real renderer class, subclassed only to record the arguments/results of processFileContent"""
    if renderer == 'HTML5':
        from plasTeX.Renderers.HTML5 import Renderer as Base
    elif renderer == 'XHTML':
        from plasTeX.Renderers.XHTML import Renderer as Base
    else:
        raise ValueError(renderer)

    class Recording(Base):
        def processFileContent(self, document, s):
            out = Base.processFileContent(self, document, s)
            self.verif_pfc.append((s, out))
            return out
    # loadTemplates looks for templates next to the module of every class in the MRO: keep it on the real one
    Recording.__module__ = Base.__module__
    Recording.__name__ = Base.__name__
    return Recording


def parse(source, config, workdir, jobname='job', setup=None):
    from plasTeX.TeX import TeX, TeXDocument
    doc = TeXDocument(config=config)
    tex = TeX(doc)
    try:
        tex.disableLogging()
    except Exception:
        pass
    doc.userdata['jobname'] = jobname
    doc.userdata['working-dir'] = workdir
    if setup:
        setup(doc, tex)
    tex.input(source)
    tex.parse()
    return doc


def render(source, renderer='HTML5', theme='default', escape_high=False, encoding='utf-8', overrides=None,
           setup=None, inspect=None, keep=False):
    """parse `source`, render it with the real renderer, return a Rendered.
    inspect(document) is called after parsing and before rendering; its result is stored in .inspected"""
    res = Rendered()
    res.encoding = encoding
    config = make_config(renderer, theme, escape_high, encoding, overrides)
    cwd = os.getcwd()
    d = tempfile.mkdtemp(prefix='verif-render-')
    try:
        os.chdir(d)
        doc = parse(source, config, d, setup=setup)
        res.document = doc
        res.inspected = inspect(doc) if inspect else None
        r = renderer_class(renderer)()
        r.verif_pfc = []
        res.renderer = r
        r.render(doc)
        for root, _, files in os.walk(d):
            for f in files:
                if f.endswith(('.html', '.xml', '.hhc', '.hhk', '.hhp')):
                    p = os.path.join(root, f)
                    res.files[os.path.relpath(p, d)] = open(p, 'rb').read()
        res.pfc = list(r.verif_pfc)
    finally:
        os.chdir(cwd)
        if not keep:
            shutil.rmtree(d, ignore_errors=True)
        else:
            res.dir = d
    return res
