#!/bin/sh
# final pass on the unchanged tree: pins refreshed, then every property at seeds 0..5 (three lanes); prints one line per run
cd /verif
lane() { n=$1; shift
  ( for p in "$@"; do ./check $p --update-pins 2>&1 | tail -1
      for s in 1 2 3 4 5; do VERIF_SEED=$s ./check $p 2>&1 | grep "VIOLATION\|tier=" ; done
      ./check $p 2>&1 | tail -1     # leaves the seed-0 evidence in evidence/
    done ) > build/sweep_$n.out 2>&1 & }
lane A C01 C02 C03 C04 C05 C06 C07
lane B C08 C09 C10 C11 C12 C13 C14
lane C C15 C16 C17 C18 C19 C20
wait
