"""Regenerate /verif/MANIFEST.json from harness/claims.json (one entry per claimed property) and properties.jsonl."""
import json, os
V = os.path.dirname(os.path.dirname(os.path.abspath(__file__)))
claims = json.load(open(os.path.join(V, 'harness', 'claims.json')))
props = [json.loads(l) for l in open(os.path.join(V, 'properties.jsonl'))]
checks, na = [], []
for p in props:
    pid = p['id']
    c = claims.get(pid)
    if not c or not c.get('claimed'):
        na.append(dict(property_id=pid, reason=(c or {}).get('reason', 'model and theorems for this property are not built yet (see DESIGN.md section 8 for the plan); not claimed until its check runs clean on the unchanged tree')))
        continue
    checks.append(dict(
        property_id=pid,
        quick_cmd='./check %s --tier quick' % pid,
        thorough_cmd='./check %s --tier thorough' % pid,
        evidence_file='/verif/evidence/%s.json' % pid,
        replay_cmd_template='./check %s --replay {path}' % pid,
        engine='coq-proof+correspondence',
        level_claimed=dict(category='proof', text=c['text'], design_ref=c.get('design_ref', 'DESIGN.md section 8, ' + pid)),
        level_note=c['note'],
        technique=c.get('technique', 'machine-checked proof in Coq 8.16.1 about a hand-written Gallina Model; Model tied to /repo by a differential correspondence check (extracted OCaml Model vs the implementation on generated inputs)')))
m = dict(
    version=1,
    setup_cmd='./setup',
    hooks=dict(guard='PLASTEX_VERIF', enable='no source hooks are needed: all observation points are public Python API (PYTHONPATH=/repo)',
               baseline_off_cmd='cd /repo && /venv/bin/python -m pytest -ra -q -p no:cacheprovider --timeout=900 --continue-on-collection-errors',
               source_commits=[], add_only=True),
    engines=[dict(name='coq-proof+correspondence', path='/verif/check', serves_properties=[c['property_id'] for c in checks],
                  kind_free_text='Coq 8.16.1 theorems about Gallina Models (coq/theories), regenerated Gen tables (python ast translator), extraction to OCaml, differential correspondence against plasTeX imported from /repo')],
    checks=checks,
    notes='See DESIGN.md. fix: commits in /repo are listed in known_findings.json (status=fixed).',
    not_applicable=na)
json.dump(m, open(os.path.join(V, 'MANIFEST.json'), 'w'), indent=1)
print('claimed', [c['property_id'] for c in checks])
