"""The macro language of Spec/MacroLang.v on the Python side: program trees, printer to LaTeX, wire encoding, generators.
Trees are JSON-able lists:
  ['word', w] ['group', body, style] ['def', global, name, nparams, default|None, body, how] ['let', name, target]
  ['call', name, opt|None, [args], how] ['param', k] ['hash'] ['cond', test, thn, els|None] ['case', operand, [branches], els|None]
  ['setsw', name, b] ['newsw', name] ['step', c] ['setc', c, z] ['addc', c, z]
tests: ['true'] ['false'] ['num', op, rel, op] ['odd', op] ['dim', (txt, unit), rel, (txt, unit)] ['switch', n] ['defined', n]
       ['ifxchar', a, b] ['ifxmac', a, b]
operands: ['lit', z, how]  (how: 'plain' | 'macro')   ['cnt', c]
`how`/`style` only influence printing (delimiters, \\csname spelling, \\newcommand vs \\def): the reference evaluator ignores them.
"""
from fractions import Fraction

REL = {'<': 0, '>': 1, '=': 2}
UNITS = {'pt': Fraction(65536), 'cm': Fraction(7227, 254) * 65536, 'mm': Fraction(7227, 2540) * 65536, 'in': Fraction(7227, 100) * 65536,
         'pc': Fraction(12) * 65536, 'bp': Fraction(7227, 7200) * 65536, 'sp': Fraction(1)}
# `true` units (magnification is 1000 throughout, so they denote the same lengths)
for _u in ('pt', 'cm', 'mm', 'in'):
    UNITS['true' + _u] = UNITS[_u]
    UNITS['true ' + _u] = UNITS[_u]
AZ = 'abcdefghijklmnopqrstuvwxyz'


def letters(n):
    s = ''
    n = int(n)
    while True:
        s = AZ[n % 26] + s
        n = n // 26 - 1
        if n < 0:
            return s


def word(w):
    return 'W' + letters(w)


def mac(n):
    return 'zq' + letters(n)


def cntname(c):
    return 'zc' + letters(c)


def is_reg(c):
    # every third integer variable is realised as a TeX count register (\newcount\zr.., operand \zr.., \global assignments)
    # instead of a LaTeX counter (\newcounter{zc..}, operand \value{zc..}, \setcounter ...): same meaning, other code path
    return int(c) % 3 == 2


def regname(c):
    return 'zr' + letters(c)


def REG_SCRATCH(cs):
    return '\\newcounter{zctmp}' if any(is_reg(c) for c in cs) else ''


def swname(n):
    # every other switch name contains "if" again after the prefix (\newif\ifzsifb -> \zsifbtrue / \zsifbfalse)
    return 'zs' + ('if' if int(n) % 2 else '') + letters(n)


# ---- printer -----------------------------------------------------------------------------------

class Printer:
    def __init__(self):
        self.pre = []
        self.nummacros = 0
        self.depth = 0          # number of definition bodies we are inside

    def operand(self, o):
        if o[0] == 'lit' and len(o) > 3 and o[3]:
            # sign run: o[1] is the denoted value, the printed magnitude has the signs taken off again
            signs = o[3]
            return signs + self.operand(['lit', o[1] * (-1 if signs.count('-') % 2 else 1), o[2]])
        if o[0] == 'lit':
            if len(o) > 2 and o[2] == 'macro':
                name = 'zn' + letters(self.nummacros)
                self.nummacros += 1
                self.pre.append('\\newcommand{\\%s}{%d}' % (name, o[1]))
                return '\\%s' % name
            return '%d' % o[1]
        if is_reg(o[1]):
            return '\\%s' % regname(o[1])
        return '\\value{%s}' % cntname(o[1])

    def dimen(self, d, reg):
        if not reg:
            return '%s%s' % (d[0], d[1])
        name = 'zd' + letters(self.nummacros)
        self.nummacros += 1
        self.pre.append('\\newdimen\\%s \\%s=%s%s\\relax ' % (name, name, d[0], d[1]))
        return '\\%s' % name

    def test(self, t):
        k = t[0]
        if k == 'true':
            return '\\iftrue '
        if k == 'false':
            return '\\iffalse '
        if k == 'num':
            # the second number is terminated by \relax or by one blank (style flag t[4]; the evaluator ignores it)
            b = self.operand(t[3])
            # (a blank after a control word is eaten by the tokenizer and would terminate nothing: \relax then)
            end = ' ' if len(t) > 4 and t[4] == 'space' and not b[-1:].isalpha() else '\\relax '
            if len(t) > 5 and t[5] == 'neg':
                # printing choice (same meaning): both operands written with a minus sign in front and the relation
                # turned round, -a > -b for a < b -- a sign directly in front of a counter / register operand too
                flip = {'<': '>', '>': '<', '=': '='}[t[2]]
                return '\\ifnum-%s%s-%s%s' % (self.operand(t[1]), flip, b, end)
            return '\\ifnum%s%s%s%s' % (self._numlead(t[1]), t[2], b, end)
        if k == 'odd':
            a = self._numlead(t[1])
            end = ' ' if len(t) > 2 and t[2] == 'space' and not a[-1:].isalpha() else '\\relax '
            return '\\ifodd%s%s' % (a, end)
        if k == 'dim':
            # t[4] (printing choice, ignored by the evaluator): bit 0 / bit 1 = first / second dimension through a \newdimen register
            regs = t[4] if len(t) > 4 else 0
            return '\\ifdim %s%s%s\\relax ' % (self.dimen(t[1], regs & 1), t[2], self.dimen(t[3], regs & 2))
        if k == 'switch':
            return '\\if%s ' % swname(t[1])
        if k == 'defined':
            return '\\ifdefined\\%s ' % mac(t[1])
        if k == 'ifxchar':
            return '\\ifx %s%s' % (chr(t[1]), chr(t[2]))
        if k == 'ifxmac':
            return '\\ifx\\%s\\%s ' % (mac(t[1]), mac(t[2]))
        raise ValueError(t)

    def _numlead(self, o):
        s = self.operand(o)
        return (' ' + s) if s[0] != '\\' else s

    def nodes(self, ns):
        return ''.join(self.node(n) for n in ns)

    def node(self, n):
        k = n[0]
        if k == 'word':
            return word(n[1]) + ' '
        if k == 'group':
            if len(n) > 2 and n[2] == 'begingroup':
                return '\\begingroup ' + self.nodes(n[1]) + '\\endgroup '
            return '{' + self.nodes(n[1]) + '}'
        if k == 'def':
            _, g, name, np, default, body, how = n
            how = how or {}
            kind = how.get('kind', 'def')
            if default is not None or kind in ('newcommand', 'renewcommand'):
                cmd = '\\' + (kind if kind in ('newcommand', 'renewcommand') else 'newcommand')
                total = np + (1 if default is not None else 0)
                s = '%s{\\%s}' % (cmd, mac(name))
                if total:
                    s += '[%d]' % total
                if default is not None:
                    s += '[' + self.nodes(default) + ']'
                self.depth += 1
                b = self.nodes(body)
                self.depth -= 1
                return s + '{' + b + '}'
            delims = how.get('delims') or [''] * (np + 1)
            hashes = '#' * (2 ** self.depth)      # a definition nested in a body doubles the parameter character
            pat = delims[0] + ''.join('%s%d%s' % (hashes, i + 1, delims[i + 1]) for i in range(np))
            self.depth += 1
            b = self.nodes(body)
            self.depth -= 1
            if how.get('csname'):
                return '\\expandafter\\%s\\csname %s\\endcsname%s{%s}' % ('gdef' if g else 'def', mac(name), pat, b)
            return '\\%s\\%s%s{%s}' % ('gdef' if g else 'def', mac(name), pat, b)
        if k == 'let':
            return '\\let\\%s=\\%s ' % (mac(n[1]), mac(n[2]))
        if k == 'call':
            _, name, opt, args, how = n
            how = how or {}
            head = ('\\csname %s\\endcsname' % mac(name)) if how.get('csname') else ('\\%s' % mac(name))
            delims = how.get('delims')
            s = head
            if opt is not None:
                s += '[' + self.nodes(opt) + ']'
            if delims:
                s += ' ' + delims[0]      # blanks after a control word are skipped by the tokenizer
                for i, a in enumerate(args):
                    body = self.nodes(a)
                    if delims[i + 1] == '':
                        s += '{' + body + '}'
                    else:
                        s += (('{' + body + '}') if how.get('brace_delimited') else body) + delims[i + 1]
                return s + ('' if args or delims[0] else '{}')
            if not args and opt is None:
                return s + '{}'
            return s + ''.join('{' + self.nodes(a) + '}' for a in args)
        if k == 'param':
            return '#%d' % n[1]
        if k == 'param2':
            return '##%d' % n[1]
        if k == 'expandafter':
            return '\\expandafter\\%s\\%s ' % (mac(n[1]), mac(n[2]))
        if k == 'hash':
            return '##'
        if k == 'cond' and len(n) > 4 and n[4] == 'macro' and n[1][0] == 'ifxchar':
            # printing choice (same meaning): the comparison is made inside a helper macro, \ifx directly followed by its parameters
            helper = '\\def\\zqifxh#1#2#3#4{\\ifx#1#2#3\\else#4\\fi}'
            if helper not in self.pre:
                self.pre.append(helper)
            return '\\zqifxh %s%s{%s}{%s}' % (chr(n[1][1]), chr(n[1][2]), self.nodes(n[2]), self.nodes(n[3] or []))
        if k == 'cond':
            s = self.test(n[1]) + self.nodes(n[2])
            if n[3] is not None:
                s += '\\else ' + self.nodes(n[3])
            return s + '\\fi '
        if k == 'case':
            s = '\\ifcase%s\\relax ' % self._numlead(n[1])
            s += '\\or '.join(self.nodes(b) for b in n[2])
            if n[3] is not None:
                s += '\\else ' + self.nodes(n[3])
            return s + '\\fi '
        if k == 'setsw':
            return '\\%s%s ' % (swname(n[1])[0:] , 'true' if n[2] else 'false')
        if k == 'newsw':
            return '\\newif\\if%s ' % swname(n[1])
        if k in ('step', 'setc', 'addc') and is_reg(n[1]):
            # LaTeX counter assignments are global: so are these
            if k == 'setc':
                return '\\global\\%s=%d\\relax ' % (regname(n[1]), n[2])
            # (plasTeX's \advance is a stub that only parses its operands, so the sum goes through a scratch LaTeX counter)
            return '\\setcounter{zctmp}{\\%s}\\addtocounter{zctmp}{%d}\\global\\%s=\\value{zctmp}\\relax ' % (
                regname(n[1]), 1 if k == 'step' else n[2], regname(n[1]))
        if k == 'step':
            return '\\stepcounter{%s}' % cntname(n[1])
        if k == 'setc':
            return '\\setcounter{%s}{%d}' % (cntname(n[1]), n[2])
        if k == 'addc':
            return '\\addtocounter{%s}{%d}' % (cntname(n[1]), n[2])
        raise ValueError(n)


def counters_used(ns, acc=None):
    acc = set() if acc is None else acc

    def walk(x):
        if isinstance(x, list):
            if x and x[0] in ('step', 'setc', 'addc'):
                acc.add(x[1])
            if x and x[0] == 'cnt':
                acc.add(x[1])
            for y in x:
                walk(y)
    walk(ns)
    return sorted(acc)


def to_source(prog):
    p = Printer()
    body = p.nodes(prog)
    cs = counters_used(prog)
    pre = (''.join(('\\newcount\\%s ' % regname(c)) if is_reg(c) else ('\\newcounter{%s}' % cntname(c)) for c in cs) + REG_SCRATCH(cs)
           + ''.join(p.pre))
    tail = 'Q' + ''.join(('\\number\\%s Q' % regname(c)) if is_reg(c) else ('\\arabic{%s}Q' % cntname(c)) for c in cs)
    return pre + body + tail, cs


# ---- wire --------------------------------------------------------------------------------------

def w_operand(o):
    return [0, o[1]] if o[0] == 'lit' else [1, o[1]]


def w_q(tu):
    x = Fraction(tu[0]) * UNITS[tu[1]]
    return x.numerator, x.denominator


def w_test(t):
    k = t[0]
    if k == 'true':
        return 0
    if k == 'false':
        return 1
    if k == 'num':
        return [2, w_operand(t[1]), REL[t[2]], w_operand(t[3])]
    if k == 'odd':
        return [3, w_operand(t[1])]
    if k == 'dim':
        an, ad = w_q(t[1])
        bn, bd = w_q(t[3])
        return [4, an, ad, REL[t[2]], bn, bd]
    if k == 'switch':
        return [5, t[1]]
    if k == 'defined':
        return [6, t[1]]
    if k == 'ifxchar':
        return [7, t[1], t[2]]
    if k == 'ifxmac':
        return [8, t[1], t[2]]
    raise ValueError(t)


def w_opt(x):
    return [] if x is None else [w_nodes(x)]


def w_nodes(ns):
    return [w_node(n) for n in ns]


def w_node(n):
    k = n[0]
    if k == 'word':
        return [0, n[1]]
    if k == 'group':
        return [1, w_nodes(n[1])]
    if k == 'def':
        return [2, 1 if n[1] else 0, n[2], n[3], w_opt(n[4]), w_nodes(n[5])]
    if k == 'let':
        return [3, n[1], n[2]]
    if k == 'call':
        return [4, n[1], w_opt(n[2]), [w_nodes(a) for a in n[3]]]
    if k == 'param':
        return [5, n[1]]
    if k == 'param2':
        return [15, n[1]]
    if k == 'expandafter':
        return [14, n[1], n[2]]
    if k == 'hash':
        return 6
    if k == 'cond':
        return [7, w_test(n[1]), w_nodes(n[2]), w_opt(n[3])]
    if k == 'case':
        return [8, w_operand(n[1]), [w_nodes(b) for b in n[2]], w_opt(n[3])]
    if k == 'setsw':
        return [9, n[1], 1 if n[2] else 0]
    if k == 'newsw':
        return [10, n[1]]
    if k == 'step':
        return [11, n[1]]
    if k == 'setc':
        return [12, n[1], n[2]]
    if k == 'addc':
        return [13, n[1], n[2]]
    raise ValueError(n)


def model_text(words):
    return ''.join('#' if w == -1 else word(w) for w in words)


# ---- implementation runner ---------------------------------------------------------------------

def run_source(src, ncounters):
    """-> [0, text, [counter values]] | [-2, 0] ... executed in a worker"""
    import texrun
    doc, tex = texrun.parse(src)
    txt = texrun.text_nospace(doc)
    parts = txt.rsplit('Q', ncounters + 1)
    if len(parts) != ncounters + 2:
        return ['text', txt]
    body = parts[0]
    try:
        vals = [int(x) for x in parts[1:-1]]
    except ValueError:
        return ['text', txt]
    return [0, body, vals]


def expected_from_model(mo, cs):
    """model answer -> comparable [0, text, [values in the order of cs]]"""
    if not (isinstance(mo, list) and mo and mo[0] == 0):
        return mo
    cv = {k: v for k, v in mo[2]}
    return [0, model_text(mo[1]), [cv.get(c, 0) for c in cs]]
