"""Confirm a seeded change delivered by a sub-agent before it is kept: in a scratch worktree of /repo (under /tmp, removed
afterwards) the demo exits 0 on the clean tree, the patch applies, every test of the pinned suite's stable-pass set still
passes, and the demo exits non-zero with the change.  Usage: verify_seed.py <delivery dir> <seeded id>   (e.g.
/tmp/seed3-C06-out/m1 C06-r3m1).  On success copies patch.diff, demo.py, meta.json to /verif/seeded/<id>/."""
import json, os, shutil, subprocess, sys
import xml.etree.ElementTree as ET
V = os.path.dirname(os.path.dirname(os.path.abspath(__file__)))


def main():
    src, sid = sys.argv[1], sys.argv[2]
    wt = '/tmp/seedverify-%s' % sid
    subprocess.run(['git', '-C', '/repo', 'worktree', 'remove', '--force', wt], capture_output=True)
    shutil.rmtree(wt, ignore_errors=True)
    subprocess.run(['git', '-C', '/repo', 'worktree', 'add', '-q', '--detach', wt, 'HEAD'], check=True)
    res = dict(id=sid, ok=False)
    try:
        env = dict(os.environ, PYTHONPATH=wt, PYTHONHASHSEED='0')
        demo = os.path.join(src, 'demo.py')
        r0 = subprocess.run(['/venv/bin/python', demo], env=env, capture_output=True, text=True, cwd='/tmp', timeout=900)
        res['demo_clean'] = r0.returncode
        a = subprocess.run(['git', '-C', wt, 'apply', os.path.join(src, 'patch.diff')], capture_output=True, text=True)
        res['applies'] = a.returncode == 0
        if a.returncode != 0:
            res['error'] = a.stderr[-300:]
            return res
        res['files'] = subprocess.run(['git', '-C', wt, 'diff', '--stat'], capture_output=True, text=True).stdout.strip().splitlines()[-1:]
        r1 = subprocess.run(['/venv/bin/python', demo], env=env, capture_output=True, text=True, cwd='/tmp', timeout=900)
        res['demo_mutant'] = r1.returncode
        res['demo_out'] = (r1.stdout + r1.stderr)[-400:]
        junit = '/tmp/seedverify-%s.xml' % sid
        subprocess.run(['/venv/bin/python', '-m', 'pytest', '-q', '-p', 'no:cacheprovider', '--timeout=900',
                        '--continue-on-collection-errors', '--junitxml=' + junit], cwd=wt, capture_output=True, text=True,
                       env=dict(os.environ, PYTHONHASHSEED='0'), timeout=3600)
        passed = set()
        for tc in ET.parse(junit).getroot().iter('testcase'):
            if not any(ch.tag in ('failure', 'error', 'skipped') for ch in tc):
                passed.add('%s::%s' % (tc.get('classname'), tc.get('name')))
        os.unlink(junit)
        stable = set(json.load(open('/root/.vp/BASELINE.json'))['stable_pass'])
        res['tests_passed'] = len(passed)
        res['stable_missing'] = sorted(stable - passed)[:10]
        res['ok'] = bool(r0.returncode == 0 and r1.returncode != 0 and not (stable - passed))
        if res['ok']:
            d = os.path.join(V, 'seeded', sid)
            os.makedirs(d, exist_ok=True)
            for f in ('patch.diff', 'demo.py', 'meta.json'):
                shutil.copy(os.path.join(src, f), os.path.join(d, f))
        return res
    finally:
        subprocess.run(['git', '-C', '/repo', 'worktree', 'remove', '--force', wt], capture_output=True)
        shutil.rmtree(wt, ignore_errors=True)


if __name__ == '__main__':
    r = main()
    print(json.dumps(r))
    os.makedirs(os.path.join(V, 'build', 'seedverify'), exist_ok=True)
    json.dump(r, open(os.path.join(V, 'build', 'seedverify', r['id'] + '.json'), 'w'), indent=1)
