"""Refresh the generated parts of DESIGN.md: section 8 (claims) and the two tables of section 10 (from known_findings.json)."""
import json, os, re
V = os.path.dirname(os.path.dirname(os.path.abspath(__file__)))
d = open(os.path.join(V, 'DESIGN.md')).read()
claims = json.load(open(os.path.join(V, 'harness', 'claims.json')))
known = json.load(open(os.path.join(V, 'known_findings.json')))['findings']
esc = lambda s: s.replace('|', '\\|')
s8 = "## 8. What exists per property\n\nThe claim text of each property (also in MANIFEST.json) lists the theorems; `notes/Cxx/REPORT.md` (and `notes/engine/REPORT.md`) have the builders' details where present.\n\n"
for pid in sorted(claims):
    c = claims[pid]
    s8 += "### %s\n\n%s\n\n*Limits / trusted:* %s\n\n" % (pid, c['text'], c['note'])
i, j = d.index('## 8. What exists per property'), d.index('## 9. Normal forms')
d = d[:i] + s8 + d[j:]
fixed = [f for f in known if f['status'] == 'fixed']
kn = [f for f in known if f['status'] == 'known']
t1 = "| property | commit | what failed |\n|---|---|---|\n" + ''.join(
    "| %s | %s | %s |\n" % (f['property'], f.get('commit', ''), esc(re.sub(r'^fixed: property=\S+ \S+ ', '', f['what']))) for f in fixed)
t2 = "| property | id | what fails |\n|---|---|---|\n" + ''.join("| %s | %s | %s |\n" % (f['property'], f['id'], esc(f['what'][:420])) for f in kn)
i = d.index('| property | commit | what failed |'); j = d.index('\nRecorded, not repaired')
d = d[:i] + t1 + d[j:]
i = d.index('| property | id | what fails |'); j = d.index('\nObservations outside the properties')
d = d[:i] + t2 + d[j:]
open(os.path.join(V, 'DESIGN.md'), 'w').write(d)
print('fixed', len(fixed), 'known', len(kn))
