"""merge notes/*/known.json into known_findings.json (idempotent, by id)"""
import json, glob, os
V = os.path.dirname(os.path.dirname(os.path.abspath(__file__)))
k = json.load(open(os.path.join(V, 'known_findings.json')))
ids = {f['id']: i for i, f in enumerate(k['findings'])}
for p in sorted(glob.glob(os.path.join(V, 'notes', '*', 'known.json'))):
    for e in json.load(open(p)):
        if e['id'] in ids:
            k['findings'][ids[e['id']]] = e
        else:
            ids[e['id']] = len(k['findings'])
            k['findings'].append(e)
json.dump(k, open(os.path.join(V, 'known_findings.json'), 'w'), indent=1)
print(len(k['findings']), 'entries')
